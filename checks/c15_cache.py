"""C15 - the file-info cache across restarts, interrupted saves and damaged
cache files (DESIGN.md section 3, C15).

Parts (one family of shards each):
 roundtrip  cache contents over the time lattice: save_cache, then a new
            FileSet(info_cache=) / load_cache into another cache
 crash      every crash point of save_cache for (previous document, new
            content) pairs, with every directory content the crash can leave
 unserialisable  saves that json.dump itself interrupts
 corrupt    every byte truncation and an alphabet of malformed, well-formed
            and lenient documents
 history    breadth-first search over find / save / crash / exit / kill /
            load_cache / add / delete histories of one cache file
 reset      time_coverage changes inside one process
 process    real interpreters: exit handlers, os._exit inside save_cache
The model is 'the last successfully renamed document' (checks/c15_world.py).
"""
import itertools
import json
import os
import subprocess
import sys
import warnings

from mc import driver
driver.setup_env()

import numpy                                            # noqa: E402
from mc import fault                                    # noqa: E402
import typhon.files.fileset as tff                      # noqa: E402
from typhon.files import FileSet                        # noqa: E402
from checks import c15_model as M                       # noqa: E402
from checks import c15_world as W                       # noqa: E402

PROP = "C15"
LEVEL = "fault_enumeration"
RULE = ("roundtrip: contents = empty, every 1-entry cache (21 spans t0<=t1 "
        "over the 6-instant lattice datetime.min .. datetime.max x 5 "
        "attribute sets: {}, {'sat':'A'}, an int, float + null + list of "
        "strings, a non-ASCII string x 2 path styles), 3-entry caches "
        "(quick: 42 rotations; thorough: all 11480 triples of the 42 span x "
        "{}, {'sat':'A'} entries) x {restart, load_cache into a cache "
        "holding a foreign and a stale entry}. crash: (previous document, "
        "new content) pairs x "
        "every point recorded at the seams of typhon.files.fileset (open for "
        "writing before/after, after each write(), before close, before/"
        "after shutil.move / os.rename / os.replace) x {process death, "
        "OSError}; one evaluation = one directory content the crash can "
        "leave (after unwinding; at the instant of death; every byte prefix "
        "of the written file). unserialisable: a 3-entry cache whose entry "
        "0 / 1 / 2 has an attribute value json cannot write (datetime, "
        "numpy.int64, frozenset) is saved over {no, the empty, a 3-entry} "
        "document. corrupt: truncation of two 3-entry documents at every "
        "byte, 151 malformed documents (33 kinds of broken entry - missing "
        "keys, wrong JSON types of the entry, of path, times and attr, "
        "unreadable time strings - alone and at each position among valid "
        "ones, wrong JSON types of the document, syntax, non-UTF8), 5 "
        "well-formed ones, 4 lenient ones (1-digit fraction, unpadded month "
        "and day, end before start, one path twice), a directory, an "
        "unreadable and a missing file x {restart, load_cache into a "
        "non-empty cache}. history: BFS to depth 3 (quick) / 4 (thorough) "
        "over {find, save, crash at each point, exit (handlers fire), kill, "
        "load_cache, add, delete} from 8 fileset configurations (6 with "
        "info_via='filename'; 2 whose times and int / str attributes come "
        "from a file handler, info_via='handler' and 'both') x populations "
        "{0, 1, 3} (handler configurations in the quick tier: 3 only); "
        "states deduplicated by (cache file hash, backup file absent / empty "
        "/ partial / complete, cached names, files, registered handlers); "
        "one evaluation = one executed transition. reset: all sequences of "
        "<= 4 (quick) / 5 (thorough) operations {find, assign one of 3 "
        "coverages} x 2 configurations. process (thorough): 2 "
        "configurations x 8 death points of a real interpreter's exit "
        "handler. Non-trivial = the content is not empty (roundtrip); the "
        "injected point fired (crash); save_cache raised (unserialisable); "
        "the file is malformed or lenient (corrupt); the operation is not "
        "add/delete and a "
        "non-empty cache or saved document exists after it (history); a "
        "coverage was assigned (reset); always (process). Cases are "
        "distinct by construction.")
ASSUMPTIONS = [
    "crash model: the process dies, completed system calls persist, nothing "
    "else does; os.rename is atomic; no power-loss reordering",
    "crash points are the calls reachable through the names open, shutil and "
    "os of typhon.files.fileset; data in the file object's buffer is lost "
    "at a death, any byte prefix of the written data may be on disk",
    "a missing cache file must give an empty cache without an exception; a "
    "warning is accepted but not demanded there (first run of a script); the "
    "well-formed empty document [] needs no warning either",
    "after a failed load the statement does not say whether the cache is "
    "registered for saving at exit: both are accepted and counted",
    "history states are merged by cache-file content, class of the backup "
    "file (absent, empty, not a JSON document, a JSON document), cached path "
    "names, data files and number of exit handlers (not by the bytes of the "
    "backup file or the cached values)",
    "find() answers are compared with those of a cache-less FileSet of the "
    "same tree (what find must answer is C01's subject)",
    "restarts use the same path template, time_coverage, info_via and "
    "handler as the process that saved the cache",
    "restored information = path, times and attr of a FileInfo (its "
    "file_system is not written to the file and not compared)",
    "attribute values are what JSON can hold (str, int, float, null, list); "
    "a tuple would come back as a list and is outside the round trip; for "
    "values json cannot write only the survival of the last completed save "
    "is demanded, not whether save_cache raises",
    "lenient documents say unambiguously what they mean in a spelling "
    "save_cache never uses; the statement does not class them: accepted are "
    "rejecting the whole file with a warning and restoring exactly what is "
    "written (for a path listed twice: its first or its last entry)",
    "'attr': null is not in the corruption alphabet (FileInfo documents "
    "attr=None as 'no attributes')",
    "whether a restored entry spares the call of the file handler is not "
    "demanded (statement: same answers with or without the cache)",
]

EXCS = {"Abort": fault.Abort, "Fault": fault.Fault}
BASE_OPS = ("find", "save", "load", "exit", "kill", "add", "delete", "reset")


def chunks(n, parts):
    return [(i * n // parts, (i + 1) * n // parts) for i in range(parts)]


def shards(tier, seed):
    thorough = tier == "thorough"
    out = [("roundtrip", "small", tier, 0, 0)]
    ntriples = 11480 if thorough else 42
    out += [("roundtrip", "triples", tier, lo, hi)
            for lo, hi in chunks(ntriples, 16 if thorough else 2)]
    more = M.MORE if thorough else ()
    out += [("crash", p, n) for p in M.QUICK_PREVIOUS + more
            for n in M.QUICK_NEW + more]
    out += [("unserialisable", p) for p in (None, "empty", "three-modern")]
    out += [("corrupt", "documents", mode) for mode in ("restart", "load")]
    out += [("corrupt", "truncated", base, mode)
            for base in ("typhon:three-modern", "reference:three-mixed")
            for mode in ("restart", "load")]
    depth = 4 if thorough else 3
    for config, (_, pool) in M.CONFIGS.items():
        for population in M.POPULATIONS:
            # quick tier: the handler configurations start from 3 files only
            if population <= len(pool) and (
                    thorough or config not in M.HANDLED or population == 3):
                out.append(("history", config, population, depth))
    out.append(("reset", depth + 1))
    if thorough:
        out += [("process", config, at)
                for config in ("span+sat", "plain")
                for at in PROCESS_POINTS]
    return out


# --------------------------------------------------------------------------
# roundtrip
# --------------------------------------------------------------------------

def roundtrip_contents(world, shard):
    _, family, tier, lo, hi = shard
    if family == "small":
        return [()] + list(M.singles(world.base))
    return M.triples(world.base, tier)[lo:hi]


def roundtrip(world, content, mode):
    world.forget()
    bad = world.boot()
    world.inject(content)
    bad += world.save_completely()
    if mode == "restart":
        return bad + world.boot()
    with W.REGISTRY.aside():
        world.fs = world.fileset()
    stale = [M.entry(e[0], M.LATTICE[2], M.LATTICE[2], {"sat": "stale"})
             for e in content[:1]]
    world.inject(stale + [M.entry(world.base + "foreign.dat", M.LATTICE[3],
                                  M.LATTICE[4], {})])
    return bad + world.load()


def run_roundtrip(shard, res, root):
    world = W.World(root)
    case = None
    for index, content in enumerate(roundtrip_contents(world, shard)):
        for mode in ("restart", "load"):
            case = dict(part="roundtrip", shard=list(shard), index=index,
                        mode=mode)
            report(res, case, roundtrip(world, content, mode),
                   nontrivial=bool(content),
                   again=lambda: roundtrip(world, content, mode))
    return case


# --------------------------------------------------------------------------
# crash points of one save
# --------------------------------------------------------------------------

class RestartRaised(Exception):
    """Process 2 of an interrupted save could not be constructed."""


def interrupted_save(world, previous, new, plan):
    """Process 1 saved `previous` completely (None: never); process 2 holds
    `new` and saves under `plan`."""
    contents = M.named(world.base)
    world.forget()
    if previous is not None:
        world.boot()
        world.inject(contents[previous])
        world.save_completely()
    bad = world.boot()
    if world.fs is None:
        raise RestartRaised(bad)
    world.inject(contents[new])
    old = (world.bytes, world.entries)
    seams, raised = world.save(plan)
    return seams, raised, old, W.snapshot(world.fs)


def crash_evaluations(world, previous, new, plan, complete):
    """-> [(state label, violations)] for one execution; `complete` is the
    document the undisturbed save wrote."""
    seams, raised, old, held = interrupted_save(world, previous, new, plan)
    disk = world.disk()
    if plan.inject_at is None:
        bad = world.commit(disk.get(W.CACHE), held)
        if raised is not None:
            bad.append(("save_cache/exception/" + type(raised).__name__,
                        None, repr(raised)[:300], ""))
        return [("complete", bad + world.audit(
            disk, disk.get(W.CACHE), held, "save_cache"))]
    want = (complete, held) if seams.renamed else old
    return [(label, world.audit(state, *want))
            for label, state in W.crash_states(
                seams, disk, died=plan.exc is fault.Abort)]


def run_crash(shard, res, root):
    _, previous, new = shard
    world = W.World(root)
    complete = []
    case = None

    def run(plan):
        try:
            return crash_evaluations(world, previous, new, plan,
                                     complete[0] if complete else None)
        except RestartRaised as e:
            return [("restart", e.args[0])]
    for plan, evaluations in fault.explore(run, tuple(EXCS.values())):
        if plan.inject_at is None:
            complete.append(world.disk().get(W.CACHE))
            res.count("crash_points", len(plan.trace))
            res.maximum("crash_points_per_save", len(plan.trace))
            for label in plan.trace:
                res.add("crash_point_labels", label)
        again = {}
        if any(bad for _, bad in evaluations):
            again = dict(run(fault.Plan(plan.inject_at, plan.exc)))
        for label, bad in evaluations:
            case = dict(part="crash", previous=previous, new=new,
                        at=plan.inject_at, state=label, exc=None if
                        plan.inject_at is None else plan.exc.__name__)
            res.count("crash_states_" + label.split(":")[0])
            report(res, case, bad, nontrivial=plan.fired is not None,
                   again=lambda: again.get(label, []))
    return case


def replay_crash(case, root):
    world = W.World(os.path.join(root, "again"))
    try:
        first = crash_evaluations(world, case["previous"], case["new"],
                                  fault.Plan(), None)
    except RestartRaised as e:
        return e.args[0]
    complete = world.disk().get(W.CACHE)
    if case["at"] is None:
        return first[0][1]
    plan = fault.Plan(case["at"], EXCS[case["exc"]])
    return dict(crash_evaluations(
        world, case["previous"], case["new"], plan, complete)
    ).get(case["state"], [])


# --------------------------------------------------------------------------
# a save that fails by itself
# --------------------------------------------------------------------------

# attribute values a handler may supply and json cannot write
UNSERIALISABLE = {"datetime": M.LATTICE[4], "numpy.int64": numpy.int64(7),
                  "set": frozenset("a")}


def unserialisable_save(world, previous, position, kind):
    """Process 1 saved `previous` (None: never); process 2 holds three entries
    of which number `position` has an attribute json.dump stops at. Whether
    its save raises is not judged; if it does, the last completed save must
    have survived. -> (violations, the save raised)"""
    contents = M.named(world.base)
    world.forget()
    if previous is not None:
        world.boot()
        world.inject(contents[previous])
        world.save_completely()
    bad = world.boot()
    if world.fs is None:
        return bad, False
    world.inject(contents["three-mixed"])
    info = list(world.fs.info_cache.values())[position]
    info.attr["extra"] = UNSERIALISABLE[kind]
    old = (world.bytes, world.entries)
    held = W.snapshot(world.fs)
    raised = world.save(fault.Plan())[1]
    disk = world.disk()
    if raised is None:
        return bad + world.commit(disk.get(W.CACHE), held), False
    return bad + world.audit(disk, *old, "failed-save"), True


def run_unserialisable(shard, res, root):
    world = W.World(root)
    case = None
    for position in range(3):
        for kind in UNSERIALISABLE:
            case = dict(part="unserialisable", previous=shard[1],
                        position=position, kind=kind)
            bad, raised = unserialisable_save(world, shard[1], position,
                                              kind)
            report(res, case, bad, nontrivial=raised,
                   again=lambda: unserialisable_save(
                       world, shard[1], position, kind)[0])
    return case


# --------------------------------------------------------------------------
# damaged cache files
# --------------------------------------------------------------------------

def base_document(world, base):
    """The document typhon saves for a named content (the reference
    writer's if it saves none; the save itself is judged elsewhere)."""
    writer, name = base.split(":")
    content = M.named(world.base)[name]
    if writer == "typhon":
        world.forget()
        world.boot()
        world.inject(content)
        world.save_completely()
        if world.bytes is not None:
            return world.bytes
    return M.document(content)


def corrupt_cases(world, shard):
    """-> [(label, installer of the damage, entries to restore | None =
    malformed | {"any_of": ...} = M.lenient_documents)]"""
    def put(data):
        return lambda: world.put(data)
    if shard[1] == "truncated":
        whole = base_document(world, shard[2])
        return [("bytes/truncated/%d" % k, put(whole[:k]), None)
                for k in range(len(whole))]
    content = M.named(world.base)["three-modern"]
    out = [(label, put(data), want)
           for label, data, want in M.corrupt_documents(content)]
    out.append(("directory", lambda: os.mkdir(world.cache), None))
    out.append(("unreadable", put(M.document(content)), None))
    out.append(("missing", lambda: None, ()))
    return out


def denied(file, mode="r", *args, **kwargs):
    raise PermissionError(13, "Permission denied", os.fspath(file))


def damaged(world, label, install, want, mode):
    """One process meets one damaged (or well-formed) cache file.
    -> (violations, exit handlers registered)"""
    world.forget()
    install()
    held = {}
    if mode == "load":
        with W.REGISTRY.aside():
            world.fs = world.fileset()
        world.inject([M.entry(world.base + "held.dat", M.LATTICE[3],
                              M.LATTICE[4], {"sat": "A"})])
        held = W.snapshot(world.fs)
    W.REGISTRY.handlers = []
    seam = dict(open=denied) if label == "unreadable" else {}
    with fault.patched(tff, **seam):
        if mode == "restart":
            exc, warned, world.fs = world.construct(world.cache)
        else:
            exc = None
            with warnings.catch_warnings(record=True) as caught:
                warnings.simplefilter("always")
                try:
                    world.fs.load_cache(world.cache)
                except Exception as e:
                    exc = e
            warned = [str(w.message) for w in caught]
    group = "/".join(label.split("/")[:2])
    if exc is not None:
        return [("damaged/exception/" + type(exc).__name__, None,
                 repr(exc)[:300], "")], 0
    got = W.snapshot(world.fs)
    registered = len(W.REGISTRY.handlers)

    def after(content):
        return dict(held, **{e[0]: e for e in content})
    if isinstance(want, dict):
        allowed = [after(content) for content in want["any_of"]]
        if got in allowed or got == held and warned:
            return [], registered
        return [("lenient/neither-rejected-nor-read-as-written[%s]" % group,
                 allowed, got, "; ".join(warned)[:300])], registered
    expected = after(want or ())
    if want is not None:
        if got != expected:
            return [("wellformed/not-restored[%s]" % group, expected, got,
                     "; ".join(warned)[:300])], registered
        return [], registered
    # one key per case: the gravest symptom
    if W.invented(got):
        return [("damaged/invented-file-information[%s]" % group,
                 "no entry whose times are not two datetimes",
                 W.invented(got), "")], registered
    if got != expected:
        return [("damaged/entries-taken-from-malformed-file[%s]" % group,
                 expected, got, "")], registered
    if not warned:
        return [("damaged/no-warning[%s]" % group, "a warning", [], "")], \
            registered
    return [], registered


def run_corrupt(shard, res, root):
    world = W.World(root)
    mode = shard[-1]
    case = None
    for label, install, want in corrupt_cases(world, shard):
        case = dict(part="corrupt", shard=list(shard), label=label)

        def once():
            return damaged(world, label, install, want, mode)
        bad, registered = once()
        lenient = isinstance(want, dict)
        res.count("exit_handlers_after_%s_load" % (
            "failed" if want is None else "lenient" if lenient
            else "successful"), registered)
        report(res, case, bad, nontrivial=want is None or lenient,
               again=lambda: once()[0])
    return case


# --------------------------------------------------------------------------
# histories
# --------------------------------------------------------------------------

def perform(world, op):
    """-> (violations, crash points of a save from here, the step happened)"""
    if op[0] == "crash":
        bad, fired = world.crash(op[1])
        return bad, None, fired is not None
    if op == "save":
        plan = fault.Plan()
        bad = world.save_completely(plan)
        return bad + world.committed(), len(plan.trace), True
    if op == "kill":
        return world.boot(), None, True
    if op == "exit":
        return world.exit(), None, True
    return getattr(world, op)() + world.committed(), None, True


def execute(root, config, population, history):
    """-> (world, violations of the last operation, its crash points, it
    happened). A history ends where a restart raises (world.fs is None)."""
    world = W.World(root, config, population)
    out = (world.boot(), None, True)
    for op in history:
        if world.fs is not None:
            out = perform(world, op)
    return (world,) + out


def applicable(world):
    present = set(os.listdir(world.data))
    for op in BASE_OPS:
        if op == "add" and present >= set(world.pool):
            continue
        if op == "delete" and not present:
            continue
        yield op


def run_history(shard, res, root):
    _, config, population, depth = shard
    case = None

    def step(history):
        nonlocal case
        world, bad, points, happened = execute(root, config, population,
                                               history)
        if not happened:
            res.error("NONDETERMINISM %r: the crash point was not reached" % (
                history,))
        case = dict(part="history", config=config, population=population,
                    ops=[list(op) if isinstance(op, tuple) else op
                         for op in history])
        report(res, case, bad,
               nontrivial=history[-1:] not in ((), ("add",), ("delete",))
               and bool(world.entries or world.fs is not None
                        and world.fs.info_cache),
               again=lambda: execute(root, config, population, history)[1])
        if history:
            res.add("operations", history[-1][0] if isinstance(
                history[-1], tuple) else history[-1])
        return world, points

    seen, frontier = set(), []
    visit(step(())[0], (), seen, frontier)
    for level in range(depth):
        successors = []
        for history in frontier:
            ops = list(applicable(execute(root, config, population,
                                          history)[0]))
            points = 0
            for op in ops:
                world, n = step(history + (op,))
                points = n or points
                visit(world, history + (op,), seen, successors)
            for k in range(points):
                world, _ = step(history + (("crash", k),))
                visit(world, history + (("crash", k),), seen, successors)
        frontier = successors
        res.maximum("history_frontier", len(frontier))
    res.count("history_states", len(seen))
    return case


def visit(world, history, seen, successors):
    state = world.canonical() if world.fs is not None else None
    if state is not None and state not in seen:
        seen.add(state)
        successors.append(history)


# --------------------------------------------------------------------------
# time_coverage changes inside one process
# --------------------------------------------------------------------------

RESET_CONFIGS = {
    # template, file names, coverages (the first one is given to __init__)
    "start-only": ("s_{year}{month}{day}T{hour}{minute}{second}.dat",
                   ["s_19691231T235959.dat", "s_20200229T000000.dat"],
                   ["1 hour", "1 second", None]),
    "single": ("single.dat", ["single.dat"],
               [(M.LATTICE[2], M.LATTICE[3]), (M.LATTICE[4], M.MAX), None]),
}


def reset_case(root, config, sequence):
    """`sequence` of 'find' / index of the coverage assigned to
    fs.time_coverage; afterwards find() must answer like a new FileSet that
    was given the current coverage."""
    template, names, coverages = RESET_CONFIGS[config]
    world = W.World(root)
    for name in names:
        world.touch(name)
    path = os.path.join(world.data, template)
    fs = FileSet(path, time_coverage=coverages[0])
    current = coverages[0]
    for op in sequence:
        if op == "find":
            W.answers(fs)
        else:
            current = coverages[op]
            fs.time_coverage = current
    got, want = W.answers(fs), W.answers(FileSet(path, time_coverage=current))
    if got != want:
        return [("reset/stale-answers-after-time_coverage-change", want, got,
                 "")]
    return []


def run_reset(shard, res, root):
    case = None
    for config, (_, _, coverages) in RESET_CONFIGS.items():
        ops = ["find"] + list(range(len(coverages)))
        for n in range(1, shard[1] + 1):
            for sequence in itertools.product(ops, repeat=n):
                case = dict(part="reset", config=config,
                            sequence=list(sequence))
                report(res, case, reset_case(root, config, sequence),
                       nontrivial=any(op != "find" for op in sequence))
    return case


# --------------------------------------------------------------------------
# real interpreters
# --------------------------------------------------------------------------

PROCESS_POINTS = ("none", "first", "opened", "written-1", "written-half",
                  "before-close", "before-rename", "last")
RENAMED = tuple("%s.%s:after" % (modname, attr)
                for modname, _, attr in W.RENAMERS)


class InterpreterFailed(Exception):
    pass


def interpreter(world, die_at=None, cache=True, status=0):
    """Runs checks/c15_proc.py on the world's tree: FileSet(info_cache=),
    find, normal exit; `die_at` = index of the crash point of the exit
    handler's save at which the interpreter calls os._exit(9).
    -> the report it printed"""
    spec = dict(path=os.path.join(world.data, world.template),
                cache=world.cache if cache else None, die_at=die_at)
    proc = subprocess.run(
        [sys.executable, "-m", "checks.c15_proc", json.dumps(spec)],
        cwd=driver.VERIF, capture_output=True, text=True, timeout=900,
        env=dict(os.environ, PYTHONWARNINGS="ignore"))
    lines = [line[8:] for line in proc.stdout.splitlines()
             if line.startswith("C15PROC ")]
    if proc.returncode != status or (status == 0 and not lines):
        raise InterpreterFailed("%r: exit status %r, stderr %s" % (
            spec, proc.returncode, proc.stderr[-400:]))
    return json.loads(lines[-1]) if lines else None


def point_index(labels, at):
    writes = [i for i, label in enumerate(labels) if label == "write:after"]
    return {
        "first": 0,
        "opened": labels.index("open:after"),
        "written-1": writes[0],
        "written-half": writes[len(writes) // 2],
        "before-close": labels.index("file.close"),
        "before-rename": min(i for i, label in enumerate(labels)
                             if label.replace(":before", ":after")
                             in RENAMED),
        "last": len(labels) - 1,
    }[at]


def process_case(root, config, at):
    """Interpreter 1 fills the cache and exits (the handler saves).
    Interpreter 2 sees one more file, asks find() and dies inside the
    handler's save (at='none': it does not die). Interpreter 3 must restore
    what 1 saved - what 2 saved if 2 got past the rename - and answer like an
    interpreter without cache."""
    world = W.World(root, config, 3)
    first = interpreter(world)
    saved = world.disk().get(W.CACHE)
    world.touch(world.pool[3])
    second = interpreter(world)        # also tells the labels of the points
    renamed = True
    if at != "none":
        world.put(saved)
        index = point_index(second["points"], at)
        renamed = any(label in RENAMED
                      for label in second["points"][:index + 1])
        interpreter(world, die_at=index, status=9)
    bad = []
    if not renamed and world.disk().get(W.CACHE) != saved:
        bad.append(("process/cache-file-is-not-the-last-completed-save",
                    W.describe(saved),
                    W.describe(world.disk().get(W.CACHE)), ""))
    want = second["cache"] if renamed else first["cache"]
    third = interpreter(world)
    if third["loaded"] != want:
        rejected = not third["loaded"] and third["warnings"]
        old = any(t < "1000" for e in want for t in e[1:3])
        bad.append((
            "process/restart/restored-info-differs" if not rejected else
            "load/saved-cache-rejected" + ("-year-below-1000" if old else ""),
            want, third["loaded"], "; ".join(third["warnings"])[:300]))
    plain = interpreter(world, cache=False)
    if third["answers"] != plain["answers"]:
        bad.append(("process/find/answers-differ-with-cache",
                    plain["answers"], third["answers"], ""))
    return bad


def run_process(shard, res, root):
    _, config, at = shard
    case = dict(part="process", config=config, at=at)
    try:
        report(res, case, process_case(root, config, at), nontrivial=True)
    except InterpreterFailed as e:
        res.error("process %r: %s" % (shard, e))
    return case


# --------------------------------------------------------------------------
# driver protocol
# --------------------------------------------------------------------------

def report(res, case, bad, nontrivial, again=None):
    res.case(nontrivial=nontrivial)
    if not bad:
        return
    if again is not None:
        keys = sorted(b[0] for b in again())
        if keys != sorted(b[0] for b in bad):
            res.error("NONDETERMINISM %r: %r, then %r" % (
                case, sorted(b[0] for b in bad), keys))
    for key, expected, observed, msg in bad:
        res.violation(key, case, expected, observed, msg)


RUNNERS = dict(roundtrip=run_roundtrip, crash=run_crash,
               unserialisable=run_unserialisable, corrupt=run_corrupt,
               history=run_history, reset=run_reset, process=run_process)


def run_shard(shard):
    res = driver.ShardResult()
    root = driver.fresh_dir("c15")
    try:
        res.sample(RUNNERS[shard[0]](shard, res, root))
    except fault.Nondeterminism as e:
        res.error("NONDETERMINISM %r: %s" % (shard, e))
    return res


def replay(case):
    root = driver.fresh_dir("c15r")
    part = case["part"]
    if part == "roundtrip":
        world = W.World(root)
        content = roundtrip_contents(world, case["shard"])[case["index"]]
        bad = roundtrip(world, content, case["mode"])
    elif part == "crash":
        bad = replay_crash(case, root)
    elif part == "unserialisable":
        bad = unserialisable_save(W.World(root), case["previous"],
                                  case["position"], case["kind"])[0]
    elif part == "corrupt":
        world = W.World(root)
        label, install, want = next(
            c for c in corrupt_cases(world, case["shard"])
            if c[0] == case["label"])
        bad = damaged(world, label, install, want, case["shard"][-1])[0]
    elif part == "history":
        ops = tuple(tuple(op) if isinstance(op, list) else op
                    for op in case["ops"])
        bad = execute(root, case["config"], case["population"], ops)[1]
    elif part == "reset":
        bad = reset_case(root, case["config"], case["sequence"])
    else:
        bad = process_case(root, case["config"], case["at"])
    if not bad:
        return dict(ok=True)
    return dict(ok=False, key=bad[0][0], expected=bad[0][1],
                observed=bad[0][2], keys=sorted(b[0] for b in bad))


if __name__ == "__main__":
    driver.main(sys.modules[__name__])
