"""C08, part "units": the frequency / wavelength / wavenumber converters.

Every path of 1..6 edges through the complete directed graph on
{f, l, n} (frequency [Hz], wavelength [m], wavenumber [1/m]) is executed with
the real converters; the reference walks the same path in exact rationals
(the speed of light is an integer number of m/s).
"""
import itertools
from fractions import Fraction

import numpy as np

ULP = Fraction(1, 2 ** 52)
ULPS_PER_EDGE = 4          # DESIGN C08; every edge is one correctly rounded
                           # operation of condition number 1
MAX_PATH = 6
NODES = ("f", "l", "n")

CONVERTER = {
    ("f", "l"): "frequency2wavelength",
    ("f", "n"): "frequency2wavenumber",
    ("l", "f"): "wavelength2frequency",
    ("l", "n"): "wavelength2wavenumber",
    ("n", "f"): "wavenumber2frequency",
    ("n", "l"): "wavenumber2wavelength",
}


def exact_edge(src, dst, x, c):
    if {src, dst} == {"f", "l"}:
        return c / x
    if {src, dst} == {"l", "n"}:
        return 1 / x
    return x / c if src == "f" else x * c


def speed_of_light():
    from typhon import constants
    return Fraction(constants.speed_of_light)


def frequencies(tier):
    """Lattice over the stated range 1e8..1e15 Hz (even length)."""
    mantissas = (1.0, 2.5, 9.99) if tier == "quick" else \
        (1.0, 1.5, 2.5, 3.3, 5.0, 7.77, 9.99)
    out = [m * 10.0 ** e for e in range(8, 15) for m in mantissas] + [1e15]
    if len(out) % 2:
        out.append(4.2e14)
    return out


def start_values(node, tier):
    """The lattice frequencies expressed (correctly rounded) in the unit of
    the start node; from there on the float is taken as exact."""
    c = speed_of_light()
    return [float(exact_edge("f", node, Fraction(f), c)) if node != "f" else f
            for f in frequencies(tier)]


def paths(start, first):
    for n in range(1, MAX_PATH + 1):
        for rest in itertools.product(NODES, repeat=n - 1):
            path = (first,) + rest
            if all(a != b for a, b in zip((start,) + path, path)):
                yield path


def shards(tier):
    return [("units", tier, start, first) for start in NODES
            for first in NODES if first != start]


def cases(shard):
    _, tier, start, first = shard
    values = start_values(start, tier)
    for path in paths(start, first):
        for mode in ("float", "float64"):
            for v in values:
                yield dict(part="units", start=start, path=list(path),
                           mode=mode, values=[v])
        for mode in ("array1", "array2"):
            yield dict(part="units", start=start, path=list(path), mode=mode,
                       values=values)


def nontrivial(case):
    return len(case["path"]) >= 2


def container(values, mode):
    if mode == "float":
        return float(values[0])
    if mode == "float64":
        return np.float64(values[0])
    if mode == "array1":
        return np.array(values, dtype=float)
    if mode == "array2":
        return np.array(values, dtype=float).reshape(2, -1)
    raise ValueError(mode)


def check(case):
    """-> (list of (key, expected, observed, msg), number of judged values)"""
    from typhon.physics import em
    c = speed_of_light()
    values, path = case["values"], case["path"]
    x = container(values, case["mode"])
    shape = np.shape(x)
    src = case["start"]
    for dst in path:
        name = CONVERTER[src, dst]
        try:
            with np.errstate(all="ignore"):
                x = getattr(em, name)(x)
        except Exception as e:
            return [("exception/%s/%s" % (name, type(e).__name__), None,
                     repr(e)[:200], "")], 0
        src = dst
    if np.shape(x) != shape:
        return [("units/shape", list(shape), list(np.shape(x)), name)], 0
    got = np.asarray(x, dtype=float).ravel()
    tol = ULPS_PER_EDGE * len(path) * ULP
    for v, g in zip(values, got):
        exp = Fraction(v)
        src = case["start"]
        for dst in path:
            exp = exact_edge(src, dst, exp, c)
            src = dst
        if not np.isfinite(g) or abs(Fraction(float(g)) - exp) > tol * exp:
            closed = path[-1] == case["start"]
            key = "units/round-trip-not-identity" if closed else \
                "units/%s-from-%s" % (path[-1], case["start"])
            return [(key, float(exp), float(g),
                     "start %r %s -> %s" % (v, case["start"],
                                            "->".join(path)))], len(values)
    return [], len(values)
