"""C08, part "units": the frequency / wavelength / wavenumber converters.

Every path of 1..6 edges through the complete directed graph on
{f, l, n} (frequency [Hz], wavelength [m], wavenumber [1/m]) is executed with
the real converters; the reference walks the same path in exact rationals
(the speed of light is an integer number of m/s). The start values are the
float lattice and, in every other representation of c08_reps that holds them
exactly, the whole numbers of WHOLE.
"""
import itertools
from fractions import Fraction

import numpy as np

from checks import c08_reps as reps

ULPS_PER_EDGE = 4          # DESIGN C08; every edge is one correctly rounded
                           # operation of condition number 1 (ulp of the
                           # precision reps.eps grants the representation)
MAX_PATH = 6
REP_PATH = {"quick": 2, "thorough": MAX_PATH}
# whole numbers inside the stated range 1e8..1e15 Hz = 3e-7..3 m = 0.33..3.3e6 /m
WHOLE = {"f": (10 ** 8, 3 * 10 ** 8, 2 ** 30, 15 * 10 ** 8, 10 ** 10,
               10 ** 12, 2 ** 40, 10 ** 15),
         "l": (1, 2),
         "n": (1, 100, 500, 1000, 1500, 10 ** 6, 3 * 10 ** 6)}
NODES = ("f", "l", "n")

CONVERTER = {
    ("f", "l"): "frequency2wavelength",
    ("f", "n"): "frequency2wavenumber",
    ("l", "f"): "wavelength2frequency",
    ("l", "n"): "wavelength2wavenumber",
    ("n", "f"): "wavenumber2frequency",
    ("n", "l"): "wavenumber2wavelength",
}


def exact_edge(src, dst, x, c):
    if {src, dst} == {"f", "l"}:
        return c / x
    if {src, dst} == {"l", "n"}:
        return 1 / x
    return x / c if src == "f" else x * c


def speed_of_light():
    from typhon import constants
    return Fraction(constants.speed_of_light)


def frequencies(tier):
    """Lattice over the stated range 1e8..1e15 Hz (even length)."""
    mantissas = (1.0, 2.5, 9.99) if tier == "quick" else \
        (1.0, 1.5, 2.5, 3.3, 5.0, 7.77, 9.99)
    out = [m * 10.0 ** e for e in range(8, 15) for m in mantissas] + [1e15]
    if len(out) % 2:
        out.append(4.2e14)
    return out


def start_values(node, tier):
    """The lattice frequencies expressed (correctly rounded) in the unit of
    the start node; from there on the float is taken as exact."""
    c = speed_of_light()
    return [float(exact_edge("f", node, Fraction(f), c)) if node != "f" else f
            for f in frequencies(tier)]


def paths(start, first):
    for n in range(1, MAX_PATH + 1):
        for rest in itertools.product(NODES, repeat=n - 1):
            path = (first,) + rest
            if all(a != b for a, b in zip((start,) + path, path)):
                yield path


def shards(tier):
    return [("units", tier, start, first) for start in NODES
            for first in NODES if first != start]


def cases(shard):
    _, tier, start, first = shard
    values = start_values(start, tier)
    for path in paths(start, first):
        for rep in ("float", "float64"):
            for v in values:
                yield dict(part="units", start=start, path=list(path),
                           mode="scalar", rep=rep, values=[v])
        for mode in ("array1", "array2"):
            yield dict(part="units", start=start, path=list(path), mode=mode,
                       rep="float64", values=values)
        if len(path) > REP_PATH[tier]:
            continue
        for rep in reps.REPS:
            whole = [v for v in WHOLE[start] if reps.representable(v, rep)]
            for mode in ("scalar",) if rep == "int" else ("scalar", "0d"):
                for v in whole:
                    yield dict(part="units", start=start, path=list(path),
                               mode=mode, rep=rep, values=[v])
            if rep in reps.ARRAY_REPS:
                yield dict(part="units", start=start, path=list(path),
                           mode="array1", rep=rep, values=whole)
                yield dict(part="units", start=start, path=list(path),
                           mode="array2", rep=rep, values=whole + whole[::-1])


def nontrivial(case):
    return len(case["path"]) >= 2


def container(values, mode, rep):
    if mode == "scalar":
        return float(values[0]) if rep == "float" else \
            reps.scalar(values[0], rep)
    arr = reps.array(values, rep)
    if mode == "0d":
        return arr[0].reshape(())
    return arr if mode == "array1" else arr.reshape(2, -1)


def check(case):
    """-> (list of (key, expected, observed, msg), number of judged values)"""
    bad, judged = walk(case)
    rep = None if case["rep"] == "float" else case["rep"]
    return reps.tagged(bad, rep), judged


def walk(case):
    from typhon.physics import em
    c = speed_of_light()
    values, path = case["values"], case["path"]
    x = container(values, case["mode"], case["rep"])
    shape = np.shape(x)
    src = case["start"]
    for dst in path:
        name = CONVERTER[src, dst]
        try:
            with np.errstate(all="ignore"):
                x = getattr(em, name)(x)
        except Exception as e:
            return [("exception/%s/%s" % (name, type(e).__name__), None,
                     repr(e)[:200], "")], 0
        src = dst
    if np.shape(x) != shape:
        return [("units/shape", list(shape), list(np.shape(x)), name)], 0
    got = np.asarray(x, dtype=float).ravel()
    tol = ULPS_PER_EDGE * len(path) * Fraction(reps.eps(case["rep"]))
    for v, g in zip(values, got):
        exp = Fraction(v)
        src = case["start"]
        for dst in path:
            exp = exact_edge(src, dst, exp, c)
            src = dst
        if not np.isfinite(g) or abs(Fraction(float(g)) - exp) > tol * exp:
            closed = path[-1] == case["start"]
            key = "units/round-trip-not-identity" if closed else \
                "units/%s-from-%s" % (path[-1], case["start"])
            return [(key, float(exp), float(g),
                     "start %r (%s %s) %s -> %s" % (
                         v, case["rep"], case["mode"], case["start"],
                         "->".join(path)))], len(values)
    return [], len(values)
