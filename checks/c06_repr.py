"""C06, part "repr": the number representation of the positions (driven from
c06_geoindex.py).

The same build and query positions are passed as float64 arrays and - where
every coordinate is exactly representable there - as float32, int64 and int32
arrays: one of lat / lon at a time, one side (build or query) at a time, and
all together. The values are identical numbers in every representation, so
the pairs and the distances are those demanded for the float64 call; each call
is judged against the dense longdouble oracle of c06_model.py, and a failure
that the float64 call of the same index configuration, query and radius does
not share is reported under the representation's own key."""
import itertools

import numpy as np

from checks import c06_model as model

RULE = ("Representation part: two lattices - 'whole' (whole degrees: three "
        "points 1.94 / 3.88 / 5.82 km apart on latitude 89, the pole, lon 180 "
        "and -180 on the equator, a point one degree south of them, a point "
        "whose float32 cartesian coordinates are 1.16 m off; 5 query points) passed as float64, float32, int64 and int32 arrays, and "
        "'sixtyfourth' (multiples of 2**-6 degree: a 1.74 km cluster of four "
        "points and two points across the date line; 3 query points) passed "
        "as float64 and float32 arrays. The whole build array x the 9 "
        "configurations x {shuffle off, reversal, cyclic shift by one} x the "
        "query array = all query points / the first one x 4 radii (1 m and "
        "three radii between lattice distances, at least 10 m away from each) "
        "x the representation cases: all float64; one side float64 and the "
        "other with (lat, lon) = (t, t), (t, float64), (float64, t) for each "
        "other type t; both sides uniform in types (t, u) for every ordered "
        "pair of the other types.")

F64 = "float64"
BOTH_F64 = (F64, F64)
# lattice -> (build positions, query positions, representations other than
# float64, radii in km)
LATTICES = {
    "whole": (
        [(89, 0), (89, 1), (89, 3), (90, 7), (0, 180), (0, -180), (-1, 180),
         (-10, -141)],
        [(89, 0), (89, 2), (0, -180), (90, -60), (-10, -141)],
        ("float32", "int64", "int32"), [0.001, 3, 5, 120]),
    "sixtyfourth": (
        [(10, 20), (10.015625, 20), (10.03125, 20), (10, 20.015625),
         (-10.015625, -179.984375), (-10.015625, 179.984375)],
        [(10, 20), (10.015625, 20.015625), (-10.015625, 180)],
        ("float32",), [0.001, 2, 3, 5]),
}
# float32 arithmetic on coordinates of the size of the Earth radius resolves
# 0.5 m: no lattice distance may be closer than this to a radius
MARGIN_KM = 0.01
PERMS = ("off", "reversal", "shift")
QUERIES = ("all", "first")

DIST = {name: model.distance_matrices(*zip(*build), *zip(*query))
        for name, (build, query, _, _) in LATTICES.items()}


def sides(lattice):
    """The (lat type, lon type) of one side."""
    reps = LATTICES[lattice][2]
    return [BOTH_F64] + [(t, t) for t in reps] + \
        [s for t in reps for s in ((t, F64), (F64, t))]


def cases(lattice):
    """(build side, query side): the float64 call first, then one side at a
    time, then both sides."""
    other = sides(lattice)[1:]
    reps = LATTICES[lattice][2]
    return [(BOTH_F64, BOTH_F64)] + [(s, BOTH_F64) for s in other] + \
        [(BOTH_F64, s) for s in other] + \
        [((t, t), (u, u)) for t, u in itertools.product(reps, repeat=2)]


def types_of(build_side, query_side):
    return tuple(sorted(set(build_side + query_side) - {F64}))


def key_of(types):
    return ("position-dtype/%s/differs-from-the-same-values-as-float64"
            % "+".join(types))


def arrays(positions, side):
    return tuple(np.array(values, dtype=t)
                 for values, t in zip(zip(*positions), side))


def lattice_errors():
    errors = []
    for name, (build, query, reps, radii) in LATTICES.items():
        for positions, t in itertools.product((build, query), reps):
            for a, values in zip(arrays(positions, (t, t)), zip(*positions)):
                if a.astype(F64).tolist() != [float(v) for v in values]:
                    errors.append("%s lattice not representable as %s"
                                  % (name, t))
        for metric, d in DIST[name].items():
            # the smallest radius selects the coincident points only (the
            # pole and the date line coincide to 1e-15 km in the oracle)
            for r in radii:
                near = np.abs(d - r) <= MARGIN_KM
                if np.any(near & (d > 1e-9) if r == radii[0] else near):
                    errors.append("distance within %g km of the radius: repr "
                                  "part %s %s r=%r" % (MARGIN_KM, name,
                                                       metric, r))
    return errors


def shards(tier, seed):
    return [("repr", name) for name in LATTICES]


def permutation(desc, n):
    if desc == "off":
        return None
    ident = tuple(range(n))
    return ident[::-1] if desc == "reversal" else ident[1:] + ident[:1]


def expected(lattice, metric, qsel, r):
    d = DIST[lattice][metric]
    nq = d.shape[1] if qsel == "all" else 1
    return {(i, j): float(d[i, j]) for i in range(d.shape[0])
            for j in range(nq) if d[i, j] <= r}


def build_indexes(seam, lattice, desc, config):
    """{build side: GeoIndex, or the exception its constructor raised}"""
    build = LATTICES[lattice][0]
    out = {}
    for side in sides(lattice):
        lat, lon = arrays(build, side)
        try:
            out[side] = model.make_index(
                seam, lat, lon, permutation(desc, len(build)), *config)
        except Exception as e:
            model.reraise_watchdog(e)
            if isinstance(e, model.SeamNotHit):
                raise
            out[side] = e
    return out


def verdicts(indexes, lattice, desc, config, qsel, r):
    """Every representation case of one index configuration, query array and
    radius -> [(build side, query side, expected pairs, None or violation
    tuple)]. A failure that the float64 call does not share is reported
    under the key of the case's type; with two different types on the two
    sides only if neither type fails on its own."""
    build, query = LATTICES[lattice][:2]
    metric = config[0] or "minkowski"
    perm = permutation(desc, len(build))
    exp = expected(lattice, metric, qsel, r)
    points = query if qsel == "all" else query[:1]
    out, failing, baseline = [], set(), None
    for build_side, query_side in cases(lattice):
        index = indexes[build_side]
        if isinstance(index, Exception):
            bad = ("build/exception/" + type(index).__name__, sorted(exp),
                   repr(index)[:200], "")
        else:
            qlat, qlon = arrays(points, query_side)
            bad = model.evaluate(index, perm, exp, metric, qlat, qlon, r)[0]
        types = types_of(build_side, query_side)
        if not types:
            baseline = bad
        else:
            if bad is not None:
                bad = bad[:3] + ((bad[0] + " " + bad[3]).strip(),)
            bad = model.spelling_verdict(bad, baseline, key_of(types))
            if bad is not None and len(types) == 2 and \
                    any((t,) in failing for t in types):
                bad = None
            elif bad is not None:
                failing.add(types)
        out.append((build_side, query_side, exp, bad))
    return out


def run(res, seam, shard, replay):
    lattice = shard[1]
    for config, desc in itertools.product(model.CONFIGURATIONS, PERMS):
        try:
            indexes = build_indexes(seam, lattice, desc, config)
        except model.SeamNotHit as e:
            res.error(str(e))
            return
        res.count("indexes_built", len(indexes))
        res.count("permutations_imposed",
                  len(indexes) * int(desc != "off"))
        for qsel, r in itertools.product(QUERIES, LATTICES[lattice][3]):
            for build_side, query_side, exp, bad in verdicts(
                    indexes, lattice, desc, config, qsel, r):
                res.case(nontrivial=bool(exp))
                res.count("position_representations",
                          int((build_side, query_side) != (BOTH_F64,) * 2))
                case = dict(part="repr", lattice=lattice, metric=config[0],
                            tree=config[1], leaf=config[2], perm=desc,
                            query=qsel, r=r, build_types=build_side,
                            query_types=query_side)
                if bad is not None:
                    model.report(res, replay, bad, case)
    res.sample(case)


def replay(seam, case):
    config = (case["metric"], case["tree"], case["leaf"])
    indexes = build_indexes(seam, case["lattice"], case["perm"], config)
    wanted = (tuple(case["build_types"]), tuple(case["query_types"]))
    for build_side, query_side, _, bad in verdicts(
            indexes, case["lattice"], case["perm"], config, case["query"],
            case["r"]):
        if (build_side, query_side) == wanted:
            return bad
    raise KeyError("no such representation case: %r" % (wanted,))
