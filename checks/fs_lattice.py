"""Shared generator for the FileSet checks C01 (find) and C16 (find_closest):
templates, time windows, candidate-file pools, populations, and the harness'
reading of what a file name means."""
import datetime as dt
import itertools
import os

import numpy as np
import pandas as pd

from mc import fsbuild

H = dt.timedelta(hours=1)
MIN = dt.timedelta(minutes=1)
US = dt.timedelta(microseconds=1)

FULL_END = ("-{end_year}{end_month}{end_day}{end_hour}{end_minute}")

# name -> dict(rel=template, level=finest directory level, sat/ver=the
#              template has that user placeholder, tc=time_coverage or None,
#              relative=the template is handed over relative to the working
#              directory)
TEMPLATES = {
    "flat": dict(rel="f_{year}{month}{day}{hour}{minute}" + FULL_END + ".dat",
                 level=None),
    "year": dict(rel="{year}/f_{year}{month}{day}{hour}{minute}" + FULL_END +
                 ".dat", level="year"),
    "ymd": dict(rel="{year}/{month}/{day}/{hour}{minute}-{end_hour}"
                "{end_minute}.dat", level="day"),
    "yj": dict(rel="{year}/{doy}/{hour}{minute}-{end_hour}{end_minute}.dat",
               level="day"),
    "y2j": dict(rel="{year2}/{doy}/{hour}{minute}-{end_hour}{end_minute}.dat",
                level="day"),
    "ymdh": dict(rel="{year}/{month}/{day}/{hour}/{minute}{second}-"
                 "{end_minute}{end_second}.dat", level="hour"),
    "fixed": dict(rel="{year}/data/{month}/{day}/{hour}{minute}-{end_hour}"
                  "{end_minute}.dat", level="day"),
    "satdir": dict(rel="{sat}/{year}-{month}-{day}/{hour}{minute}-{end_hour}"
                   "{end_minute}.dat", level="day", sat=True),
    "satfile": dict(rel="{year}/{month}/{day}/{sat}_{hour}{minute}-{end_hour}"
                    "{end_minute}.dat", level="day", sat=True),
    "daysat": dict(rel="{year}/{month}/{day}/{sat}/{hour}{minute}-{end_hour}"
                   "{end_minute}.dat", level="day", sat=True),
    "wild": dict(rel="{year}/{month}/{day}/x*_{hour}{minute}.dat",
                 level="day", tc=dt.timedelta(hours=6)),
    "discrete": dict(rel="{year}/{month}/{day}/{hour}{minute}.dat",
                     level="day"),
    # coverage from the time_coverage argument, name without wildcard (the
    # name of an instant can be computed)
    "extended": dict(rel="{year}/{month}/{day}/e{hour}{minute}.dat",
                     level="day", tc=dt.timedelta(hours=9)),
    "fullend_day": dict(rel="{year}/{month}/{day}/f{hour}{minute}" + FULL_END
                        + ".dat", level="day"),
    "month": dict(rel="{year}/{month}/f_{day}{hour}{minute}" + FULL_END +
                  ".dat", level="month"),
    # `*` as a directory level of its own
    "wilddir": dict(rel="{year}/{month}/{day}/d*/{hour}{minute}-{end_hour}"
                    "{end_minute}.dat", level="day"),
    "relative": dict(rel="{year}/{month}/{day}/{hour}{minute}-{end_hour}"
                     "{end_minute}.dat", level="day", relative=True),
    "satver": dict(rel="{sat}/{year}/{month}/{day}/{ver}_{hour}{minute}-"
                   "{end_hour}{end_minute}.dat", level="day", sat=True,
                   ver=True),
}
# C16's neighbourhood radius (it does not use the month-level template, whose
# period has no single length)
LEVEL_PERIOD = {None: None, "year": dt.timedelta(days=366),
                "day": dt.timedelta(days=1), "hour": H}

# (base instant, number of lattice steps); step = 6 h (20 min for ymdh)
WINDOWS = {
    "yearend": (dt.datetime(2019, 12, 30), 16),     # .. 2020-01-03 00:00
    "leapday": (dt.datetime(2020, 2, 28), 12),      # .. 2020-03-02 00:00
    "midnight": (dt.datetime(2021, 6, 14), 8),      # .. 2021-06-16 00:00
}
WINDOWS_HOUR = {
    "yearend": (dt.datetime(2019, 12, 31, 22), 12),   # 20-minute steps
    "leapday": (dt.datetime(2020, 2, 29, 22), 12),
    "midnight": (dt.datetime(2021, 6, 14, 22), 12),
}

# candidate files in lattice steps: (start step, duration in quarter periods)
# period = 4 steps (24 h at 6 h steps; for ymdh 3 steps = 1 h, see below)
POOL_STEPS = [(3, 2), (4, 1), (5, 0), (5, 4), (6, 1), (8, 1), (11, 1)]
POOL_STEPS_LONG = POOL_STEPS + [(0, 16)]       # only without directory limit
POOL_STEPS_HOUR = [(2, 2), (3, 1), (4, 0), (4, 3), (5, 1), (6, 1), (8, 1)]


def step_of(tname):
    return 20 * MIN if tname == "ymdh" else 6 * H


def window(tname, wname):
    base, n = (WINDOWS_HOUR if tname == "ymdh" else WINDOWS)[wname]
    return base, n, step_of(tname)


def lattice(tname, wname):
    base, n, step = window(tname, wname)
    return [base + k * step for k in range(n + 1)]


def users_of(tname):
    spec = TEMPLATES[tname]
    free = dict(accepts=lambda s: len(s) > 0 and "\n" not in s, maxlen=40)
    out = {}
    if spec.get("sat"):
        out["sat"] = fsbuild.UserPH(["A", "B"], **free)
    if spec.get("ver"):
        out["ver"] = fsbuild.UserPH(["1", "2"], **free)
    return out


def read_name(tname, relname):
    """What a relative name means under the reference parser: (t0, t1, attrs)
    or None if it is not an instance of the template."""
    spec = TEMPLATES[tname]
    envs = fsbuild.parse(spec["rel"], relname, users_of(tname))
    if len(envs) != 1:
        return None
    env = envs[0]
    t0, t1 = fsbuild.times_from_fields(env, spec.get("tc"))
    return t0, t1, {k: v for k, v in env.items() if k not in fsbuild.WIDTH}


def variants(spec, start, dur):
    """User-placeholder values under which the candidate file (start, dur)
    exists: two files share their start under different values."""
    if not spec.get("sat"):
        return [{}]
    twice = (start, dur) in ((4, 1), (6, 1))
    if not spec.get("ver"):
        return [{"sat": s} for s in (("A", "B") if twice else ("A",))]
    if (start, dur) == (4, 1):
        return [{"sat": "A", "ver": "1"}, {"sat": "B", "ver": "2"}]
    if (start, dur) == (6, 1):
        return [{"sat": "A", "ver": "1"}, {"sat": "B", "ver": "1"},
                {"sat": "A", "ver": "2"}]
    return [{"sat": "A", "ver": "1"}]


def pool(tname, wname):
    """Candidate files [(t0, t1, attrs)] - only what the template can spell
    (checked by reading the generated name back with the reference parser)."""
    spec = TEMPLATES[tname]
    base, n, step = window(tname, wname)
    if tname == "ymdh":
        steps = POOL_STEPS_HOUR
    elif spec["level"] in (None, "year", "month"):
        steps = POOL_STEPS_LONG
    else:
        steps = POOL_STEPS
    out = []
    for start, dur in steps:
        t0 = base + start * step
        if spec.get("tc") is not None:
            t1 = t0 + spec["tc"]
        elif tname == "discrete":
            t1 = t0
        else:
            t1 = t0 + dur * step
        for attrs in variants(spec, start, dur):
            wild = "w%d" % start
            rel = fsbuild.render(spec["rel"], t0, t1, attrs, wild=wild)
            back = read_name(tname, rel)
            if back is None:
                raise AssertionError("generator/parser disagree on " + rel)
            if back[1] != t1:
                # not representable (e.g. 24 h with end_hour only): use the
                # longest representable duration below it
                t1b = t0 + (dur - 1) * step
                rel = fsbuild.render(spec["rel"], t0, t1b, attrs, wild=wild)
                back = read_name(tname, rel)
                assert back[1] == t1b, rel
                t1 = t1b
            if (t0, t1, tuple(sorted(attrs.items()))) not in \
                    [(a, b, tuple(sorted(c.items()))) for a, b, c, _ in out]:
                out.append((t0, t1, attrs, rel))
    return out


def populations(n, maxsize):
    """Index tuples: the whole pool first, then the empty population, then
    every subset of size 1..maxsize (the whole pool is not repeated)."""
    yield tuple(range(n))
    yield ()
    for k in range(1, maxsize + 1):
        for idx in itertools.combinations(range(n), k):
            if len(idx) != n:
                yield idx


def materialise(root, tname, files, dirs_only=()):
    """Creates the (empty) files, and the directories of the candidates
    `dirs_only` without their files; returns the FileModel list."""
    os.makedirs(root, exist_ok=True)
    for _, _, _, rel in dirs_only:
        os.makedirs(os.path.dirname(os.path.join(root, rel)), exist_ok=True)
    out = []
    for t0, t1, attrs, rel in files:
        path = os.path.join(root, rel)
        fsbuild.touch(path)
        out.append(fsbuild.FileModel(path, t0, t1, dict(attrs), rel))
    return out


def make_fileset(root, tname, **kw):
    from typhon.files import FileSet
    spec = TEMPLATES[tname]
    if spec.get("tc") is not None:
        kw.setdefault("time_coverage", spec["tc"])
    if spec.get("relative"):
        # the working directory stays at root: FileSet.path resolves a
        # relative template anew on every access
        os.chdir(root)
        return FileSet(spec["rel"], name=tname, **kw)
    return FileSet(os.path.join(root, spec["rel"]), name=tname, **kw)


def not_the_watchdog(exc):
    """Called by the guards around typhon calls: the TimeoutError that the
    driver's watchdog raises from its signal handler is a harness error, not
    an answer of typhon."""
    if isinstance(exc, TimeoutError):
        raise exc


# ------------------------------------------------------------------ oracle

def passes(f, opts):
    """Exclusion by name / by period and placeholder filters, as the harness
    reads them: opts = dict(exclude_names=[path], exclude_periods=[(p0, p1)],
    white={placeholder: [values]}, black={placeholder: [values]})."""
    if f.path in opts.get("exclude_names", ()):
        return False
    for p0, p1 in opts.get("exclude_periods", ()):
        if f.t0 <= p1 and f.t1 >= p0:
            return False
    for name, values in opts.get("white", {}).items():
        if f.attrs.get(name) not in values:
            return False
    for name, values in opts.get("black", {}).items():
        if f.attrs.get(name) in values:
            return False
    return True


# ------------------------------------------------- spellings of an instant

SPELLINGS = ("iso", "short", "pandas", "numpy")


def spell(t, how):
    """The datetime t as another type that typhon documents for timestamps
    ("YYYY-MM-DD hh:mm:ss" with hours, minutes and seconds optional;
    pandas.Timestamp; numpy.datetime64). None stays None."""
    if t is None or how is None:
        return t
    if how == "iso":
        return t.isoformat(" ")
    if how == "short":
        if t.second or t.microsecond:
            return t.isoformat(" ")
        if t.hour or t.minute:
            return t.strftime("%Y-%m-%d %H:%M")
        return t.strftime("%Y-%m-%d")
    if how == "pandas":
        return pd.Timestamp(t)
    if how == "numpy":
        return np.datetime64(t)
    raise ValueError(how)
