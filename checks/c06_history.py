"""C06, part "history": several GeoIndex objects alive at once (driven from
c06_geoindex.py).

An index must keep answering for the points it was built from whatever is
built or queried afterwards. Operations: build slot i / query slot i over
three slots - two of the same size (different points, different imposed
permutations) and one of another size; EVERY sequence of operations up to the
depth bound in which a slot is queried only after it was built. Each query is
judged against the brute force for the points that slot was LAST built from."""
import itertools

import numpy as np

from checks import c06_model as model

DEPTH = {"quick": 5, "thorough": 7}
RULE = ("History part: three slots (P: 3 points, Q: 3 other points, S: 2 "
        "points; imposed permutations reversal / cyclic shift / reversal; "
        "slot Q in the other tree class), operations build(slot) and "
        "query(slot): every sequence of 2..%d (thorough ..%d) operations that "
        "ends with a query and queries built slots only, x (default, "
        "haversine) metric, r = 5 km, with distances."
        % (DEPTH["quick"], DEPTH["thorough"]))

SLOTS = {
    "P": dict(lat=np.array([10.0, 10.027, 10.054]),
              lon=np.array([0.0, 0.0, 0.0]), perm=(2, 1, 0), tree=None),
    "Q": dict(lat=np.array([10.054, 40.0, 10.0]),
              lon=np.array([0.0, 7.0, 0.0]), perm=(1, 2, 0), tree="KD"),
    "S": dict(lat=np.array([10.027, -30.0]),
              lon=np.array([0.0, 100.0]), perm=(1, 0), tree=None),
}
QLAT = np.array([10.0, 10.04, -30.0])
QLON = np.array([0.0, 0.0, 100.0])
R = 5
OPS = [("build", s) for s in SLOTS] + [("query", s) for s in SLOTS]
METRICS = (None, "haversine")

_expected = {}


def expected(slot, metric):
    key = (slot, metric)
    if key not in _expected:
        d = model.distance_matrices(SLOTS[slot]["lat"], SLOTS[slot]["lon"],
                                    QLAT, QLON)[metric or "minkowski"]
        assert not model.in_band(d, model.radius_km(R))
        _expected[key] = {(int(i), int(j)): float(d[i, j])
                          for i, j in zip(*np.nonzero(
                              d <= model.radius_km(R)))}
    return _expected[key]


def valid(seq):
    built = set()
    for op, slot in seq:
        if op == "build":
            built.add(slot)
        elif slot not in built:
            return False
    return seq[-1][0] == "query"


def sequences(tier, first):
    for n in range(2, DEPTH[tier] + 1):
        for rest in itertools.product(range(len(OPS)), repeat=n - 1):
            seq = tuple(OPS[k] for k in (first,) + rest)
            if valid(seq):
                yield seq


def shards(tier, seed):
    # a history starts with a build
    return [("history", tier, k, metric) for k in range(len(SLOTS))
            for metric in METRICS]


def run_sequence(seam, seq, metric):
    """-> None or (index of the failing operation, violation tuple)."""
    live = {}
    for n, (op, slot) in enumerate(seq):
        spec = SLOTS[slot]
        if op == "build":
            tree = spec["tree"] if metric is None else None
            live[slot] = model.make_index(
                seam, spec["lat"].copy(), spec["lon"].copy(),
                np.array(spec["perm"]), metric, tree, None)
            continue
        bad, _ = model.evaluate(live[slot], np.array(spec["perm"]),
                                expected(slot, metric),
                                metric or "minkowski", QLAT, QLON, R)
        if bad is not None:
            return n, ("history/" + bad[0],) + bad[1:3] + (
                "operation %d: query of slot %s %s" % (n + 1, slot, bad[3]),)
    return None


def run(res, seam, shard, replay):
    _, tier, first, metric = shard
    case = None
    for seq in sequences(tier, first):
        case = dict(part="history", ops=[list(o) for o in seq],
                    metric=metric)
        # non-trivial: a slot is queried after another one was built
        last_build = max(i for i, o in enumerate(seq) if o[0] == "build")
        res.case(nontrivial=any(
            o[0] == "query" and o[1] != seq[last_build][1]
            for o in seq[last_build:]))
        res.count("history_operations", len(seq))
        try:
            bad = run_sequence(seam, seq, metric)
        except model.SeamNotHit as e:
            res.error(str(e))
            return
        except Exception as e:
            model.reraise_watchdog(e)
            res.violation("history/exception/" + type(e).__name__, case,
                          None, repr(e)[:200])
            continue
        if bad is not None:
            model.report(res, replay, bad[1], case)
    if case is not None:
        res.sample(case)


def replay(seam, case):
    bad = run_sequence(seam, tuple(tuple(o) for o in case["ops"]),
                       case["metric"])
    return None if bad is None else bad[1]
