"""C10 - parallel map / imap / collect / icollect / align (DESIGN.md 3, C10).

The real FileSet methods run over the controlled executor of mc/pool.py; the
explorer enumerates every interleaving of main-thread steps and pool events
(state-cached on harness-owned state).  Every distinct completion order found
for the thread pool is replayed against the real ThreadPoolExecutor, a fixed
subset against the real ProcessPoolExecutor (conformance of the model)."""
import itertools
import os
import sys
import threading
import time
import warnings

from mc import driver, fsbuild
driver.setup_env()
from mc import explorer, pool

PROP = "C10"
LEVEL = "model_checking"
RULE = ("group A (schedules): op {map, imap, collect, icollect} x files 1..4 "
        "(thorough ..6) x max_workers {1,2,3} x {thread, process}, plus "
        "max_workers and worker_type left at their defaults (FileSet with "
        "max_threads=2, max_processes=1 and worker_type default / 'thread'; "
        "3..4 files), where the bound on unconsumed tasks is the FileSet's "
        "maximum for the pool type in effect; group B (faults): op x 3 files "
        "x 2 workers x every failing subset x error_to_warning {F,T} x pool "
        "type (under error_to_warning also with return_info), and the same "
        "subsets x error_to_warning over bundles on the thread pool (quick: "
        "1 worker, return_info = error_to_warning, imap/icollect x {files= "
        "bundled as (2,1), (1,2), (3); find(bundle=2)}, map/collect x the "
        "bundle of 3; thorough: 2 workers, every op x these selections and "
        "find(bundle='2h'), under error_to_warning also with return_info); "
        "group C (options): {map, imap} x 3 files x 2 "
        "workers x selection {start/end, files=, files= reversed, bundled "
        "files=} x function {identity, returns None, raises on file i} x "
        "return_info x on_content/pass_info, plus a raising function under "
        "error_to_warning (alone / next to an unreadable file), plus "
        "{collect, icollect} x {files= all, files= first and third} x "
        "return_info; "
        "group D (align, c10_align.py): primaries <=2(3), secondaries <=3, "
        "every match relation in which each primary has >=1 secondary and "
        "the empty relation, passed as matches= x loader threads {1,2} x "
        "return_info {T,F} (quick: F with 1 thread only), both loaders on "
        "controlled pools, every single unreadable file with skip_errors "
        "{T,F} (quick: not for 3 primaries); and align(start, end, "
        "max_interval) per shape x loader threads x return_info, the "
        "relation coming from the time coverage (neighbouring files "
        "overlap; widened by max_interval; a sub-period; secondaries 10 h "
        "away = nothing matched); group T (threads, c10_threads.py): the "
        "worker threads are REAL threads and, with the main thread, run under "
        "a cooperative scheduler in which every line of a typhon source file "
        "is a scheduling point (mc/threads.py): op x {2 files / 2 workers, "
        "3 / 2, 3 / 3} on contents paired with FileInfo, an unreadable file "
        "under error_to_warning, FileInfo only, a raising function, (thorough) "
        "a bundle read through a nested pool, and map(output=<FileSet>) with "
        "two results for one new directory - every schedule with at most 2 "
        "(map, 2 files) / 1 preemptions (thorough 3 / 2 / 1); blocking and "
        "thread exit are free choices. Contents and FileInfo objects are told "
        "apart in every observation. For each configuration ALL "
        "interleavings of main-thread synchronisations (submit, result, "
        "shutdown) and pool events (start, finish) are explored with state "
        "caching; evaluations = executions, states/transitions = distinct "
        "abstract states / steps. Non-trivial = an execution in which some "
        "task finishes out of submission order or a fault fires.")
ASSUMPTIONS = [
    "environment model mc/pool.py: FIFO work queue, <= max_workers running "
    "tasks, task bodies independent of each other (run at their finish "
    "event), process flavour = pickle round trip of work item and result; "
    "validated by replaying every distinct completion order on the real "
    "ThreadPoolExecutor and a subset on the real ProcessPoolExecutor",
    "the independence of task bodies is itself checked in group T for "
    "thread workers (line-level interleavings, preemption-bounded, <= 3 "
    "files); process workers share nothing but the file system",
    "pool breakage (a worker process killed) is not modelled",
    "<= 6 files",
    "files= holds FileInfo objects (or lists of them); path strings are "
    "outside the domain",
    "with max_workers not given, the bound on submitted-but-unconsumed "
    "tasks is the FileSet's max_threads / max_processes of the pool type in "
    "effect (worker_type argument, else the FileSet's, else 'process'; "
    "collect/icollect: threads)",
    "a bundle with an unreadable member is one unreadable item; whether its "
    "other members are read is left open; find(bundle='2h') is used with "
    "files starting on even hours only, where it has to pair the files as "
    "bundle=2 does",
    "align(start, end): which files match is decided by an independent "
    "overlap test of the time coverages; no coverage or period end lies "
    "within 5 minutes of another one (asserted), periods without any file "
    "of one side (NoFilesError) are outside the domain",
]

T0 = __import__("datetime").datetime(2020, 2, 29, 20, 0)
H = __import__("datetime").timedelta(hours=1)
TEMPLATE = "{year}{month}{day}_{hour}{minute}-{end_hour}{end_minute}.dat"

READ_LOG = []          # file indices read (harness-level observation)
GATES = None           # real-pool replay: (arrived, gate, done) per file


class ReadError(Exception):
    pass


class FuncError(Exception):
    pass


def index_of(path):
    name = os.path.basename(os.fspath(path))
    return (int(name[9:11]) - T0.hour) % 24


def reader(file_info, fail=()):
    k = index_of(file_info.path)
    if GATES is not None:
        GATES.wait(k)
    READ_LOG.append(k)
    if k in fail:
        raise ReadError("cannot read %d" % k)
    return {"id": k}


def f_identity(*args):
    return ("I",) + summarise(args)


def f_none(*args):
    return None


def f_raise(x, *more, bad=0):
    if bad in members_of(x):
        raise FuncError("bad %r" % (bad,))
    return ("I",) + summarise((x,) + more)


def summarise(x):
    """Normalises what typhon returned or handed to the mapped function: a
    content becomes its file index k, a FileInfo "f<k>" (so that one cannot
    stand in for the other), a list or tuple a tuple."""
    if x is None or isinstance(x, (int, str, bool)):
        return x
    if isinstance(x, dict):
        return x["id"]
    if hasattr(x, "path"):
        return "f%d" % index_of(x.path)
    if isinstance(x, (list, tuple)):
        return tuple(summarise(i) for i in x)
    return repr(x)


def members_of(x):
    """The file indices behind a content, a FileInfo or a bundle of them."""
    if isinstance(x, (list, tuple)):
        return tuple(k for i in x for k in members_of(i))
    return (x["id"] if isinstance(x, dict) else index_of(x.path),)


FUNCS = {"identity": f_identity, "none": f_none, "raise": f_raise}
FS_THREADS, FS_PROCESSES = 2, 1     # the FileSets' own maxima


def build(root, n, fs_wtype=None):
    from typhon.files import FileSet, FileHandler
    files = fsbuild.populate(root, TEMPLATE, [
        (T0 + k * H, T0 + (k + 1) * H, None) for k in range(n)])
    kwargs = {} if fs_wtype is None else {"worker_type": fs_wtype}
    fs = FileSet(os.path.join(root, TEMPLATE),
                 handler=FileHandler(reader=reader), name="c10",
                 max_threads=FS_THREADS, max_processes=FS_PROCESSES, **kwargs)
    return fs, files


# ----------------------------------------------------------------- configs

def cfg(op, n, workers, wtype, sel="period", bundle=None, func="identity",
        bad=None, fail=(), e2w=False, return_info=False, on_content=None,
        pass_info=False, fs_wtype=None):
    """workers / wtype None = argument not passed; fs_wtype = worker_type of
    the FileSet (None = its default); bundle = the partition of the files
    for sel "bundled", the bundle argument of find() for "find_bundle"."""
    if on_content is None:
        on_content = op in ("collect", "icollect")
    return dict(op=op, n=n, workers=workers, wtype=wtype, sel=sel,
                bundle=bundle, func=func, bad=bad, fail=tuple(fail), e2w=e2w,
                return_info=return_info, on_content=on_content,
                pass_info=pass_info, fs_wtype=fs_wtype)


BUNDLED = ((0, 1), (2,))
BUNDLE_SELECTIONS = [("bundled", BUNDLED), ("bundled", ((0,), (1, 2))),
                     ("bundled", ((0, 1, 2),)), ("find_bundle", 2)]


def bundle_faults(tier, op, e2w):
    """(workers, sel, bundle, return_info) of the group B configurations over
    bundles, where a bundle with an unreadable member is one unreadable item.
    Every bundle is read through a nested pool, which multiplies the
    schedules: quick uses one outer worker and gives the eager operations
    the single bundle only."""
    if tier == "quick":
        sels = BUNDLE_SELECTIONS if op in ("imap", "icollect") else \
            [s for s in BUNDLE_SELECTIONS if s[1] == ((0, 1, 2),)]
        return [(1, sel, bundle, e2w) for sel, bundle in sels]
    return [(2, sel, bundle, ri)
            for sel, bundle in BUNDLE_SELECTIONS + [("find_bundle", "2h")]
            for ri in ((False, True) if e2w else (False,))]


def configs(tier):
    out = []
    nmax = 4 if tier == "quick" else 6
    for op in ("map", "imap", "collect", "icollect"):
        for n in range(1, nmax + 1):
            for w in (1, 2, 3):
                for wt in ("thread", "process"):
                    if n >= 6 and op in ("map", "collect") and w == 3 \
                            and wt == "process":
                        continue         # identical model behaviour to thread
                    out.append(("A", cfg(op, n, w, wt, on_content=True)))
        for n in (3, 4):
            for fs_wt in ((None, "thread") if op in ("map", "imap")
                          else (None,)):
                out.append(("A", cfg(op, n, None, None, on_content=True,
                                     fs_wtype=fs_wt)))
    for op in ("map", "imap", "collect", "icollect"):
        for r in range(0, 4):
            for fail in itertools.combinations(range(3), r):
                for e2w in (False, True):
                    for wt in ("thread", "process"):
                        if not fail and not e2w:
                            continue
                        out.append(("B", cfg(op, 3, 2, wt, fail=fail, e2w=e2w,
                                             on_content=True)))
                        # contents paired with their FileInfo while some
                        # files yield nothing
                        if e2w and wt == "thread":
                            out.append(("B", cfg(op, 3, 2, wt, fail=fail,
                                                 e2w=e2w, on_content=True,
                                                 return_info=True)))
                    for w, sel, bundle, ri in bundle_faults(tier, op, e2w):
                        out.append(("B", cfg(
                            op, 3, w, "thread", sel=sel, bundle=bundle,
                            fail=fail, e2w=e2w, on_content=True,
                            return_info=ri)))
    for op in ("map", "imap"):
        for sel in ("period", "files", "files_rev", "bundled"):
            for func, bad in [("identity", None), ("none", None),
                              ("raise", 0), ("raise", 1), ("raise", 2)]:
                for ri in (False, True):
                    for oc, pi in [(False, False), (True, False),
                                   (True, True)]:
                        if sel == "bundled" and not oc:
                            continue     # bundles are only defined on content
                        out.append(("C", cfg(op, 3, 2, "thread", sel=sel,
                                             bundle=BUNDLED if sel == "bundled"
                                             else None, func=func, bad=bad,
                                             return_info=ri, on_content=oc,
                                             pass_info=pi)))
    # an exception of the mapped function is not a read error: it has to
    # reach the caller under error_to_warning too (alone, and next to a file
    # that really is unreadable)
    for op in ("map", "imap"):
        for bad in (0, 1, 2):
            for oc, pi in [(False, False), (True, False), (True, True)]:
                for fail in ((), ((bad + 1) % 3,)):
                    if fail and not oc:
                        continue         # nothing is read
                    out.append(("C", cfg(op, 3, 2, "thread", func="raise",
                                         bad=bad, e2w=True, fail=fail,
                                         on_content=oc, pass_info=pi)))
    for op in ("collect", "icollect"):
        for sel in ("files", "files_sub"):
            for ri in (False, True):
                out.append(("C", cfg(op, 3, 2, "thread", sel=sel,
                                     return_info=ri)))
    return out


# ----------------------------------------------------------------- oracle

def units(c):
    """The items to process in order: a file index or a tuple of them."""
    n = c["n"]
    if c["sel"] == "files_rev":
        return list(reversed(range(n)))
    if c["sel"] == "files_sub":
        return list(range(0, n, 2))
    if c["sel"] == "bundled":
        return list(c["bundle"])
    if c["sel"] == "find_bundle":
        return [tuple(range(i, min(i + 2, n))) for i in range(0, n, 2)]
    return list(range(n))


def members(u):
    return u if isinstance(u, tuple) else (u,)


def expected(c):
    """-> (items, error, nwarn): the sequence of per-file results in order,
    the exception class name that ends it (or None) and the number of read
    warnings issued for the items."""
    paired = c["return_info"] or c["op"] in ("collect", "icollect")
    items = []
    nwarn = 0
    for u in units(c):
        info = tuple("f%d" % m for m in u) if isinstance(u, tuple) \
            else "f%d" % u
        if c["on_content"]:
            if set(members(u)) & set(c["fail"]):
                if c["e2w"]:
                    nwarn += 1
                    items.append((info, None) if paired else None)
                    continue
                return items, "ReadError", nwarn
            args = (u,) + ((info,) if c["pass_info"] else ())
        else:
            args = (info,)
        if c["func"] == "raise" and c["bad"] in members(u):
            return items, "FuncError", nwarn
        if c["op"] in ("collect", "icollect"):
            val = u
        elif c["func"] == "none":
            val = None
        else:
            val = ("I",) + args
        items.append((info, val) if paired else val)
    return items, None, nwarn


def max_unconsumed(c):
    """The bound on submitted-but-unconsumed tasks of imap / icollect."""
    if c["workers"] is not None:
        return c["workers"]
    wtype = "thread" if c["op"] in ("collect", "icollect") else \
        c["wtype"] or c["fs_wtype"] or "process"
    return FS_THREADS if wtype == "thread" else FS_PROCESSES


def expected_result(c):
    items, err, _ = expected(c)
    if c["op"] == "collect":
        if err:
            return ("raised", err)
        data = [v for _, v in items if v is not None]
        infos = [i for i, v in items if v is not None]
        if c["return_info"]:
            return ("ok", (infos, data))
        return ("ok", data)
    if c["op"] == "icollect":
        # icollect yields (info, content) pairs only with return_info
        seq = [(i, v) if c["return_info"] else v for i, v in items]
        return ("seq", seq, err)
    if c["op"] == "map":
        return ("raised", err) if err else ("ok", items)
    return ("seq", items, err)


def norm(v):
    if isinstance(v, list):
        return tuple(norm(i) for i in v)
    if isinstance(v, tuple):
        return tuple(norm(i) for i in v)
    return v


# ----------------------------------------------------------------- running

class Run:
    """One execution of one configuration under a given executor factory."""

    def __init__(self, c, fs, files):
        self.c, self.fs, self.files = c, fs, files
        self.consumed = []
        self.submitted = 0
        self.bound_broken = None

    def kwargs(self):
        c = self.c
        kw = {} if c["workers"] is None else dict(max_workers=c["workers"])
        if c["op"] in ("map", "imap"):
            if c["wtype"] is not None:
                kw["worker_type"] = c["wtype"]
            kw.update(on_content=c["on_content"],
                      pass_info=c["pass_info"], return_info=c["return_info"])
            kw["func"] = FUNCS[c["func"]]
            if c["func"] == "raise":
                kw["kwargs"] = {"bad": c["bad"]}
        else:
            if c["return_info"]:
                kw["return_info"] = True
        if c["e2w"]:
            kw["error_to_warning"] = True
        if c["fail"]:
            kw["read_args"] = {"fail": c["fail"]}
        from typhon.files.handlers import FileInfo
        infos = [FileInfo(f.path, [f.t0, f.t1], {}) for f in self.files]
        if c["sel"] in ("period", "find_bundle"):
            kw.update(start=T0 - H, end=T0 + 30 * H)
            if c["sel"] == "find_bundle":
                kw["bundle"] = c["bundle"]
        elif c["sel"] == "files":
            kw["files"] = infos
        elif c["sel"] == "files_rev":
            kw["files"] = list(reversed(infos))
        elif c["sel"] == "files_sub":
            kw["files"] = infos[::2]
        elif c["sel"] == "bundled":
            kw["files"] = [[infos[k] for k in b] for b in c["bundle"]]
        return kw

    def on_submit(self):
        self.submitted += 1
        if self.c["op"] in ("imap", "icollect"):
            pending = self.submitted - len(self.consumed)
            if pending > max_unconsumed(self.c):
                self.bound_broken = (self.submitted, len(self.consumed))

    def execute(self):
        """Returns the observation tuple."""
        c = self.c
        del READ_LOG[:]
        kw = self.kwargs()
        with warnings.catch_warnings(record=True) as wlist:
            warnings.simplefilter("always")
            try:
                if c["op"] == "map":
                    func = kw.pop("func")
                    out = ("ok", norm(summarise(self.fs.map(func, **kw))))
                elif c["op"] == "collect":
                    out = ("ok", norm(summarise(self.fs.collect(**kw))))
                else:
                    if c["op"] == "imap":
                        func = kw.pop("func")
                        gen = self.fs.imap(func, **kw)
                    else:
                        gen = self.fs.icollect(**kw)
                    err = None
                    try:
                        for item in gen:
                            self.consumed.append(norm(summarise(item)))
                    except (ReadError, FuncError) as exc:
                        err = type(exc).__name__
                    out = ("seq", tuple(self.consumed), err)
            except (ReadError, FuncError) as exc:
                out = ("raised", type(exc).__name__)
            except pool.Deadlock as exc:
                out = ("deadlock", str(exc))
            except Exception as exc:
                reraise_watchdog(exc)
                out = ("exception", type(exc).__name__, str(exc)[:120])
            gen = None
        nwarn = sum(1 for w in wlist
                    if issubclass(w.category, RuntimeWarning)
                    and "Could not read" in str(w.message))
        reads = tuple(sorted(READ_LOG))
        return out, reads, nwarn


def reraise_watchdog(exc):
    """The driver's shard watchdog raises its TimeoutError wherever the shard
    happens to be; inside a guarded typhon call it still is the harness'
    timeout (a harness error), not an exception of typhon."""
    if isinstance(exc, TimeoutError) and str(exc).startswith("shard exceeded"):
        raise exc


def release_frames(exc):
    """A loader generator abandoned because of an exception shuts its pool
    down when it is finalised. The exception's traceback keeps its frame (and
    through reference cycles possibly until the next garbage collection)
    alive; clearing the frames finalises it now, inside this execution, so
    that no execution depends on the timing of the garbage collector."""
    import traceback
    traceback.clear_frames(exc.__traceback__)


def judge(c, obs, bound_broken):
    """None or (key, expected, observed)."""
    out, reads, nwarn = obs
    exp = norm(expected_result(c))
    if bound_broken is not None:
        return ("imap/more-than-max_workers-unconsumed", max_unconsumed(c),
                bound_broken)
    if out[0] in ("deadlock", "exception"):
        return ("%s/%s" % (c["op"], "/".join(out[:2])), exp, out)
    if norm(out) != exp:
        if exp[0] == "raised" or (exp[0] == "seq" and exp[2]):
            what = "exception-lost-or-misplaced"
        elif sorted(map(repr, out[1])) == sorted(map(repr, exp[1])):
            what = "order"
        else:
            what = "wrong-results"
        return ("%s/%s" % (c["op"], what), exp, out)
    # every file is read at most once, exactly once when no error stops the
    # run (a run stopped by an exception may skip later files, an unreadable
    # bundle its other members)
    if len(set(reads)) != len(reads):
        return (c["op"] + "/file-read-twice", "each file once", reads)
    items, err, exp_warn = expected(c)
    if c["on_content"] and err is None:
        need = {m for u in units(c) for m in members(u)
                if not isinstance(u, tuple) or not set(u) & set(c["fail"])}
        if not need <= set(reads):
            return (c["op"] + "/file-not-read", sorted(need), reads)
    if not c["on_content"] and reads:
        return (c["op"] + "/read-without-on_content", (), reads)
    if err is None and nwarn != exp_warn:
        return (c["op"] + "/warnings", exp_warn, nwarn)
    return None


def fileset_of(c, root_cache):
    key = (c["n"], c["fs_wtype"])
    if key not in root_cache:
        root_cache[key] = build(os.path.join(
            root_cache["root"], "n%d%s" % (key[0], key[1] or "")), *key)
    return root_cache[key]


def explore_config(res, group, c, root_cache):
    from typhon.files import fileset as fsmod
    fs, files = fileset_of(c, root_cache)
    stats = explorer.Stats()
    orders = set()
    outcomes = set()

    def run(ctx):
        r = Run(c, fs, files)
        world = pool.World(ctx, state_fn=lambda: (tuple(r.consumed),
                                                  r.submitted),
                           on_event=lambda k, p, t: r.on_submit()
                           if k == "submit" and p is world.pools[0] else None)
        saved = (fsmod.ThreadPoolExecutor, fsmod.ProcessPoolExecutor,
                 fsmod.gc)
        fsmod.ThreadPoolExecutor = world.executor_class("thread")
        fsmod.ProcessPoolExecutor = world.executor_class("process")
        fsmod.gc = NoGC
        restore = world.install_waiters((fsmod,))
        try:
            fs.info_cache.clear()
            obs = r.execute()
        finally:
            world.close()
            restore()
            (fsmod.ThreadPoolExecutor, fsmod.ProcessPoolExecutor,
             fsmod.gc) = saved
        return r, world, obs

    # cyclic garbage (an abandoned loader generator) must not be finalised
    # at an allocation-dependent moment inside an execution
    import gc
    gc.disable()
    try:
        explore_loop(res, group, c, run, stats, orders, outcomes)
    finally:
        gc.enable()
        gc.collect()
    res.count("states", len(stats.states))
    res.count("transitions", len(stats.transitions))
    res.count("pruned_executions", stats.pruned)
    res.maximum("choice_points", stats.max_points)
    res.count("configurations")
    res.add("outcomes", (repr(sorted(c.items())), tuple(sorted(outcomes))))
    if len(outcomes) > 1:
        res.count("configs_with_several_outcomes")
    return orders


def explore_loop(res, group, c, run, stats, orders, outcomes):
    for ctx, (r, world, obs) in explorer.explore(run, bound=0, prune=True,
                                                 stats=stats):
        finish_order = tuple(t for k, p, t in world.log
                             if k == "finish" and p == 0)
        ooo = finish_order != tuple(sorted(finish_order))
        res.case(nontrivial=ooo or bool(c["fail"]) or c["func"] == "raise")
        outcomes.add(repr(obs))
        orders.add(finish_order)
        bad = judge(c, obs, r.bound_broken)
        if bad is not None:
            again = run(explorer.Ctx(tuple(ctx.choices)))
            if repr(again[2]) != repr(obs):
                res.error("NONDETERMINISM C10 %r" % (c,))
                continue
            res.violation(bad[0], dict(group=group, cfg=c,
                                       choices=ctx.choices,
                                       schedule=[l for l, _ in ctx.labels()]),
                          bad[1], bad[2])


class NoGC:
    @staticmethod
    def collect(*a):
        return 0


# ------------------------------------------------- conformance on real pools

class Gates:
    def __init__(self, n):
        self.arrived = [threading.Event() for _ in range(n)]
        self.gate = [threading.Event() for _ in range(n)]

    def wait(self, k):
        self.arrived[k].set()
        if not self.gate[k].wait(20):
            raise RuntimeError("gate %d never opened" % k)


def replay_on_real_thread_pool(c, fs, files, order):
    """Runs configuration c on the real ThreadPoolExecutor, forcing the read
    tasks to complete in `order`. Returns the observation."""
    global GATES
    gates = Gates(c["n"])
    GATES = gates
    r = Run(c, fs, files)
    box = {}

    def controller():
        for k in order:
            if not gates.arrived[k].wait(10):
                box["infeasible"] = k
                for g in gates.gate:
                    g.set()
                return
            gates.gate[k].set()
            # let the task finish before the next gate opens
            t0 = time.time()
            while k not in READ_LOG and time.time() - t0 < 10:
                time.sleep(0.0005)
            time.sleep(0.002)
        for g in gates.gate:
            g.set()
    th = threading.Thread(target=controller, daemon=True)
    th.start()
    try:
        fs.info_cache.clear()
        obs = r.execute()
    finally:
        for g in gates.gate:
            g.set()
        th.join(30)
        GATES = None
    return obs, box.get("infeasible")


def conformance(res, c, fs, files, orders):
    """Every distinct completion order the explorer produced is imposed on
    the real thread pool; observations must equal the model's (which are the
    oracle's, otherwise a violation was already reported)."""
    for order in sorted(orders):
        obs, infeasible = replay_on_real_thread_pool(c, fs, files, order)
        if infeasible is not None:
            res.error("trace infeasible on real pool: %r order %r task %r"
                      % (c, order, infeasible))
            continue
        res.count("traces_validated_against_impl")
        bad = judge(c, obs, None)
        if bad is not None:
            res.violation("real-thread-pool/" + bad[0],
                          dict(group="conformance", cfg=c, order=order),
                          bad[1], bad[2])


def real_process_pool(res, c, fs, files):
    """Free-running real ProcessPoolExecutor (fork) for a fixed subset."""
    r = Run(c, fs, files)
    fs.info_cache.clear()
    out, reads, nwarn = r.execute()
    # reads happen in the children: not observable here
    exp = norm(expected_result(c))
    res.count("traces_validated_against_impl")
    if norm(out) != exp:
        res.violation("real-process-pool/%s/wrong-results" % c["op"],
                      dict(group="conformance-process", cfg=c), exp, out)


# ----------------------------------------------------------------- shards

def shards(tier, seed):
    cs = configs(tier)
    out = []
    n = 48 if tier == "quick" else 96
    for i in range(n):
        part = cs[i::n]
        if part:
            out.append(("cfgs", tier, part))
    from checks import c10_align, c10_threads
    out.extend(c10_align.shards(tier, seed))
    out.extend(c10_threads.shards(tier, seed))
    out.append(("procpool", tier))
    return out


def run_shard(shard):
    res = driver.ShardResult()
    if shard[0].startswith("align"):
        from checks import c10_align
        return c10_align.run_shard(shard)
    if shard[0] == "threads":
        from checks import c10_threads
        return c10_threads.run_shard(shard)
    root = driver.fresh_dir("c10")
    cache = {"root": root}
    if shard[0] == "procpool":
        for op in ("map", "imap"):
            for n, w in ((3, 2), (4, 3)):
                c = cfg(op, n, w, "process", on_content=True)
                fs, files = build(os.path.join(root, "%s%d" % (op, n)), n)
                res.case(nontrivial=True)
                real_process_pool(res, c, fs, files)
        c = cfg("map", 3, 2, "process", fail=(1,), e2w=True, on_content=True)
        fs, files = build(os.path.join(root, "pf"), 3)
        res.case(nontrivial=True)
        real_process_pool(res, c, fs, files)
        res.sample(dict(kind="real ProcessPoolExecutor", cfg=c))
        return res
    _, tier, part = shard
    last = None
    for group, c in part:
        orders = explore_config(res, group, c, cache)
        last = (group, c, sorted(orders)[-1] if orders else None)
        if group == "A" and c["wtype"] == "thread" and c["n"] <= 4 \
                and c["on_content"]:
            conformance(res, c, *fileset_of(c, cache), orders)
    if last:
        res.sample(dict(group=last[0], cfg=last[1],
                        a_completion_order=last[2]))
    return res


def finish(tier, merged):
    return dict(states=merged.counters.get("states", 0),
                transitions=merged.counters.get("transitions", 0),
                traces_validated_against_impl=merged.counters.get(
                    "traces_validated_against_impl", 0))


def replay(case):
    if case.get("group") == "align":
        from checks import c10_align
        return c10_align.replay(case)
    if case.get("group") == "threads":
        from checks import c10_threads
        return c10_threads.replay(case)
    from typhon.files import fileset as fsmod
    c = case["cfg"]
    c["fail"] = tuple(c["fail"])
    if c["sel"] == "bundled":
        c["bundle"] = tuple(tuple(b) for b in c["bundle"])
    root = driver.fresh_dir("c10r")
    fs, files = build(root, c["n"], c["fs_wtype"])
    if case["group"].startswith("conformance"):
        if case["group"] == "conformance":
            obs, inf = replay_on_real_thread_pool(c, fs, files,
                                                  case["order"])
        else:
            obs = Run(c, fs, files).execute()
        bad = judge(c, obs, None) if case["group"] == "conformance" else (
            None if norm(obs[0]) == norm(expected_result(c)) else
            ("real-process-pool", norm(expected_result(c)), obs[0]))
    else:
        ctx = explorer.Ctx(tuple(tuple(x) for x in case["choices"]))
        r = Run(c, fs, files)
        world = pool.World(ctx, state_fn=lambda: (tuple(r.consumed),
                                                  r.submitted),
                           on_event=lambda k, p, t: r.on_submit()
                           if k == "submit" and p is world.pools[0] else None)
        saved = (fsmod.ThreadPoolExecutor, fsmod.ProcessPoolExecutor)
        fsmod.ThreadPoolExecutor = world.executor_class("thread")
        fsmod.ProcessPoolExecutor = world.executor_class("process")
        try:
            obs = r.execute()
        finally:
            fsmod.ThreadPoolExecutor, fsmod.ProcessPoolExecutor = saved
        bad = judge(c, obs, r.bound_broken)
    if bad is None:
        return dict(ok=True, observed=obs)
    return dict(ok=False, key=bad[0], expected=bad[1], observed=bad[2])


if __name__ == "__main__":
    driver.main(sys.modules[__name__])
