"""C05 - collocating filesets equals collocating all their data, for any
process count (DESIGN.md section 3, C05).

(a) Schedules: the real collocate_filesets / _process_caller /
    _collocate_matches / _save_and_return / concat_collocations /
    FileSet.align/match/find/read/write run under the controlled processes
    and queues of mc/sched.py; every interleaving within a joint deviation
    bound (preemptions + delayed queue visibilities) is explored.
(b) Inputs: all splits of a 6-slot timeline into files (with and without
    uncovered slots) x max_interval x period x bundle x output, days
    changing inside a worker, every single unreadable file, file names with
    tight coverage and spellings of max_interval on the default schedule,
    and free-running under the real multiprocessing (conformance of the
    environment model).
Oracle: brute force over the concatenated data; every point of a result must
be attributed to the file that holds it."""
import datetime as dt
import itertools
import os
import pickle
import sys
import warnings

from mc import driver, fsbuild
driver.setup_env()
from mc import explorer, pool, sched

PROP = "C05"
LEVEL = "model_checking"
RULE = ("(a) configurations = processes {1,2,3(,4)} x file layouts (1-3 "
        "results per worker, matches without collocation, far-away first "
        "points, no two files matching, midnight between the results of one "
        "worker) x bundle {None, primary, daily} x output {memory, "
        "Collocations fileset} x fault {none, each single unreadable file "
        "with skip_file_errors (also a secondary shared by two primaries, the "
        "middle secondary of a bundle, a primary before a two-result bundle), "
        "one without}; for each, every schedule of parent + workers + "
        "bounded result queue with at most d deviations (preemptions + "
        "held-back queue items; d = 2 for the smallest layout of each "
        "family, 1 otherwise; thorough 3 / 2) is executed on the real code. "
        "(b) on the default schedule: (32 splits of a 6-slot timeline into "
        "primary files + 2 with uncovered slots) x 9 secondary splits x "
        "max_interval {half a slot, 1.5 slots} x 3 periods x bundle x output "
        "x {1, 2} processes (quick: three bundle/output/process combinations "
        "per period; fileset output with 2 processes goes through "
        "Collocations.search); 6 two-day layouts with max_interval 1 day / "
        "26 h; 4 x 4 splits of three slots around midnight x max_interval x "
        "bundle x output x processes (quick: bundle daily); 8 splits of a "
        "4-slot timeline x 5 secondary splits, once with every single file "
        "unreadable and skipped (quick: max_interval 1.5 slots, two "
        "bundle/output/process combinations), once with file names that "
        "state exactly first to last point and max_interval given as "
        "timedelta and as number of seconds. Plus the configurations of (a) "
        "free-running under the real multiprocessing. In every result each "
        "point must name, in <fileset>/__file, the input file that holds "
        "it. evaluations = executions; non-trivial = (a) an execution with "
        ">= 1 deviation, a free-running run, (b) a case with >= 1 "
        "collocation and more than one file in a set (or max_interval >= 1 "
        "day), a case whose filesets have files in the period but no two "
        "matching ones, a fault case whose unreadable file holds a point of "
        ">= 1 collocation.")
ASSUMPTIONS = [
    "environment model mc/sched.py (fork = deep copy of the arguments, "
    "bounded semaphore of the result queue, pickled items, unpicklable items "
    "dropped, feeder delay modelled at the reader, a child's exit flushes its "
    "items); validated by free-running runs of the same harness bodies under "
    "the real multiprocessing, which must give the brute-force multiset",
    "loader pools inside FileSet.align run inline (their schedules are C10)",
    "Collocator.collocate and the file reader are memoised per (points, "
    "arguments) during schedule exploration (the schedule decides when, not "
    "what, a worker computes); every 50th execution runs unmemoised and must "
    "give the identical observation",
    "start/end are always given (a period; the defaults None are outside the "
    "statement); <= 4 workers, <= 3 results each",
    "how results are grouped into bundles is not judged (the statement only "
    "fixes the multiset): a daily bundle may span two days, the results of "
    "a primary may come in two bundles",
    "a loss is attributed to the open finding output-name-collision only if "
    "what is left is everything expected but, of the results with one and "
    "the same file name, exactly one complete result",
    "max_distance is always '5 km' (its spellings and sizes are C04's); "
    "files are pickles, so 'read back unchanged' does not exercise a file "
    "format",
    "OS-level failures of real processes (kill -9) are not modelled",
]

T0 = dt.datetime(2020, 2, 29, 23, 0, 0)
SLOT = dt.timedelta(minutes=10)
NEAR_A, NEAR_B, FAR = (10.0, 20.0), (10.01, 20.0), (50.0, -120.0)
TEMPLATE = ("{year}{month}{day}{hour}{minute}{second}-{end_year}{end_month}"
            "{end_day}{end_hour}{end_minute}{end_second}.pkl")
OUT_TEMPLATE = ("{year}{month}{day}{hour}{minute}{second}-{end_year}"
                "{end_month}{end_day}{end_hour}{end_minute}{end_second}.pkl")
# a compressed output fileset with day directories: results of the same
# time of day on different days have one base name (cfg["out"] == "gzdays")
OUT_TEMPLATE_GZDAYS = ("{year}/{month}/{day}/{hour}{minute}{second}-"
                       "{end_hour}{end_minute}{end_second}.pkl.gz")
MAX_DISTANCE = "5 km"


def out_template(cfg):
    return OUT_TEMPLATE_GZDAYS if cfg.get("out") == "gzdays" else OUT_TEMPLATE


def load_pickle(path):
    import gzip
    with (gzip.open if path.endswith(".gz") else open)(path, "rb") as f:
        return pickle.load(f)

FAIL = set()            # paths the reader refuses (fault injection)
READ_MEMO = None        # dict or None
COLL_MEMO = None
SCHED = None            # current Scheduler (for write scheduling points)


class Unreadable(Exception):
    pass


SEARCHED = object()     # marker: the run went through Collocations.search


# ------------------------------------------------------------------ data

def point_time(side, slot):
    return T0 + slot * SLOT + dt.timedelta(minutes=2 if side == "A" else 3)


def make_points(side, spec, fileno):
    """spec: list of slots; a negative slot -s-1 is a far-away point in slot
    s. Point ids are unique: side, slot, file number, position in file."""
    pts = []
    for k, s in enumerate(spec):
        far = s < 0
        slot = -s - 1 if far else s
        pos = FAR if far else (NEAR_A if side == "A" else NEAR_B)
        pts.append(dict(id=(1 if side == "A" else 2) * 100000 + 1000 * slot
                        + 10 * fileno + k + (500 if far else 0),
                        time=point_time(side, slot), lat=pos[0], lon=pos[1],
                        slot=slot))
    return pts


def dataset(points):
    import numpy as np
    import xarray as xr
    n = len(points)
    # unique, non-trivial, unsorted labels of the point dimension
    labels = sorted(range(3, 3 + 4 * n, 4), key=lambda v: (v * 7) % 11)
    return xr.Dataset(
        {"time": ("obs", np.array([p["time"] for p in points],
                                  dtype="datetime64[ns]")),
         "lat": ("obs", np.array([p["lat"] for p in points], dtype=float)),
         "lon": ("obs", np.array([p["lon"] for p in points], dtype=float)),
         "id": ("obs", np.array([p["id"] for p in points], dtype="int64"))},
        coords={"obs": labels})


def file_cover(side, spec, cover="slot"):
    """Coverage a file name states: the whole slots of its points, or
    ("tight") exactly first to last point (start == end for one point)."""
    slots = [(-s - 1 if s < 0 else s) for s in spec]
    if cover == "tight":
        return point_time(side, min(slots)), point_time(side, max(slots))
    return (T0 + min(slots) * SLOT,
            T0 + (max(slots) + 1) * SLOT - dt.timedelta(seconds=1))


def reader(file_info, **kw):
    path = os.fspath(file_info)
    if path in FAIL:
        raise Unreadable(path)
    if READ_MEMO is not None and path in READ_MEMO:
        return READ_MEMO[path].copy(deep=True)
    with open(path, "rb") as f:
        data = pickle.load(f)
    if READ_MEMO is not None:
        READ_MEMO[path] = data.copy(deep=True)
    return data


def writer(data, file_info, **kw):
    path = os.fspath(file_info)
    if SCHED is not None:
        SCHED.point("write:" + os.path.basename(path))
    os.makedirs(os.path.dirname(path), exist_ok=True)
    with open(path, "wb") as f:
        pickle.dump(data, f)


class World:
    """The two input filesets of one configuration on tmpfs."""

    def __init__(self, root, layout, cover="slot"):
        from typhon.files import FileSet, FileHandler
        self.root = root
        self.layout = layout
        self.points = {"A": [], "B": []}
        self.files = {"A": [], "B": []}
        self.cover = {}         # path -> (start, end) stated by the name
        self.file_of = {}       # point id -> path
        for side in ("A", "B"):
            for fileno, spec in enumerate(layout[side]):
                pts = make_points(side, spec, fileno)
                t0, t1 = file_cover(side, spec, cover)
                rel = fsbuild.render(TEMPLATE, t0, t1)
                path = os.path.join(root, side, rel)
                os.makedirs(os.path.dirname(path), exist_ok=True)
                with open(path, "wb") as f:
                    pickle.dump(dataset(pts), f)
                for p in pts:
                    p["file"] = path
                    self.file_of[p["id"]] = path
                self.points[side].extend(pts)
                self.files[side].append(path)
                self.cover[path] = (t0, t1)
        self.A = FileSet(os.path.join(root, "A", TEMPLATE), name="A",
                         handler=FileHandler(reader=reader, writer=writer))
        self.B = FileSet(os.path.join(root, "B", TEMPLATE), name="B",
                         handler=FileHandler(reader=reader, writer=writer))
        self.nout = 0

    def output(self, template=OUT_TEMPLATE):
        from typhon.collocations import Collocations
        from typhon.files import FileHandler
        self.nout += 1
        d = os.path.join(self.root, "out%d" % self.nout)
        tmp = os.path.join(d, "tmp")
        os.makedirs(tmp)
        return Collocations(os.path.join(d, "o", template), name="out",
                            handler=FileHandler(reader=reader, writer=writer),
                            read_mode="compact", temp_dir=tmp), d


def minutes(mi):
    return dt.timedelta(minutes=mi)


def brute_force(world, mi, start, end, exclude_files=()):
    """Multiset (as sorted list) of (a id, b id)."""
    out = []
    for a in world.points["A"]:
        for b in world.points["B"]:
            if a["file"] in exclude_files or b["file"] in exclude_files:
                continue
            if (a["lat"], a["lon"]) == FAR or (b["lat"], b["lon"]) == FAR:
                continue
            if not abs(a["time"] - b["time"]) < minutes(mi):
                continue
            if not (start <= a["time"] <= end and start <= b["time"] <= end):
                continue
            out.append((a["id"], b["id"]))
    return sorted(out)


def pairs_of(ds):
    p = ds["Collocations/pairs"].values
    a = ds["A/id"].values[p[0]]
    b = ds["B/id"].values[p[1]]
    return [(int(x), int(y)) for x, y in zip(a, b)]


def wrong_files(world, ds):
    """Points of a result whose <group>/__file (one name per result, or one
    per point after bundling) is not the input file that holds the point:
    list of (point id, file named, file holding it)."""
    import numpy as np
    bad = []
    for group in ("A", "B"):
        ids = ds[group + "/id"].values
        try:
            named = np.broadcast_to(ds[group + "/__file"].values, ids.shape)
        except (KeyError, ValueError) as exc:
            bad.append((group, type(exc).__name__, None))
            continue
        bad.extend((int(i), os.path.basename(str(f)),
                    os.path.basename(world.file_of[int(i)]))
                   for i, f in zip(ids, named)
                   if str(f) != world.file_of[int(i)])
    return bad


# ------------------------------------------------------------------ running

def spelled(mi, spelling):
    return {"min": "%d min" % mi, "timedelta": minutes(mi),
            "seconds": 60 * mi}[spelling]


def call(world, cfg, processes, output):
    """Runs collocate_filesets and returns the raw list of yielded items."""
    from typhon.collocations import Collocator
    kw = dict(start=cfg["start"], end=cfg["end"], processes=processes,
              max_interval=spelled(cfg["mi"], cfg.get("spelling", "min")),
              max_distance=MAX_DISTANCE, bundle=cfg["bundle"], output=output)
    if cfg.get("skip"):
        kw["skip_file_errors"] = True
    with warnings.catch_warnings():
        warnings.simplefilter("ignore")
        if cfg.get("via_search"):
            # Collocations.search: the same pipeline, results only on disk
            kw.pop("output")
            output.search([world.A, world.B], **kw)
            return SEARCHED
        return list(Collocator().collocate_filesets([world.A, world.B], **kw))


def observe(world, cfg, items, output, outdir):
    """-> dict(pairs=sorted multiset, problems=[(key, expected, observed)],
    crashed=n)"""
    from typhon.collocations.collocator import ProcessCrashed
    pairs, problems, crashed, results = [], [], 0, []
    if output is None:
        for it in items:
            if it is ProcessCrashed:
                crashed += 1
                continue
            results.append(it[0] if isinstance(it, tuple) else it)
    else:
        written = []
        top = os.path.join(outdir, "o")
        for dirpath, _, names in os.walk(top):
            written.extend(os.path.join(dirpath, n) for n in names)
        written.sort()
        left = sorted(os.listdir(os.path.join(outdir, "tmp")))
        if left:
            problems.append(("output/temporary-left-behind", [], left))

        def rel(path):
            return os.path.relpath(os.fspath(path), top)
        if items is SEARCHED:
            items = written
        crashed = sum(1 for it in items if it is ProcessCrashed)
        yielded = sorted(os.fspath(i) for i in items
                         if i is not ProcessCrashed)
        if sorted(set(yielded)) != written:
            problems.append(("output/yielded-names-differ-from-files-written",
                             [rel(p) for p in written],
                             [rel(p) for p in yielded]))
        import numpy as np
        for path in written:
            try:
                ds = load_pickle(path)
            except Exception as exc:
                problems.append(("output/file-is-not-what-its-name-says",
                                 None, "%s: %s" % (rel(path),
                                                   type(exc).__name__)))
                continue
            got = output.read(path)
            if not got.equals(ds):
                problems.append(("output/file-does-not-read-back-equal",
                                 None, rel(path)))
            results.append(ds)
            times = ds["A/time"].values[ds["Collocations/pairs"].values[0]]
            span = (np.min(times).astype("M8[s]").item(),
                    np.max(times).astype("M8[s]").item())
            name = fsbuild.render(out_template(cfg), span[0], span[1])
            if name != rel(path):
                problems.append((
                    "output/file-not-named-by-span-of-its-content",
                    name, rel(path)))
    for ds in results:
        pairs.extend(pairs_of(ds))
        bad = wrong_files(world, ds)
        if bad:
            problems.append(("file-variable/point-attributed-to-wrong-file",
                             bad[0][2], bad[0][:2]))
    return dict(pairs=sorted(pairs), problems=problems, crashed=crashed)


def matches_of(world, cfg):
    """[(primary file, [secondary files])] in time order: the files of both
    sets that overlap the period widened by max_interval, paired where their
    coverages are at most max_interval apart."""
    mi = minutes(cfg["mi"])
    s, e = cfg["start"] - mi, cfg["end"] + mi

    def in_window(path):
        t0, t1 = world.cover[path]
        return t0 < e and t1 >= s
    out = []
    for a in filter(in_window, world.files["A"]):
        a0, a1 = world.cover[a]
        bs = [b for b in filter(in_window, world.files["B"])
              if world.cover[b][0] - mi <= a1 and world.cover[b][1] + mi >= a0]
        if bs:
            out.append((a, bs))
    return out


def no_match(world, cfg):
    """Both filesets have files in the widened period, no two of them match."""
    mi = minutes(cfg["mi"])
    s, e = cfg["start"] - mi, cfg["end"] + mi
    present = [any(world.cover[f][0] < e and world.cover[f][1] >= s
                   for f in world.files[side]) for side in ("A", "B")]
    return all(present) and not matches_of(world, cfg)


def chunk_of(world, cfg, processes):
    """Which worker handles which primary file (np.array_split rule over the
    matched primaries in time order)."""
    prim = [a for a, _ in matches_of(world, cfg)]
    k = min(processes, len(prim)) or 1
    sizes = [len(prim) // k + (1 if i < len(prim) % k else 0)
             for i in range(k)]
    out, i = {}, 0
    for w, n in enumerate(sizes):
        for p in prim[i:i + n]:
            out[p] = w
        i += n
    return out


def expected_results(world, cfg, processes, exp):
    """The results (one output file each) into which the expected pairs `exp`
    fall, with the name of that file: every (primary file, secondary file)
    with a pair is one result; a worker bundles consecutive results with the
    same tag (bundle 'primary': the primary file, 'daily': the day of the
    first primary point of the result). Only used to recognise a loss as the
    known overwriting of equally named files: list of (name, pairs)."""
    owner = chunk_of(world, cfg, processes)
    by_files = {}
    for a, b in exp:
        by_files.setdefault((world.file_of[a], world.file_of[b]),
                            []).append((a, b))
    time_of = {p["id"]: p["time"] for p in world.points["A"]}
    bundles, last = [], None
    for afile, bfiles in matches_of(world, cfg):
        for bfile in bfiles:
            prs = by_files.get((afile, bfile))
            if not prs:
                continue
            start = min(time_of[a] for a, _ in prs)
            tag = (owner[afile],) + {
                None: (afile, bfile), "primary": (afile,),
                "daily": (start.date(),)}[cfg["bundle"]]
            if tag != last:
                bundles.append([])
                last = tag
            bundles[-1].extend(prs)
    out = []
    for prs in bundles:
        times = [time_of[a].replace(microsecond=0) for a, _ in prs]
        out.append((fsbuild.render(out_template(cfg), min(times),
                                   max(times)),
                    sorted(prs)))
    return out


def overwritten_only(results, got):
    """`got` (duplicate-free, nothing invented) is everything expected except
    that of the results with one and the same name exactly one is left,
    complete."""
    got = set(got)
    by_name = {}
    for name, prs in results:
        by_name.setdefault(name, []).append(set(prs))
    for groups in by_name.values():
        left = [g for g in groups if g & got]
        if len(left) != 1 or left[0] - got:
            return False
    return True


def judge(world, cfg, processes, obs, fault_file=None):
    """None or (key, expected, observed)."""
    exp = brute_force(world, cfg["mi"], cfg["start"], cfg["end"])
    got = obs["pairs"]
    if obs.get("error"):
        part = "no-matching-files/" if no_match(world, cfg) else "schedule/"
        return (part + obs["error"][0], exp, obs["error"][1])
    if fault_file is not None and cfg.get("skip"):
        exp = brute_force(world, cfg["mi"], cfg["start"], cfg["end"],
                          exclude_files=(fault_file,))
    if fault_file is not None and not cfg.get("skip"):
        # the failing worker may lose its remaining matches; nothing else
        # may be lost and nothing duplicated
        owner = chunk_of(world, cfg, processes)
        bad_workers = {owner[a] for a, bs in matches_of(world, cfg)
                       if fault_file == a or fault_file in bs}
        must = [p for p in exp
                if owner.get(world.file_of[p[0]]) not in bad_workers]
        if len(set(got)) != len(got):
            return ("fault/duplicated-collocation", exp, got)
        if set(got) - set(exp):
            return ("fault/invented-collocation", exp, got)
        if set(must) - set(got):
            return ("fault/other-workers-collocations-lost", must, got)
        return None
    if got != exp:
        if len(set(got)) != len(got):
            return ("collocation-duplicated", exp, got)
        if set(got) - set(exp):
            return ("collocation-invented", exp, got)
        if cfg["output"] == "fileset" and overwritten_only(
                expected_results(world, cfg, processes, exp), got):
            return ("output-name-collision", exp, got)
        if fault_file is not None:
            return ("fault/wrong-collocations-removed", exp, got)
        return ("collocation-lost", exp, got)
    if obs["problems"]:
        return obs["problems"][0]
    return None


# ------------------------------------------------------- schedule exploration

class NoGC:
    @staticmethod
    def collect(*a):
        return 0


def memo_collocate(orig):
    def collocate(self, primary, secondary, **kw):
        if COLL_MEMO is None:
            return orig(self, primary, secondary, **kw)
        key = (tuple(primary[1]["id"].values.tolist()),
               tuple(secondary[1]["id"].values.tolist()),
               repr(sorted(kw.items())))
        if key not in COLL_MEMO:
            r = orig(self, primary, secondary, **kw)
            COLL_MEMO[key] = None if r is None else r.copy(deep=True)
        r = COLL_MEMO[key]
        return None if r is None else r.copy(deep=True)
    return collocate


# What the worker processes share besides the queues is the file system of
# the output fileset: inside these functions of typhon every source line of a
# worker is a scheduling point (a directory created after an existence test,
# a temporary named after the target ... are check-then-act races between
# two workers that no queue operation separates).
FINE_FUNCTIONS = {("fileset.py", "write"), ("fileset.py", "make_dirs"),
                  ("utils.py", "compress"), ("utils.py", "compress_as")}


def fine_code(code):
    return (os.path.basename(code.co_filename), code.co_name) \
        in FINE_FUNCTIONS and "typhon" in code.co_filename


def run_scheduled(ctx, world, cfg, processes, memo, horizon=3000):
    """One execution under the controlled scheduler."""
    global SCHED
    from typhon.collocations import collocator as cmod
    from typhon.files import fileset as fsmod
    s = sched.Scheduler(ctx, horizon=horizon,
                        fine=fine_code if cfg.get("fine") else None)
    saved = (cmod.Process, cmod.Queue, cmod.gc, fsmod.ThreadPoolExecutor,
             fsmod.ProcessPoolExecutor, fsmod.gc, cmod.Collocator.collocate)
    cmod.Process, cmod.Queue, cmod.gc = s.process_class(), s.queue_class(), \
        NoGC
    fsmod.ThreadPoolExecutor = fsmod.ProcessPoolExecutor = pool.InlineExecutor
    fsmod.gc = NoGC
    if memo:
        cmod.Collocator.collocate = memo_collocate(saved[6])
    SCHED = s
    output, outdir = (None, None)
    if cfg["output"] == "fileset":
        output, outdir = world.output(out_template(cfg))
    obs = None
    try:
        world.A.info_cache.clear()
        world.B.info_cache.clear()
        try:
            items = call(world, cfg, processes, output)
            alive = s.finish()
            SCHED = None
            obs = observe(world, cfg, items, output, outdir)
            if alive:
                obs["error"] = ("children-not-joined", alive)
        except sched.Deadlock as exc:
            s.finish()
            obs = dict(pairs=[], problems=[], crashed=0,
                       error=("deadlock", str(exc)))
        except sched.Horizon as exc:
            s.finish()
            obs = dict(pairs=[], problems=[], crashed=0,
                       error=("horizon", str(exc)))
        except Exception as exc:
            s.finish()
            if type(exc).__name__ == "NoFilesError":
                # no file of a fileset in the period: nothing to collocate
                obs = dict(pairs=[], problems=[], crashed=0)
            else:
                obs = dict(pairs=[], problems=[], crashed=0,
                           error=("exception/" + type(exc).__name__,
                                  str(exc)[:200]))
    finally:
        SCHED = None
        (cmod.Process, cmod.Queue, cmod.gc, fsmod.ThreadPoolExecutor,
         fsmod.ProcessPoolExecutor, fsmod.gc,
         cmod.Collocator.collocate) = saved
        if outdir and os.path.isdir(outdir):
            import shutil
            shutil.rmtree(outdir, ignore_errors=True)
    return s, obs


LAYOUTS = {
    # name: (A files, B files) as lists of slot lists; mi in minutes
    "2x1": dict(A=[[0], [2]], B=[[0], [2]], mi=5),
    "2x1far": dict(A=[[-1, 0], [2]], B=[[0], [-3, 2]], mi=5),
    "2x2": dict(A=[[0, 1], [3, 4]], B=[[0], [1], [3], [4]], mi=5),
    "2x2none": dict(A=[[0, 1], [3, 4]], B=[[0], [-2], [3], [4]], mi=5),
    "3x1": dict(A=[[0], [2], [4]], B=[[0], [2], [4]], mi=5),
    "1x3": dict(A=[[0, 1, 2]], B=[[0], [1], [2]], mi=5),
    "2xshared": dict(A=[[0], [1]], B=[[0, 1]], mi=5),
    "2x3": dict(A=[[0, 1, 2], [4, 5, 6]], B=[[0], [1], [2], [4], [5], [6]],
                mi=5),
    "4x1": dict(A=[[0], [2], [4], [6]], B=[[0], [2], [4], [6]], mi=5),
    # two results with the same primary time span (known finding with
    # fileset output and bundle=None): one primary point, two secondaries
    "collide": dict(A=[[0], [4]], B=[[0], [1], [4]], mi=15),
    "shared+1": dict(A=[[0], [1], [3]], B=[[0, 1], [3]], mi=5),
    # the second primary file collocates with both secondaries, the first
    # matches only one of them
    "skip+2": dict(A=[[0], [3]], B=[[2], [3]], mi=15),
    # files of both sets in the period, no two of them within max_interval
    "nomatch": dict(A=[[0]], B=[[5]], mi=5),
    # midnight between slots 5 and 6: a worker's results change the day
    # between two primaries / between two secondaries of one primary
    "days": dict(A=[[5], [6], [7]], B=[[5], [6], [7]], mi=5),
    # the same time of day on two days (a day has 144 slots)
    "twindays": dict(A=[[0], [144]], B=[[0], [144]], mi=5),
    "days1B": dict(A=[[5], [6], [7]], B=[[5, 6, 7]], mi=5),
    "days1A": dict(A=[[5, 6], [7]], B=[[5], [6], [7]], mi=5),
}


def base_cfg(layout, bundle=None, output="memory", skip=False, fine=False):
    """fine: the workers' lines inside FINE_FUNCTIONS are scheduling points
    too (the key is only present when set, recorded cases stay valid)."""
    return dict(layout=layout, mi=LAYOUTS[layout]["mi"], bundle=bundle,
                output=output, skip=skip, **({"fine": True} if fine else {}),
                start=T0 - dt.timedelta(minutes=1),
                end=T0 + 9 * SLOT)


def schedule_configs(tier):
    """(cfg, processes, bound, fault index or None)"""
    out = []
    deep, wide = (2, 1) if tier == "quick" else (3, 2)
    for bundle in (None, "primary", "daily"):
        for output in ("memory", "fileset"):
            out.append((base_cfg("2x1", bundle, output), 2, deep, None))
            out.append((base_cfg("2x2", bundle, output), 2, wide, None))
    # two workers writing into one new output directory, the write path
    # interleaved line by line (one deviation: the line-level points multiply
    # with everything else)
    out.append((base_cfg("2x1", None, "fileset", fine=True), 2, 1, None))
    out.append((base_cfg("2x2", "primary", "fileset", fine=True), 2, 1, None))
    # compressed output below day directories, two results of one base name
    # written by two workers (whatever compress() derives from the base name
    # alone is shared by them)
    twin = base_cfg("twindays", None, "fileset", fine=True)
    twin.update(out="gzdays", end=T0 + 150 * SLOT)
    out.append((twin, 2, 1, None))
    out.append((base_cfg("2x1far"), 2, deep, None))
    out.append((base_cfg("2x2none"), 2, wide, None))
    out.append((base_cfg("2x2none", "primary", "fileset"), 2, wide, None))
    out.append((base_cfg("3x1"), 3, wide, None))
    out.append((base_cfg("3x1", "primary", "fileset"), 3, wide, None))
    out.append((base_cfg("1x3"), 1, wide, None))
    out.append((base_cfg("1x3"), 2, wide, None))
    out.append((base_cfg("2xshared"), 2, deep, None))
    out.append((base_cfg("collide", None, "fileset"), 2, wide, None))
    out.append((base_cfg("collide", "primary", "fileset"), 2, wide, None))
    # faults: every single unreadable file with skip, one without
    nfiles = len(LAYOUTS["2x2"]["A"]) + len(LAYOUTS["2x2"]["B"])
    for f in range(nfiles):
        out.append((base_cfg("2x2", None, "memory", skip=True), 2, wide, f))
    out.append((base_cfg("2x2", "primary", "fileset", skip=True), 2, wide, 0))
    out.append((base_cfg("2x2", None, "memory", skip=False), 2, wide, 0))
    out.append((base_cfg("2x2", None, "memory", skip=False), 2, wide, 3))
    # the unreadable file is a secondary shared by two primaries (read once
    # per worker and kept for the second primary), the middle secondary of a
    # bundle, a primary whose skipped match precedes a two-result bundle
    out.append((base_cfg("shared+1", None, "memory", skip=True), 1, wide, 3))
    out.append((base_cfg("shared+1", None, "memory", skip=True), 2, wide, 3))
    out.append((base_cfg("1x3", "primary", "memory", skip=True), 1, wide, 2))
    out.append((base_cfg("skip+2", "primary", "fileset", skip=True), 1, wide,
                0))
    out.append((base_cfg("nomatch"), 2, wide, None))
    out.append((base_cfg("nomatch", "primary", "fileset"), 1, wide, None))
    out.append((base_cfg("days", "daily", "fileset"), 1, wide, None))
    out.append((base_cfg("days1B", "daily", "fileset"), 1, wide, None))
    out.append((base_cfg("days1B", "daily", "memory"), 2, wide, None))
    out.append((base_cfg("days1A", "daily", "fileset"), 1, wide, None))
    if tier == "thorough":
        out.append((base_cfg("days", "daily", "memory"), 2, 1, None))
        out.append((base_cfg("days", "daily", "fileset"), 2, 1, None))
        out.append((base_cfg("days1A", "daily", "fileset"), 2, 1, None))
        out.append((base_cfg("2x3"), 2, 1, None))
        out.append((base_cfg("2x3", "primary", "fileset"), 2, 1, None))
        out.append((base_cfg("4x1"), 4, 1, None))
        out.append((base_cfg("4x1", "daily", "fileset"), 4, 1, None))
        out.append((base_cfg("3x1", "daily"), 3, 2, None))
    return out


def explore_config(res, world, cfg, processes, bound, fault, part=0,
                   nparts=1):
    """Explores every schedule within the deviation bound. Large searches
    are split: every part expands the same breadth-first prefix of the
    search tree (its executions are reported by part 0 only) and then
    explores its share of the pending sub-trees depth-first."""
    global READ_MEMO, COLL_MEMO
    READ_MEMO, COLL_MEMO = {}, {}
    FAIL.clear()
    fault_file = None
    if fault is not None:
        allf = world.files["A"] + world.files["B"]
        fault_file = allf[fault]
        FAIL.add(fault_file)
    stats = explorer.Stats()
    states, transitions, outcomes = set(), set(), set()
    count = [0]

    def run(ctx):
        return run_scheduled(ctx, world, cfg, processes, memo=True)

    def process(ctx, result):
        s, obs = result
        count[0] += 1
        dev = s.preemptions + s.delays_used
        res.case(nontrivial=dev > 0)
        res.count("schedules_with_%d_deviations" % dev)
        res.maximum("scheduling_points", s.npoints)
        states.update(s.states)
        transitions.update(s.transitions)
        outcomes.add(repr((obs["pairs"], obs.get("error"))))
        bad = judge(world, cfg, processes, obs, fault_file)
        if count[0] % 50 == 1:
            # unmemoised control execution
            _, obs2 = run_scheduled(explorer.Ctx(tuple(ctx.choices)),
                                    world, cfg, processes, memo=False)
            if repr(obs2) != repr(obs):
                res.error("memoised and plain execution differ: %r\n%r"
                          "\n%r" % (cfg, obs, obs2))
        if bad is not None:
            _, again = run_scheduled(explorer.Ctx(tuple(ctx.choices)),
                                     world, cfg, processes, memo=True)
            if repr(again) != repr(obs):
                res.error("NONDETERMINISM C05 %r" % (cfg,))
                return
            res.violation(
                bad[0], dict(kind="schedule", cfg=cfg, processes=processes,
                             fault=fault, choices=ctx.choices,
                             schedule=[t for t in s.trace][-60:]),
                bad[1], bad[2])

    try:
        roots = [()]
        if nparts > 1:
            roots, _ = explorer.split_roots(
                run, bound, want=6 * nparts,
                on_execution=process if part == 0 else None)
            roots = roots[part::nparts]
        for ctx, result in explorer.explore(run, bound=bound, prune=False,
                                            roots=roots, stats=stats):
            process(ctx, result)
    finally:
        READ_MEMO = COLL_MEMO = None
        FAIL.clear()
    res.count("states", len(states))
    res.count("transitions", len(transitions))
    res.flag("exhaustive_within_bound", True)
    res.add("outcomes", (cfg["layout"], cfg["bundle"], cfg["output"],
                         processes, fault, tuple(sorted(outcomes))))
    return count[0]


# ------------------------------------------------------------ part (b)

def compositions(n, first=0):
    """All splits of slots first..first+n-1 into consecutive files."""
    out = []
    for cuts in itertools.product([0, 1], repeat=n - 1):
        files, cur = [], [first]
        for i, c in enumerate(cuts):
            if c:
                files.append(cur)
                cur = []
            cur.append(first + i + 1)
        files.append(cur)
        out.append(files)
    return out


# primary files that leave slots uncovered: secondary files without partner,
# and with the secondaries [[2], [3]] no two files within half a slot
A_GAPS = [[[0], [5]], [[0, 1], [4, 5]]]
B_SPLITS = [
    [[0], [1], [2], [3], [4], [5]],
    [[0, 1], [2, 3], [4, 5]],
    [[0, 1, 2], [3, 4, 5]],
    [[0, 1, 2, 3, 4, 5]],
    [[0], [1, 2, 3, 4], [5]],
    [[0, 1], [4, 5]],                 # gap
    [[0], [2], [4]],                  # gaps
    [[2], [3]],                       # nothing at the ends
    [[-1, 0, 1], [2, -4, 3], [4, 5]],   # far-away points first / inside
]
SMALL_B = [
    [[0], [1], [2], [3]],
    [[0, 1], [2, 3]],
    [[0, 1, 2, 3]],
    [[0], [1, 2], [3]],
    [[0], [3]],                       # gap
]
PERIODS = {
    "all": (T0 - dt.timedelta(minutes=1), T0 + 7 * SLOT),
    "cut": (T0 + SLOT + dt.timedelta(minutes=5),
            T0 + 4 * SLOT + dt.timedelta(minutes=5)),
    "empty": (T0 + 20 * SLOT, T0 + 21 * SLOT),
    "long": (T0 - dt.timedelta(minutes=1), T0 + 160 * SLOT),
    "days": (T0 + 4 * SLOT, T0 + 8 * SLOT),
}
ALL_VARIANTS = [(bundle, output, processes)
                for bundle in (None, "primary", "daily")
                for output in ("memory", "fileset") for processes in (1, 2)]
QUICK_VARIANTS = [(None, "memory", 1), ("primary", "memory", 2),
                  ("daily", "fileset", 2)]

# max_interval of a day and more (the days of a timedelta are not in its
# .seconds): two files 143 / 150 slots apart whose only points collocate
# under "1 day" / 26 h, in both roles, next to a pair that overlaps
LONG_CASES = [
    ([[0]], [[143]], 1440), ([[143]], [[0]], 1440),
    ([[0]], [[150]], 1560), ([[150]], [[0]], 1560),
    ([[0], [150]], [[0], [150]], 1560), ([[0], [143]], [[143]], 1440),
]


def input_worlds(tier):
    """-> list of (A files, B files, coverage, cases of that world); a case
    is (max_interval minutes, its spelling, period, bundle, output,
    processes, index of the unreadable file or None)."""
    quick = tier == "quick"
    out = []
    for a in compositions(6) + A_GAPS:
        for b in B_SPLITS:
            cases = []
            for mi in (5, 15):
                for pname in ("all", "cut", "empty"):
                    variants = ALL_VARIANTS
                    if quick:
                        variants = QUICK_VARIANTS
                        if pname == "empty":
                            variants = variants[:1] if mi == 5 else []
                    cases += [(mi, "min", pname) + v + (None,)
                              for v in variants]
            out.append((a, b, "slot", cases))
    for a, b, mi in LONG_CASES:
        out.append((a, b, "slot", [
            (mi, "min", "long") + v + (None,)
            for v in [(None, "memory", 1), ("primary", "memory", 2),
                      ("daily", "fileset", 2), (None, "fileset", 1)]]))
    # midnight lies between slots 5 and 6
    for a in compositions(3, first=5):
        for b in compositions(3, first=5):
            variants = [v for v in ALL_VARIANTS
                        if not quick or v[0] == "daily"]
            out.append((a, b, "slot", [(mi, "min", "days") + v + (None,)
                                       for mi in (5, 15) for v in variants]))
    for a in compositions(4):
        for b in SMALL_B:
            # every single unreadable file, skipped
            variants = [(None, "memory", 2), ("primary", "fileset", 1)] \
                if quick else ALL_VARIANTS
            out.append((a, b, "slot", [
                (mi, "min", "all") + v + (f,)
                for mi in ((15,) if quick else (5, 15)) for v in variants
                for f in range(len(a) + len(b))]))
            # file names that state exactly first to last point; other
            # spellings of max_interval
            variants = QUICK_VARIANTS[1:] if quick else ALL_VARIANTS
            out.append((a, b, "tight", [
                (mi, spelling, "all") + v + (None,)
                for mi in (5, 15) for spelling in ("timedelta", "seconds")
                for v in variants]))
    return out


CASE_FIELDS = ("mi", "spelling", "period", "bundle", "output", "processes",
               "fault")


def input_cfg(case):
    mi, spelling, pname, bundle, output, processes, fault = case
    start, end = PERIODS[pname]
    return dict(layout=None, mi=mi, spelling=spelling, bundle=bundle,
                output=output, skip=fault is not None, start=start, end=end,
                via_search=(output == "fileset" and processes == 2))


def one_input_case(world, case):
    """-> (whether the case is non-trivial, verdict of judge, observation)"""
    cfg = input_cfg(case)
    processes, fault = case[5], case[6]
    exp = brute_force(world, cfg["mi"], cfg["start"], cfg["end"])
    FAIL.clear()
    fault_file = None
    if fault is None:
        nontrivial = bool(exp) and (
            len(world.files["A"]) > 1 or len(world.files["B"]) > 1
            or case[2] == "long") or no_match(world, cfg)
    else:
        fault_file = (world.files["A"] + world.files["B"])[fault]
        FAIL.add(fault_file)
        nontrivial = exp != brute_force(world, cfg["mi"], cfg["start"],
                                        cfg["end"], (fault_file,))
    try:
        obs = run_default(world, cfg, processes)
    finally:
        FAIL.clear()
    return nontrivial, judge(world, cfg, processes, obs, fault_file), obs


def run_inputs(res, shard):
    _, tier, part, nparts = shard
    root = driver.fresh_dir("c05b")
    last = None
    for k, (a, b, cover, cases) in enumerate(
            input_worlds(tier)[part::nparts]):
        world = World(os.path.join(root, "w%d" % k), dict(A=a, B=b), cover)
        for case in cases:
            nontrivial, bad, _ = one_input_case(world, case)
            res.case(nontrivial=nontrivial)
            last = dict(zip(CASE_FIELDS, case), kind="inputs", a=a, b=b,
                        cover=cover)
            if bad is not None:
                res.violation(bad[0], last, bad[1], bad[2])
    if last:
        res.sample(last)
    return res


def run_default(world, cfg, processes):
    """Default schedule (no deviation) under the controlled scheduler."""
    ctx = explorer.Ctx(())
    _, obs = run_scheduled(ctx, world, cfg, processes, memo=False)
    return obs


def run_real(world, cfg, processes, timeout=90):
    """Free-running under the real multiprocessing (fork), in a child process
    group of its own so that a run that never ends (a real deadlock between
    parent and workers) can be killed and reported instead of hanging the
    check."""
    import select
    import signal
    r, w = os.pipe()
    pid = os.fork()
    if pid == 0:
        try:
            os.close(r)
            os.setsid()
            obs = _run_real_inner(world, cfg, processes)
            with os.fdopen(w, "wb") as f:
                f.write(pickle.dumps(obs))
        finally:
            os._exit(0)
    os.close(w)
    chunks = []
    deadline = __import__("time").time() + timeout
    hung = False
    while True:
        left = deadline - __import__("time").time()
        if left <= 0:
            hung = True
            break
        ready, _, _ = select.select([r], [], [], left)
        if not ready:
            hung = True
            break
        data = os.read(r, 1 << 16)
        if not data:
            break
        chunks.append(data)
    os.close(r)
    if hung:
        try:
            os.killpg(pid, signal.SIGKILL)
        except ProcessLookupError:
            pass
    os.waitpid(pid, 0)
    if hung:
        return dict(pairs=[], problems=[], crashed=0,
                    error=("hang", "no result within %d s" % timeout))
    try:
        return pickle.loads(b"".join(chunks))
    except Exception as exc:
        return dict(pairs=[], problems=[], crashed=0,
                    error=("child-died", repr(exc)[:100]))


def _run_real_inner(world, cfg, processes):
    output, outdir = (None, None)
    if cfg["output"] == "fileset":
        output, outdir = world.output(out_template(cfg))
    world.A.info_cache.clear()
    world.B.info_cache.clear()
    try:
        items = call(world, cfg, processes, output)
        return observe(world, cfg, items, output, outdir)
    except Exception as exc:
        if type(exc).__name__ == "NoFilesError":
            return dict(pairs=[], problems=[], crashed=0)
        return dict(pairs=[], problems=[], crashed=0,
                    error=("exception/" + type(exc).__name__,
                           str(exc)[:200]))
    finally:
        if outdir and os.path.isdir(outdir):
            import shutil
            shutil.rmtree(outdir, ignore_errors=True)


def run_conformance(res, tier):
    """The configurations of the schedule exploration, free-running under
    the real multiprocessing: the multiset must equal the brute force (the
    single outcome the explorer saw on every schedule)."""
    root = driver.fresh_dir("c05real")
    seen = set()
    for cfg, processes, bound, fault in schedule_configs(tier):
        key = (cfg["layout"], cfg["bundle"], cfg["output"], processes, fault,
               cfg["skip"])
        if key in seen or (fault is not None and not cfg["skip"]):
            continue
        seen.add(key)
        world = World(os.path.join(root, "w%d" % len(seen)),
                      LAYOUTS[cfg["layout"]])
        FAIL.clear()
        fault_file = None
        if fault is not None:
            fault_file = (world.files["A"] + world.files["B"])[fault]
            FAIL.add(fault_file)
        res.case(nontrivial=True)
        obs = run_real(world, cfg, processes)
        FAIL.clear()
        res.count("traces_validated_against_impl")
        bad = judge(world, cfg, processes, obs, fault_file)
        if bad is not None:
            res.violation("real-multiprocessing/" + bad[0]
                          if bad[0] != "output-name-collision" else bad[0],
                          dict(kind="real", cfg=cfg, processes=processes,
                               fault=fault), bad[1], bad[2])
            if obs.get("error", ("",))[0] == "hang":
                break           # every further run would wait for its timeout
    res.sample(dict(kind="real multiprocessing", configurations=len(seen)))
    return res


# ------------------------------------------------------------------ driver

def shards(tier, seed):
    out = []
    for i, (cfg, processes, bound, fault) in enumerate(schedule_configs(
            tier)):
        nparts = 1 if bound < 2 else (4 if bound == 2 else 16)
        for part in range(nparts):
            out.append(("sched", tier, i, part, nparts))
    n = 48 if tier == "quick" else 128
    for p in range(n):
        out.append(("inputs", tier, p, n))
    out.append(("real", tier))
    return out


def run_shard(shard):
    res = driver.ShardResult()
    if shard[0] == "inputs":
        return run_inputs(res, shard)
    if shard[0] == "real":
        return run_conformance(res, shard[1])
    _, tier, i, part, nparts = shard
    cfg, processes, bound, fault = schedule_configs(tier)[i]
    root = driver.fresh_dir("c05")
    world = World(root, LAYOUTS[cfg["layout"]])
    n = explore_config(res, world, cfg, processes, bound, fault, part,
                       nparts)
    if part == 0:
        res.count("configurations")
    res.sample(dict(kind="schedule", layout=cfg["layout"],
                    files=LAYOUTS[cfg["layout"]], bundle=cfg["bundle"],
                    output=cfg["output"], processes=processes, fault=fault,
                    deviation_bound=bound, executions=n))
    return res


def finish(tier, merged):
    return dict(states=merged.counters.get("states", 0),
                transitions=merged.counters.get("transitions", 0),
                traces_validated_against_impl=merged.counters.get(
                    "traces_validated_against_impl", 0))


def replay(case):
    root = driver.fresh_dir("c05r")
    if case["kind"] == "inputs":
        world = World(root, dict(A=case["a"], B=case["b"]), case["cover"])
        _, bad, obs = one_input_case(
            world, tuple(case[f] for f in CASE_FIELDS))
    else:
        cfg = case["cfg"]
        cfg["start"] = dt.datetime.fromisoformat(cfg["start"])
        cfg["end"] = dt.datetime.fromisoformat(cfg["end"])
        world = World(root, LAYOUTS[cfg["layout"]])
        fault_file = None
        FAIL.clear()
        if case.get("fault") is not None:
            fault_file = (world.files["A"] + world.files["B"])[case["fault"]]
            FAIL.add(fault_file)
        if case["kind"] == "real":
            obs = run_real(world, cfg, case["processes"])
        else:
            ctx = explorer.Ctx(tuple(tuple(x) for x in case["choices"]))
            _, obs = run_scheduled(ctx, world, cfg, case["processes"],
                                   memo=False)
        FAIL.clear()
        bad = judge(world, cfg, case["processes"], obs, fault_file)
    if bad is None:
        return dict(ok=True, observed=obs)
    return dict(ok=False, key=bad[0], expected=bad[1], observed=bad[2])


if __name__ == "__main__":
    driver.main(sys.modules[__name__])
