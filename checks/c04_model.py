"""C04 reference model: the space-time lattice, the harness datasets, the
brute-force expectation (own 3-D chord on typhon.constants.earth_radius), the
numpy.random.shuffle seam and the comparison with what collocate() returned.
Imports nothing from typhon but the Earth radius the property is relative to.
"""
import datetime as dt
import math
import traceback

import numpy as np
import xarray as xr
from typhon.constants import earth_radius      # metres

D_KM = 5.0                  # max_distance of every case
EPOCH = np.datetime64("2020-02-29T23:59:50", "ns")   # second 0 of the lattice
EPOCH_PY = dt.datetime(2020, 2, 29, 23, 59, 50)
SEC = np.timedelta64(1, "s")
NAN = float("nan")

# positions (lat, lon); one degree of arc is 111.32 km
POS = {
    "c0": (10.0, 0.0),          # meridian cluster, spacing 0.6 D
    "c1": (10.027, 0.0),        # 3.0 km from c0
    "c2": (10.054, 0.0),        # 6.0 km from c0, 3.0 km from c1
    "d0": (-30.0, 179.98),      # 3.9 km apart, across the date line
    "d1": (-30.0, -179.98),
    "n0": (90.0, 30.0),         # the pole twice: distance 0
    "n1": (90.0, -150.0),
    "far": (-45.0, 90.0),
    "xlat": (NAN, 0.0),         # ignored points
    "xlon": (10.0, NAN),
}
# point alphabet: name -> (position, second); max_interval is 10 s, so the
# lattice has |dt| = 0, 2, 4, 6 (inside), 10 (= max_interval: excluded), 12
# and ~1000 (outside)
POINTS = {
    "A": ("c0", 0), "B": ("c1", 6), "C": ("c2", 12), "D": ("c0", 10),
    "E": ("c1", 12), "F": ("d0", 6), "G": ("d1", 12), "H": ("n0", 0),
    "I": ("n1", 6), "J": ("far", 6), "K": ("xlat", 6), "L": ("xlon", 0),
    "M": ("c1", 1000),
    # times between whole seconds: |dt| = 9.25 to A (inside whichever point
    # is the earlier one), 10.25 from O to D (inside for 10.5 s only)
    "N": ("c1", 9.25), "O": ("c1", -0.25),
}
# scan lines for the gridded variant: (second, position, position)
LINES = {
    "a": (0, "c0", "c1"), "b": (6, "c1", "c2"), "c": (12, "c2", "xlat"),
    "d": (10, "c0", "far"), "e": (6, "d0", "d1"), "f": (0, "n0", "n1"),
}
# unique, non-trivial, unsorted labels of the point dimension / of the two
# grid dimensions
LABELS = (7, 3, 11, 5)
LINE_LABELS = (8, 2)
POS_LABELS = (9, 4)

# (max_distance argument, max_interval argument, metres, seconds)
THRESHOLDS = {
    "num": (5, 10, 5000, 10),
    "str": ("5 km", "10 s", 5000, 10),
    "m+timedelta": ("5000 m", dt.timedelta(seconds=10), 5000, 10),
    "half-second": (5.0, 10.5, 5000, 10.5),
    "half-second-str": ("5 kilometers", "10500 ms", 5000, 10.5),
}
# another spelling of the same thresholds (used to tell a defect in reading
# the thresholds from one in the search)
SAME_THRESHOLDS = {"str": "num", "m+timedelta": "num",
                   "half-second": "half-second-str",
                   "half-second-str": "half-second"}
# start / end in lattice seconds (None = argument not given), passed as
# datetime objects or as "YYYY-MM-DD hh:mm:ss" strings
WINDOWS = {
    "none": (None, None, "datetime"),
    "between": (3, 11, "datetime"),          # cuts between lattice seconds
    "on-points": (6, 12, "string"),          # closed: 6 and 12 are inside
    "nothing": (2000, 3000, "datetime"),
    "start-only": (6, None, "string"),
    "end-only": (None, 10, "datetime"),
}
DEFAULT = dict(thr="num", window="none", swap=False, leaf=40, mf=10, bin=1,
               shuffle="rev")
ALTERNATIVES = dict(
    thr=["str", "m+timedelta", "half-second", "half-second-str"],
    window=["between", "on-points", "nothing", "start-only", "end-only"],
    swap=[True], leaf=[1], mf=[1], bin=[2, 0.5])


def shuffle_family(n):
    """identity, reversal and every transposition (0 i) of n items, without
    repetitions ('rev' is (0 1) for n = 2 and (0 2) for n = 3)."""
    fam = ["id"]
    if n >= 2:
        fam.append("rev")
    fam += ["t%d" % i for i in range(1, n) if (n, i) not in ((2, 1), (3, 2))]
    return fam


class ShuffleSeam:
    """Replacement for numpy.random.shuffle: applies the member of the
    permutation family selected in `member` (a transposition beyond the end
    of a shorter array leaves it alone)."""

    def __init__(self):
        self.member = "rev"
        self.calls = 0

    def __call__(self, arr):
        self.calls += 1
        if self.member == "rev":
            arr[:] = arr[::-1].copy()
        elif self.member != "id":
            i = int(self.member[1:])
            if i < len(arr):
                arr[0], arr[i] = arr[i], arr[0]


SEAM = ShuffleSeam()


def install_seam():
    np.random.shuffle = SEAM


# --------------------------------------------------------------------------
# datasets: descriptor -> (xarray.Dataset, [(id, second, lat, lon)])
# descriptors: ("L", "AB") labelled dimension, ("T", "AB") time is the
# dimension, ("G", "ab") 2 x 2 scan-line x scan-position grid,
# ("X", ((id, second, lat, lon), ...)) explicit points on a labelled dimension
# --------------------------------------------------------------------------

def points_of(desc, id0):
    kind, spec = desc
    if kind == "X":
        return [tuple(p) for p in spec]
    if kind == "G":
        out = []
        for li, name in enumerate(spec):
            sec, pa, pb = LINES[name]
            for k, pos in enumerate((pa, pb)):
                out.append((id0 + 2 * li + k, sec) + POS[pos])
        return out
    return [(id0 + i, POINTS[n][1]) + POS[POINTS[n][0]]
            for i, n in enumerate(spec)]


def admissible(desc):
    """time can only be the dimension if the seconds are unique."""
    kind, spec = desc
    if kind != "T":
        return True
    secs = [POINTS[n][1] for n in spec]
    return len(set(secs)) == len(secs)


def times_of(secs):
    return np.array([EPOCH + np.timedelta64(int(round(s * 1e9)), "ns")
                     for s in secs], dtype="datetime64[ns]")


def build(desc, id0, dim):
    kind, spec = desc
    pts = points_of(desc, id0)
    ids = np.array([p[0] for p in pts])
    lat = np.array([p[2] for p in pts], dtype=float)
    lon = np.array([p[3] for p in pts], dtype=float)
    if kind == "G":
        n = len(spec)
        ds = xr.Dataset(
            {"time": ("scnline", times_of([LINES[x][0] for x in spec])),
             "lat": (("scnline", "scnpos"), lat.reshape(n, 2)),
             "lon": (("scnline", "scnpos"), lon.reshape(n, 2)),
             "id": (("scnline", "scnpos"), ids.reshape(n, 2))},
            coords={"scnline": list(LINE_LABELS[:n]),
                    "scnpos": list(POS_LABELS)})
    elif kind == "T":
        ds = xr.Dataset({"lat": ("time", lat), "lon": ("time", lon),
                         "id": ("time", ids)},
                        coords={"time": times_of([p[1] for p in pts])})
    else:
        labels = [LABELS[i % 4] + 20 * (i // 4) for i in range(len(pts))]
        ds = xr.Dataset({"time": (dim, times_of([p[1] for p in pts])),
                         "lat": (dim, lat), "lon": (dim, lon),
                         "id": (dim, ids)}, coords={dim: labels})
    return ds, pts


# --------------------------------------------------------------------------
# expectation
# --------------------------------------------------------------------------

def xyz(lat, lon):
    la, lo = math.radians(lat), math.radians(lon)
    return (earth_radius * math.cos(la) * math.cos(lo),
            earth_radius * math.cos(la) * math.sin(lo),
            earth_radius * math.sin(la))


def chord_m(p, q):
    return math.dist(xyz(p[2], p[3]), xyz(q[2], q[3]))


def usable(p, window):
    lo, hi = window
    return not (math.isnan(p[2]) or math.isnan(p[3])) \
        and (lo is None or p[1] >= lo) and (hi is None or p[1] <= hi)


def expected(pts1, pts2, metres, seconds, window=(None, None)):
    """{(id1, id2): (|dt| s, chord km)} of the pairs that must be reported.
    Asserts the empty don't-care band around the distance threshold."""
    out = {}
    for p in pts1:
        if not usable(p, window):
            continue
        for q in pts2:
            if not usable(q, window):
                continue
            d = chord_m(p, q)
            if abs(d - metres) <= 1e-9 * metres:
                raise AssertionError("distance on the threshold: %r %r"
                                     % (p, q))
            if d <= metres and abs(p[1] - q[1]) < seconds:
                out[(p[0], q[0])] = (abs(p[1] - q[1]), d / 1000)
    return out


# --------------------------------------------------------------------------
# running collocate() and reading its result
# --------------------------------------------------------------------------

def when(sec, how):
    if sec is None:
        return None
    t = EPOCH_PY + dt.timedelta(seconds=sec)
    return t if how == "datetime" else t.strftime("%Y-%m-%d %H:%M:%S")


def call(collocator, ds1, ds2, cfg):
    """One collocate() call under configuration cfg ->
    ("none",) | ("data", xarray.Dataset) | ("exception", type, site, text).
    The datasets are passed as they are (cfg['swap'] is applied by the
    caller)."""
    dist, interval, _, _ = THRESHOLDS[cfg["thr"]]
    lo, hi, how = WINDOWS[cfg["window"]]
    kwargs = dict(max_distance=dist, max_interval=interval)
    if lo is not None:
        kwargs["start"] = when(lo, how)
    if hi is not None:
        kwargs["end"] = when(hi, how)
    if cfg["leaf"] != DEFAULT["leaf"]:
        kwargs["leaf_size"] = cfg["leaf"]
    if cfg["mf"] != DEFAULT["mf"]:
        kwargs["magnitude_factor"] = cfg["mf"]
    if cfg["bin"] != DEFAULT["bin"]:
        kwargs["bin_factor"] = cfg["bin"]
    SEAM.member = cfg["shuffle"]
    try:
        out = collocator.collocate(ds1, ds2, **kwargs)
    except Exception as exc:
        # the site is the method collocate() called (one key per root cause,
        # wherever below it the exception surfaced)
        inside = [frame.name
                  for frame in traceback.extract_tb(exc.__traceback__)
                  if "/typhon/" in frame.filename]
        site = inside[1] if len(inside) > 1 else "collocate"
        return ("exception", type(exc).__name__, site, repr(exc)[:200])
    return ("none",) if out is None else ("data", out)


def judge(obs, pts1, pts2, exp):
    """None or (key, expected, observed, msg). obs as returned by call(),
    exp as returned by expected() for (pts1, pts2)."""
    exp_list = sorted(exp)
    if obs[0] == "exception":
        return ("exception/%s/%s" % (obs[2], obs[1]), exp_list, obs[3], "")
    if obs[0] == "none":
        if exp:
            return ("pairs/none-although-pairs-exist", exp_list, None, "")
        return None
    out = obs[1]
    try:
        pairs = np.asarray(out["Collocations/pairs"].values)
        ids = [np.asarray(out["primary/id"].values),
               np.asarray(out["secondary/id"].values)]
        interval = np.asarray(out["Collocations/interval"].values) / SEC
        distance = np.asarray(out["Collocations/distance"].values,
                              dtype=float)
        carried = [[(int(i), float((t - EPOCH) / SEC), float(la), float(lo))
                    for i, t, la, lo in zip(
                        ids[g], out[name + "/time"].values,
                        out[name + "/lat"].values, out[name + "/lon"].values)]
                   for g, name in enumerate(("primary", "secondary"))]
    except Exception as exc:
        return ("result/unreadable", exp_list, repr(exc)[:200], "")
    if pairs.ndim != 2 or pairs.shape[0] != 2 or not (
            pairs.shape[1] == interval.shape[0] == distance.shape[0]):
        return ("result/shapes-inconsistent", exp_list,
                [pairs.shape, interval.shape, distance.shape], "")
    if pairs.shape[1] == 0:
        return ("result/dataset-without-pairs", exp_list, [], "")
    for g in (0, 1):
        if pairs[g].min() < 0 or pairs[g].max() >= ids[g].size:
            return ("result/pair-index-out-of-range", exp_list,
                    pairs.tolist(), "")
        if set(range(ids[g].size)) - set(pairs[g].tolist()):
            return ("result/stored-point-without-pair", exp_list,
                    pairs.tolist(), "")
    got = [(int(ids[0][i]), int(ids[1][j]))
           for i, j in zip(pairs[0], pairs[1])]
    if len(set(got)) != len(got):
        return ("pairs/duplicate", exp_list, sorted(got), "")
    if set(got) != set(exp):
        extra, missing = set(got) - set(exp), set(exp) - set(got)
        what = "wrong" if extra and missing else \
            "extra" if extra else "missing"
        return ("pairs/" + what, exp_list, sorted(got), "")
    originals = [{p[0]: p for p in pts1}, {p[0]: p for p in pts2}]
    for g in (0, 1):
        for c in carried[g]:
            if originals[g].get(c[0]) != c:
                return ("result/carried-data-altered", originals[g].get(c[0]),
                        c, "time/lat/lon stored with an id are not the "
                        "original point's")
    for k, pair in enumerate(got):
        sec, km = exp[pair]
        # stored in whole seconds: anything a full second or more from
        # |dt| is not |dt| (for whole-second times: anything but |dt|)
        if not abs(interval[k] - sec) < 1:
            return ("interval/not-abs-dt-in-seconds", sec,
                    float(interval[k]), "pair %r" % (pair,))
        if not abs(distance[k] - km) <= 1e-6 * km + 1e-6:
            return ("distance/not-chord-in-km", km, float(distance[k]),
                    "pair %r" % (pair,))
    return None


def intervals_by_pair(obs, transposed=False):
    """{(primary id, secondary id): stored interval in s} of a result."""
    if obs[0] != "data":
        return {}
    out = obs[1]
    pairs = np.asarray(out["Collocations/pairs"].values)
    ids1 = np.asarray(out["primary/id"].values)
    ids2 = np.asarray(out["secondary/id"].values)
    sec = np.asarray(out["Collocations/interval"].values) / SEC
    got = {}
    for i, j, v in zip(pairs[0], pairs[1], sec.tolist()):
        key = (int(ids1[i]), int(ids2[j]))
        got[key[::-1] if transposed else key] = v
    return got


def same(a, b):
    """Do two observations report the same pairs, intervals and distances?"""
    if a[0] != "data" or b[0] != "data":
        return a == b
    rows = []
    for out in (a[1], b[1]):
        pairs = out["Collocations/pairs"].values
        rows.append(sorted(zip(
            out["primary/id"].values[pairs[0]].tolist(),
            out["secondary/id"].values[pairs[1]].tolist(),
            (out["Collocations/interval"].values / SEC).tolist(),
            out["Collocations/distance"].values.tolist())))
    return len(rows[0]) == len(rows[1]) and all(
        x[:3] == y[:3] and abs(x[3] - y[3]) <= 1e-6 * x[3] + 1e-6
        for x, y in zip(*rows))


def listing(obs):
    """JSON-friendly form of an observation."""
    if obs[0] != "data":
        return list(obs)
    out = obs[1]
    pairs = out["Collocations/pairs"].values
    return sorted(zip(out["primary/id"].values[pairs[0]].tolist(),
                      out["secondary/id"].values[pairs[1]].tolist(),
                      (out["Collocations/interval"].values / SEC).tolist(),
                      out["Collocations/distance"].values.tolist()))
