"""C04 reference model: the space-time lattice, the harness datasets, the
brute-force expectation (own 3-D chord on typhon.constants.earth_radius), the
numpy.random.shuffle seam and the comparison with what collocate() returned.
Imports nothing from typhon but the Earth radius the property is relative to.
"""
import datetime as dt
import math
import traceback

import numpy as np
import pandas as pd
import xarray as xr
from typhon.constants import earth_radius      # metres

EPOCH = np.datetime64("2020-02-29T23:59:50", "ns")   # second 0 of the lattice
EPOCH_PY = dt.datetime(2020, 2, 29, 23, 59, 50)
SEC = np.timedelta64(1, "s")
NAN = float("nan")

# positions (lat, lon); one degree of arc is 111.32 km
POS = {
    "c0": (10.0, 0.0),          # meridian cluster, spacing 0.6 D
    "c1": (10.027, 0.0),        # 3.0 km from c0
    "c2": (10.054, 0.0),        # 6.0 km from c0, 3.0 km from c1
    "d0": (-30.0, 179.98),      # 3.9 km apart, across the date line
    "d1": (-30.0, -179.98),
    "n0": (90.0, 30.0),         # the pole twice: distance 0
    "n1": (90.0, -150.0),
    "far": (-45.0, 90.0),
    "xlat": (NAN, 0.0),         # ignored points
    "xlon": (10.0, NAN),
    # 18.0 deg from c0: chord 1995.5 km, arc 2003.7 km (a 2000 km threshold
    # tells the straight line from the great circle); 18.1 deg: outside both
    "w0": (28.0, 0.0),
    "w1": (28.1, 0.0),
    # whole degrees (part "repr": the same numbers as float32 and integer
    # arrays): 1.94 / 3.88 / 5.82 km apart near the pole, the date line
    # twice, a point whose float32 cartesian coordinates are 1.16 m off
    "p0": (89.0, 0.0),
    "p1": (89.0, 1.0),
    "p2": (89.0, 3.0),
    "e0": (0.0, 180.0),
    "e1": (0.0, -180.0),
    "s0": (-10.0, -141.0),
}
# point alphabet: name -> (position, second); max_interval is 10 s, so the
# lattice has |dt| = 0, 2, 4, 6 (inside), 10 (= max_interval: excluded), 12
# and ~1000 (outside)
POINTS = {
    "A": ("c0", 0), "B": ("c1", 6), "C": ("c2", 12), "D": ("c0", 10),
    "E": ("c1", 12), "F": ("d0", 6), "G": ("d1", 12), "H": ("n0", 0),
    "I": ("n1", 6), "J": ("far", 6), "K": ("xlat", 6), "L": ("xlon", 0),
    "M": ("c1", 1000),
    # times between whole seconds: |dt| = 9.25 to A (inside whichever point
    # is the earlier one), 10.25 from O to D (inside for 10.5 s only)
    "N": ("c1", 9.25), "O": ("c1", -0.25),
    # for max_distance 2000 km (part "wide")
    "P": ("w0", 6), "Q": ("w1", 6),
    # for max_interval 36 h / 48 h (part "long"): 12 h, 36 h and 48 h after A
    "R": ("c1", 43200), "S": ("c1", 129600), "T": ("c0", 172800),
    # on whole degrees (part "repr")
    "U": ("p0", 0), "V": ("p1", 6), "W": ("p2", 12), "X": ("e0", 6),
    "Y": ("e1", 0), "Z": ("s0", 6),
}
# scan lines for the gridded variants: (second, positions); kinds G and GT
# take the first two positions of a line, kind H all three
LINES = {
    "a": (0, "c0", "c1", "c2"), "b": (6, "c1", "c2", "c0"),
    "c": (12, "c2", "xlat", "c1"), "d": (10, "c0", "far", "xlon"),
    "e": (6, "d0", "d1", "far"), "f": (0, "n0", "n1", "c0"),
    "g": (0, "p0", "p1", "p2"), "h": (6, "p1", "e0", "s0"),     # whole degrees
}
GRID_KINDS = {"G": 2, "GT": 2, "H": 3}      # kind -> scan positions
# unique, non-trivial, unsorted labels of the point dimension / of the two
# grid dimensions
LABELS = (7, 3, 11, 5)
LINE_LABELS = (8, 2, 5)
POS_LABELS = (9, 4, 6)
CHANNELS = (0, 1)
NAMES = ("MHS", "AVHRR")    # group names of the "named" deviation

# (max_distance argument, max_interval argument, metres, seconds)
THRESHOLDS = {
    "num": (5, 10, 5000, 10),
    "str": ("5 km", "10 s", 5000, 10),
    "m+timedelta": ("5000 m", dt.timedelta(seconds=10), 5000, 10),
    "half-second": (5.0, 10.5, 5000, 10.5),
    "half-second-str": ("5 kilometers", "10500 ms", 5000, 10.5),
    "1m": (0.001, 10, 1, 10),
    "wide-num": (2000, 10, 2e6, 10),
    "wide-str": ("2000 km", "10 s", 2e6, 10),
    "wide-m": ("2e6 m", dt.timedelta(seconds=10), 2e6, 10),
    "2days-num": (5, 172800, 5000, 172800),
    "2days-str": ("5 km", "2 days", 5000, 172800),
    "48h": (5, "48 h", 5000, 172800),
    "2days-timedelta": (5, dt.timedelta(days=2), 5000, 172800),
    "36h": (5, "36 hours", 5000, 129600),
    "1.5days": (5, "1.5 days", 5000, 129600),
}
# another spelling of the same thresholds (used to tell a defect in reading
# the thresholds from one in the search)
SAME_THRESHOLDS = {"str": "num", "m+timedelta": "num",
                   "half-second": "half-second-str",
                   "half-second-str": "half-second",
                   "wide-str": "wide-num", "wide-m": "wide-num",
                   "2days-str": "2days-num", "48h": "2days-num",
                   "2days-timedelta": "2days-num", "1.5days": "36h",
                   "36h": "1.5days"}
# start / end in lattice seconds (None = argument not given), passed as
# datetime objects, pandas.Timestamp objects (a datetime subclass), as
# "YYYY-MM-DD hh:mm:ss" strings or as "YYYY-MM-DD" (second 10 is midnight)
WINDOWS = {
    "none": (None, None, "datetime"),
    "between": (3, 11, "datetime"),          # cuts between lattice seconds
    "on-points": (6, 12, "string"),          # closed: 6 and 12 are inside
    "nothing": (2000, 3000, "datetime"),
    "start-only": (6, None, "string"),
    "end-only": (None, 10, "datetime"),
    "date-start": (10, None, "date"),
    "date-end": (None, 10, "date"),
    "timestamp": (3, 11, "timestamp"),
}
# unit1 / unit2: resolution of the time variable of the primary / secondary;
# pos1 / pos2: (dtype of lat, dtype of lon) of the primary / secondary;
# named: the datasets are passed as (name, dataset) tuples
F64 = ("float64", "float64")
DEFAULT = dict(thr="num", window="none", swap=False, leaf=40, mf=10, bin=1,
               shuffle="rev", unit1="ns", unit2="ns", named=False,
               pos1=F64, pos2=F64)
ALTERNATIVES = dict(
    thr=["str", "m+timedelta", "half-second", "half-second-str"],
    window=["between", "on-points", "nothing", "start-only", "end-only",
            "date-start", "date-end", "timestamp"],
    swap=[True], leaf=[1], mf=[1], bin=[2, 0.5],
    unit1=["us", "ms", "s"], unit2=["us", "ms", "s"], named=[True])


def shuffle_family(n):
    """identity, reversal and every transposition (0 i) of n items, without
    repetitions ('rev' is (0 1) for n = 2 and (0 2) for n = 3)."""
    fam = ["id"]
    if n >= 2:
        fam.append("rev")
    fam += ["t%d" % i for i in range(1, n) if (n, i) not in ((2, 1), (3, 2))]
    return fam


class ShuffleSeam:
    """Replacement for numpy.random.shuffle: applies the member of the
    permutation family selected in `member` (a transposition beyond the end
    of a shorter array leaves it alone)."""

    def __init__(self):
        self.member = "rev"
        self.calls = 0

    def __call__(self, arr):
        self.calls += 1
        if self.member == "rev":
            arr[:] = arr[::-1].copy()
        elif self.member != "id":
            i = int(self.member[1:])
            if i < len(arr):
                arr[0], arr[i] = arr[i], arr[0]


SEAM = ShuffleSeam()


def install_seam():
    np.random.shuffle = SEAM


# --------------------------------------------------------------------------
# datasets: descriptor -> (xarray.Dataset, [(id, second, lat, lon)])
# descriptors: ("L", "AB") labelled dimension, ("T", "AB") time is the
# dimension, ("G", "ab") scan lines x 2 scan positions with the time on the
# labelled scan-line dimension, ("GT", "ab") the same with the time as the
# scan-line dimension itself, ("H", "ab") scan lines x 3 scan positions,
# ("X", ((id, second, lat, lon), ...)) explicit points on a labelled dimension
# --------------------------------------------------------------------------

def points_of(desc, id0):
    kind, spec = desc
    if kind == "X":
        return [tuple(p) for p in spec]
    if kind in GRID_KINDS:
        width = GRID_KINDS[kind]
        return [(id0 + width * li + k, LINES[name][0]) + POS[pos]
                for li, name in enumerate(spec)
                for k, pos in enumerate(LINES[name][1:1 + width])]
    return [(id0 + i, POINTS[n][1]) + POS[POINTS[n][0]]
            for i, n in enumerate(spec)]


def admissible(desc, unit="ns"):
    """time can only be a dimension if the seconds are unique, and only be
    stored in whole seconds if it has no fraction."""
    kind, spec = desc
    secs = [p[1] for p in points_of(desc, 0)]
    if unit == "s" and any(s != int(s) for s in secs):
        return False
    if kind == "T":
        return len(set(secs)) == len(secs)
    if kind == "GT":
        return len(set(LINES[n][0] for n in spec)) == len(spec)
    return True


def times_of(secs, unit="ns"):
    ns = np.array([EPOCH + np.timedelta64(int(round(s * 1e9)), "ns")
                   for s in secs], dtype="datetime64[ns]")
    out = ns.astype("datetime64[%s]" % unit)
    assert (out == ns).all(), "time lost in unit %s" % unit
    return out


def carried_extras(pid, k):
    """values of the variables that do not live on the whole grid, for the
    point with this id at scan position k: ang(scnpos) and
    bt(line, scnpos, channel)"""
    return 0.5 + k, tuple(10.0 * pid + c for c in CHANNELS)


def build(desc, id0, dim, unit="ns", postypes=F64):
    """-> (dataset, points, {id: (ang, bt)} for the gridded kinds else {});
    postypes = (dtype of lat, dtype of lon), which must hold every value
    exactly"""
    kind, spec = desc
    pts = points_of(desc, id0)
    ids = np.array([p[0] for p in pts])
    lat = np.array([p[2] for p in pts], dtype=postypes[0])
    lon = np.array([p[3] for p in pts], dtype=postypes[1])
    for a, k in ((lat, 2), (lon, 3)):
        assert np.array_equal(a.astype(float), [p[k] for p in pts],
                              equal_nan=True), "position lost as %s" % a.dtype
    extras = {}
    if kind in GRID_KINDS:
        n, width = len(spec), GRID_KINDS[kind]
        line = "time" if kind == "GT" else "scnline"
        times = times_of([LINES[x][0] for x in spec], unit)
        extras = {p[0]: carried_extras(p[0], i % width)
                  for i, p in enumerate(pts)}
        grid = (line, "scnpos")
        ds = xr.Dataset(
            {"lat": (grid, lat.reshape(n, width)),
             "lon": (grid, lon.reshape(n, width)),
             "id": (grid, ids.reshape(n, width)),
             "ang": ("scnpos", [carried_extras(0, k)[0]
                                for k in range(width)]),
             "bt": (grid + ("channel",), np.array(
                 [extras[i][1] for i in ids]).reshape(n, width, -1))},
            coords={"scnpos": list(POS_LABELS[:width])})
        if kind == "GT":
            ds = ds.assign_coords(time=times)
        else:
            ds["time"] = "scnline", times
            ds = ds.assign_coords(scnline=list(LINE_LABELS[:n]))
    elif kind == "T":
        ds = xr.Dataset({"lat": ("time", lat), "lon": ("time", lon),
                         "id": ("time", ids)},
                        coords={"time": times_of([p[1] for p in pts], unit)})
    else:
        labels = [LABELS[i % 4] + 20 * (i // 4) for i in range(len(pts))]
        ds = xr.Dataset({"time": (dim, times_of([p[1] for p in pts], unit)),
                         "lat": (dim, lat), "lon": (dim, lon),
                         "id": (dim, ids)}, coords={dim: labels})
    assert ds["time"].dtype == "datetime64[%s]" % unit, ds["time"].dtype
    return ds, pts, extras


# --------------------------------------------------------------------------
# expectation
# --------------------------------------------------------------------------

def xyz(lat, lon):
    la, lo = math.radians(lat), math.radians(lon)
    return (earth_radius * math.cos(la) * math.cos(lo),
            earth_radius * math.cos(la) * math.sin(lo),
            earth_radius * math.sin(la))


def chord_m(p, q):
    return math.dist(xyz(p[2], p[3]), xyz(q[2], q[3]))


def usable(p, window):
    lo, hi = window
    return not (math.isnan(p[2]) or math.isnan(p[3])) \
        and (lo is None or p[1] >= lo) and (hi is None or p[1] <= hi)


def expected(pts1, pts2, metres, seconds, window=(None, None)):
    """{(id1, id2): (|dt| s, chord km)} of the pairs that must be reported.
    Asserts the empty don't-care band around the distance threshold."""
    out = {}
    for p in pts1:
        if not usable(p, window):
            continue
        for q in pts2:
            if not usable(q, window):
                continue
            d = chord_m(p, q)
            if abs(d - metres) <= 1e-9 * metres:
                raise AssertionError("distance on the threshold: %r %r"
                                     % (p, q))
            if d <= metres and abs(p[1] - q[1]) < seconds:
                out[(p[0], q[0])] = (abs(p[1] - q[1]), d / 1000)
    return out


# --------------------------------------------------------------------------
# running collocate() and reading its result
# --------------------------------------------------------------------------

def when(sec, how):
    if sec is None:
        return None
    t = EPOCH_PY + dt.timedelta(seconds=sec)
    if how == "date":
        assert t.time() == dt.time(0), "not a date: %r" % (t,)
        return t.strftime("%Y-%m-%d")
    if how == "timestamp":
        return pd.Timestamp(t)
    return t if how == "datetime" else t.strftime("%Y-%m-%d %H:%M:%S")


def group_names(cfg):
    return NAMES if cfg["named"] else ("primary", "secondary")


def call(collocator, ds1, ds2, cfg):
    """One collocate() call under configuration cfg ->
    ("none",) | ("data", xarray.Dataset) | ("exception", type, site, text).
    The datasets are passed as they are (cfg['swap'] is applied by the
    caller)."""
    dist, interval, _, _ = THRESHOLDS[cfg["thr"]]
    lo, hi, how = WINDOWS[cfg["window"]]
    kwargs = dict(max_distance=dist, max_interval=interval)
    if lo is not None:
        kwargs["start"] = when(lo, how)
    if hi is not None:
        kwargs["end"] = when(hi, how)
    if cfg["leaf"] != DEFAULT["leaf"]:
        kwargs["leaf_size"] = cfg["leaf"]
    if cfg["mf"] != DEFAULT["mf"]:
        kwargs["magnitude_factor"] = cfg["mf"]
    if cfg["bin"] != DEFAULT["bin"]:
        kwargs["bin_factor"] = cfg["bin"]
    if cfg["named"]:
        ds1, ds2 = (NAMES[0], ds1), (NAMES[1], ds2)
    SEAM.member = cfg["shuffle"]
    try:
        out = collocator.collocate(ds1, ds2, **kwargs)
    except Exception as exc:
        if isinstance(exc, TimeoutError) and "shard exceeded" in str(exc):
            raise               # the driver's watchdog, not typhon
        # the site is the method collocate() called (one key per root cause,
        # wherever below it the exception surfaced)
        inside = [frame.name
                  for frame in traceback.extract_tb(exc.__traceback__)
                  if "/typhon/" in frame.filename]
        site = inside[1] if len(inside) > 1 else "collocate"
        return ("exception", type(exc).__name__, site, repr(exc)[:200])
    return ("none",) if out is None else ("data", out)


def judge(obs, pts1, pts2, exp, names=("primary", "secondary"),
          extras=({}, {})):
    """None or (key, expected, observed, msg). obs as returned by call(),
    exp as returned by expected() for (pts1, pts2), names = the groups the
    result must consist of, extras = what build() returned for either side
    ({id: (ang, bt)} of the gridded kinds)."""
    exp_list = sorted(exp)
    if obs[0] == "exception":
        return ("exception/%s/%s" % (obs[2], obs[1]), exp_list, obs[3], "")
    if obs[0] == "none":
        if exp:
            return ("pairs/none-although-pairs-exist", exp_list, None, "")
        return None
    out = obs[1]
    try:
        pairs = np.asarray(out["Collocations/pairs"].values)
        ids = [np.asarray(out[name + "/id"].values) for name in names]
        interval = np.asarray(out["Collocations/interval"].values) / SEC
        distance = np.asarray(out["Collocations/distance"].values,
                              dtype=float)
        carried = [[(int(i), float((t - EPOCH) / SEC), float(la), float(lo))
                    for i, t, la, lo in zip(
                        ids[g], out[name + "/time"].values,
                        out[name + "/lat"].values, out[name + "/lon"].values)]
                   for g, name in enumerate(names)]
    except Exception as exc:
        return ("result/unreadable", exp_list, repr(exc)[:200], "")
    try:
        # the order of the dimensions of bt is not the property's business
        more = [[(float(a), tuple(map(float, b))) for a, b in zip(
                    out[name + "/ang"].values, out[name + "/bt"].transpose(
                        out[name + "/id"].dims[0], ...).values)]
                if extras[g] else None for g, name in enumerate(names)]
    except Exception as exc:
        return ("result/carried-grid-variable-unreadable", exp_list,
                repr(exc)[:200], "ang(scnpos) / bt(line, scnpos, channel)")
    if pairs.ndim != 2 or pairs.shape[0] != 2 or not (
            pairs.shape[1] == interval.shape[0] == distance.shape[0]):
        return ("result/shapes-inconsistent", exp_list,
                [pairs.shape, interval.shape, distance.shape], "")
    if pairs.shape[1] == 0:
        return ("result/dataset-without-pairs", exp_list, [], "")
    for g in (0, 1):
        if pairs[g].min() < 0 or pairs[g].max() >= ids[g].size:
            return ("result/pair-index-out-of-range", exp_list,
                    pairs.tolist(), "")
        if set(range(ids[g].size)) - set(pairs[g].tolist()):
            return ("result/stored-point-without-pair", exp_list,
                    pairs.tolist(), "")
    got = [(int(ids[0][i]), int(ids[1][j]))
           for i, j in zip(pairs[0], pairs[1])]
    if len(set(got)) != len(got):
        return ("pairs/duplicate", exp_list, sorted(got), "")
    if set(got) != set(exp):
        extra, missing = set(got) - set(exp), set(exp) - set(got)
        what = "wrong" if extra and missing else \
            "extra" if extra else "missing"
        return ("pairs/" + what, exp_list, sorted(got), "")
    originals = [{p[0]: p for p in pts1}, {p[0]: p for p in pts2}]
    for g in (0, 1):
        for c in carried[g]:
            if originals[g].get(c[0]) != c:
                return ("result/carried-data-altered", originals[g].get(c[0]),
                        c, "time/lat/lon stored with an id are not the "
                        "original point's")
        if extras[g]:
            for c, m in zip(carried[g], more[g]):
                if extras[g][c[0]] != m:
                    return ("result/carried-grid-variable-altered",
                            extras[g][c[0]], m, "ang(scnpos) / bt(line, "
                            "scnpos, channel) stored with id %d" % c[0])
    for k, pair in enumerate(got):
        sec, km = exp[pair]
        # stored in whole seconds: anything a full second or more from
        # |dt| is not |dt| (for whole-second times: anything but |dt|)
        if not abs(interval[k] - sec) < 1:
            return ("interval/not-abs-dt-in-seconds", sec,
                    float(interval[k]), "pair %r" % (pair,))
        if not abs(distance[k] - km) <= 1e-6 * km + 1e-6:
            return ("distance/not-chord-in-km", km, float(distance[k]),
                    "pair %r" % (pair,))
    return None


def intervals_by_pair(obs, names, transposed=False):
    """{(primary id, secondary id): stored interval in s} of a result with
    these group names."""
    if obs[0] != "data":
        return {}
    out = obs[1]
    pairs = np.asarray(out["Collocations/pairs"].values)
    ids1 = np.asarray(out[names[0] + "/id"].values)
    ids2 = np.asarray(out[names[1] + "/id"].values)
    sec = np.asarray(out["Collocations/interval"].values) / SEC
    got = {}
    for i, j, v in zip(pairs[0], pairs[1], sec.tolist()):
        key = (int(ids1[i]), int(ids2[j]))
        got[key[::-1] if transposed else key] = v
    return got


def same(a, b):
    """Do two observations report the same pairs, intervals and distances?"""
    if a[0] != "data" or b[0] != "data":
        return a == b
    rows = []
    for out in (a[1], b[1]):
        pairs = out["Collocations/pairs"].values
        rows.append(sorted(zip(
            out["primary/id"].values[pairs[0]].tolist(),
            out["secondary/id"].values[pairs[1]].tolist(),
            (out["Collocations/interval"].values / SEC).tolist(),
            out["Collocations/distance"].values.tolist())))
    return len(rows[0]) == len(rows[1]) and all(
        x[:3] == y[:3] and abs(x[3] - y[3]) <= 1e-6 * x[3] + 1e-6
        for x, y in zip(*rows))


def listing(obs):
    """JSON-friendly form of an observation."""
    if obs[0] != "data":
        return list(obs)
    out = obs[1]
    pairs = out["Collocations/pairs"].values
    return sorted(zip(out["primary/id"].values[pairs[0]].tolist(),
                      out["secondary/id"].values[pairs[1]].tolist(),
                      (out["Collocations/interval"].values / SEC).tolist(),
                      out["Collocations/distance"].values.tolist()))
