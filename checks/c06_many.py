"""C06, part "many": one query() call with n query points, for EVERY n up to
a bound (driven from c06_geoindex.py).

The indices of the result have to refer to the arrays as passed in whatever
the number of query points is; any internal blocking, chunking or batching of
the query points has its seams at some n. Seven build points far apart on a
meridian; query point q sits next to build point q mod 7 (every fifth one
is remote and pairs with nothing), so a pair attributed to a neighbouring
query index names the wrong build point and is seen at once. With the small
radius a query point has one partner or none; with the large one it also
reaches the neighbours of its build point, so that 0, 2 or 3 partners
alternate along the query array (seams of anything that flattens or chunks
the jagged result by counts)."""
import itertools

import numpy as np

from checks import c06_model as model

N_QUICK, N_THOROUGH = 2100, 8200
RULE = ("Many part: 7 build points 10 deg apart on a meridian, query point q "
        "next to build point q mod 7 (remote if q mod 5 = 0), one query() "
        "call with the first n query points for EVERY n in 1..%d (thorough: "
        "1..%d) x with and without distances x {(default, haversine/Ball) "
        "x shuffle off / reversal at r = 5 km (0 or 1 partner per query "
        "point), default x reversal at r = 1200 km (0, 2 or 3 partners)}; "
        "thorough: all 9 configurations x shuffle off / reversal at 5 km, "
        "(default, haversine/Ball) x reversal at 1200 km."
        % (N_QUICK, N_THOROUGH))

BLAT = -30.0 + 10.0 * np.arange(7)
BLON = np.full(7, 12.5)
RADII = (5, 1200)
NSHARDS = 48


def query_points(n):
    q = np.arange(n)
    lat = BLAT[q % 7] + 0.01 + 0.00001 * (q % 11)
    lon = BLON[q % 7] + 0.0
    remote = q % 5 == 0
    lat[remote] = 77.0
    lon[remote] = -100.0 + 0.001 * (q[remote] % 13)
    return lat, lon


class Many:
    def __init__(self, nmax):
        self.nmax = nmax
        self.qlat, self.qlon = query_points(nmax)
        self.dist = model.distance_matrices(BLAT, BLON, self.qlat, self.qlon)
        self.pairs = {}
        for (metric, d), r in itertools.product(self.dist.items(), RADII):
            bi, qi = np.nonzero(d <= model.radius_km(r))
            order = np.argsort(qi, kind="stable")
            self.pairs[metric, r] = (qi[order], bi[order], d[bi, qi][order])

    def expected(self, metric, r, n):
        qi, bi, d = self.pairs[metric, r]
        k = np.searchsorted(qi, n)
        return {(int(b), int(q)): float(x)
                for b, q, x in zip(bi[:k], qi[:k], d[:k])}


_many = {}


def get(nmax):
    if nmax not in _many:
        _many[nmax] = Many(nmax)
    return _many[nmax]


def lattice_errors():
    m = get(N_QUICK)
    return ["distance in the don't-care band: many %s r=%r" % (metric, r)
            for (metric, d), r in itertools.product(m.dist.items(), RADII)
            if model.in_band(d, model.radius_km(r))]


def calls(tier):
    """(configuration, reversal imposed, radius) of the indexes queried for
    every n. The large radius returns three times the pairs: it runs with
    the reversal (the index translation) only."""
    default, haversine = (None, None, None), ("haversine", "Ball", None)
    if tier == "quick":
        return [(cfg, reverse, RADII[0]) for cfg in (default, haversine)
                for reverse in (False, True)] + [(default, True, RADII[1])]
    return [(cfg, reverse, RADII[0]) for cfg in model.CONFIGURATIONS
            for reverse in (False, True)] + \
        [(cfg, True, RADII[1]) for cfg in (default, haversine)]


def shards(tier, seed):
    return [("many", tier, k) for k in range(NSHARDS)]


def run_case(seam, m, cfg, reverse, n, r):
    metric, tree, leaf = cfg
    perm = np.arange(7)[::-1].copy() if reverse else None
    index = model.make_index(seam, BLAT, BLON, perm, metric, tree, leaf)
    exp = m.expected(metric or "minkowski", r, n)
    return exp, [model.evaluate(index, perm, exp, metric or "minkowski",
                                m.qlat[:n], m.qlon[:n], r, wd)
                 for wd in (True, False)]


def run(res, seam, shard, replay):
    _, tier, k = shard
    nmax = N_QUICK if tier == "quick" else N_THOROUGH
    m = get(nmax)
    # interleaved so that every shard has short and long calls
    for n in range(1 + k, nmax + 1, NSHARDS):
        for cfg, reverse, r in calls(tier):
            case = dict(part="many", metric=cfg[0], tree=cfg[1],
                        leaf=cfg[2], reverse=reverse, n=n, r=r, tier=tier)
            try:
                exp, verdicts = run_case(seam, m, cfg, reverse, n, r)
            except model.SeamNotHit as e:
                res.error(str(e))
                return
            except Exception as e:
                model.reraise_watchdog(e)
                res.violation("build/exception/" + type(e).__name__,
                              case, None, repr(e)[:200])
                continue
            res.count("indexes_built")
            res.maximum("query_points_in_one_call", n)
            for (bad, _), wd in zip(verdicts, (True, False)):
                res.case(nontrivial=bool(exp))
                if bad is not None:
                    bad = ("many/" + bad[0], _short(bad[1]),
                           _short(bad[2]), bad[3])
                    model.report(res, replay, bad,
                                 dict(case, return_distance=wd))
    res.sample(dict(case, expected_pairs=len(exp)))


def _short(value):
    """Pair lists of thousands of entries are cut for the report."""
    if isinstance(value, list) and len(value) > 12:
        return value[:6] + ["... %d entries ..." % len(value)] + value[-6:]
    return value


def replay(seam, case):
    m = get(N_QUICK if case["tier"] == "quick" else N_THOROUGH)
    _, verdicts = run_case(seam, m,
                           (case["metric"], case["tree"], case["leaf"]),
                           case["reverse"], case["n"], case["r"])
    bad = verdicts[0 if case["return_distance"] else 1][0]
    if bad is None:
        return None
    return ("many/" + bad[0], _short(bad[1]), _short(bad[2]), bad[3])
