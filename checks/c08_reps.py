"""C08: the number representations in which a caller's values arrive.

A representation ("rep") is a name: None / "float64" is the baseline (Python
float, numpy.float64); "int" is the Python int (scalars only; a list of them
becomes an int64 array, which is the rep "int64"); the others are NumPy
dtypes. A value is only ever handed over in a rep that holds it exactly, so
the reference of a case does not depend on its rep.
"""
import numpy as np

EPS64 = 2.0 ** -52
EPS32 = 2.0 ** -23
DTYPES = {"int64": np.int64, "int32": np.int32, "int16": np.int16,
          "float32": np.float32, "float64": np.float64, None: np.float64}
REPS = ("int", "int64", "int32", "int16", "float32")
ARRAY_REPS = REPS[1:]


def representable(v, rep):
    """Does rep hold the mathematical value v (int or float) exactly?"""
    if rep == "float32":
        return float(np.float32(v)) == v
    if rep in (None, "float64"):
        return float(v) == v
    if v != int(v):
        return False
    if rep == "int":
        return True
    info = np.iinfo(DTYPES[rep])
    return info.min <= v <= info.max


def scalar(v, rep):
    assert representable(v, rep), (v, rep)
    if rep is None:
        return float(v)
    return int(v) if rep == "int" else DTYPES[rep](v)


def array(values, rep):
    assert rep != "int" and all(representable(v, rep) for v in values)
    return np.array(values, dtype=DTYPES[rep])


def eps(*reps):
    """Unit roundoff the results are judged with: typhon may compute in
    single precision when an argument is given in single precision."""
    return EPS32 if "float32" in reps else EPS64


def kind(*reps):
    """Coarse class of a call's representations (part of violation keys)."""
    if any(r in ("int64", "int32", "int16") for r in reps):
        return "integer-dtype"
    if "float32" in reps:
        return "float32"
    return "python-int" if "int" in reps else "float64"


def tagged(violations, *reps):
    """Violations of a call in another representation than float64 get their
    own keys: what is wrong there is a different defect."""
    k = kind(*reps)
    if k == "float64":
        return violations
    return [("%s/%s-input" % (v[0], k),) + tuple(v[1:]) for v in violations]
