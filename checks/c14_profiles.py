"""C14, part 2: integrate_water_vapor, column_relative_humidity,
pressure2height and standard_atmosphere (driven from c14_integrals.py).

Small lattices of levels x profile alphabets are enumerated completely and
compared with exact rational / extended-precision references; the continuum
relations of the statement are checked on grid-refinement sequences against
analytic columns.
"""
import functools
import itertools
from fractions import Fraction

from mc import driver
driver.setup_env()

import numpy as np
from typhon import constants

from checks import c14_exact as ex

RULE = ("profiles: every selection of 2..N levels (decreasing pressure) of 6 "
        "pressure nodes x every profile over the alphabet on those levels: "
        "vmr in {0,1e-6,1e-3,0.04} for both IWV forms (N=4 quick, 5 "
        "thorough); T in {220, Tt-23, 262, Tt, 285, 300} for CRH with q = "
        "a*q_sat, a in {1,.5,.1,0} and a non-saturated q scaled by {.5,.1} "
        "(N=3 quick, 4 thorough). The same profiles as columns of rank-2 "
        "(n x 3) and rank-3 (n x 2 x 3) input: one case = (level set, block of 3 or 6 "
        "profiles, rank, position of the level axis, axis sign, pressure "
        "1-D | of the input's shape); the call with axis position 0 given "
        "positively is repeated with axis left to its default; the general "
        "IWV form runs where its level arrays broadcast (full shape, or 1-D "
        "with the levels last). T in {180,250,320} or None for "
        "pressure2height (N=5); the 8 ISA levels and all 247 selections of "
        ">=2 of them; isothermal columns T0 in {180,250,320} given as array | "
        "float | int on refinement sequences 10,20,..,1280,10^4 levels, "
        "linear and logarithmic in p; IWV refinement sequences 10..1280 "
        "levels for T0 x lapse x vmr0 x decay lattices. Non-trivial = "
        "humidity not identically zero (IWV, CRH), >=3 levels "
        "(pressure2height), every ISA and refinement case.")
ASSUMPTIONS = [
    "IWV / CRH / pressure2height are decided on the listed level sets and "
    "profile alphabets and on analytic columns T = T0 - lapse*ln(p0/p), "
    "vmr = vmr0*(p/p0)^k; other profiles are not covered",
    "the mixed-phase saturation pressure reference is a re-implementation of "
    "Murphy & Koop (2005) and the IFS blending in extended precision; the "
    "saturated profile uses q = 0.622 e/(p - 0.378 e) as documented, and a "
    "result within 2|0.622 Md/Mw - 1| of 1 is accepted so that the exact "
    "molar-mass ratio would pass as well",
    "rank-2/3 input of column_relative_humidity and integrate_water_vapor: "
    "pressure 1-D or of the input's shape (not size-1-broadcast shapes), "
    "temperature of the input's shape, C-contiguous float64",
    "the ISA table (8 levels: geopotential height, pressure, temperature) is "
    "taken from the published standard, not from typhon",
]

LD = np.longdouble
G = constants.earth_standard_gravity
MD, MW = constants.molar_mass_dry_air, constants.molar_mass_water
RGAS = constants.gas_constant
RD, RV = constants.gas_constant_dry_air, constants.gas_constant_water_vapor
TT = constants.triple_point_water

P_NODES = (100000.0, 85000.0, 50000.0, 30000.0, 10000.0, 1000.0)
Z_NODES = (0.0, 1500.0, 5500.0, 9000.0, 16000.0, 31000.0)
T_NODES = (288.0, 280.0, 252.0, 229.0, 210.0, 228.0)
VMR = (0.0, 1e-6, 1e-3, 0.04)
T_CRH = (220.0, TT - 23.0, 262.0, TT, 285.0, 300.0)
SCALES = (1.0, 0.5, 0.1, 0.0)
WEIGHTS = (0.9, 0.3, 0.6, 0.1, 0.5, 0.8)      # a non-saturated q = w * q_sat
T_P2H = (180.0, 250.0, 320.0)
MAXLEV = dict(iwv=dict(quick=4, thorough=5), crh=dict(quick=3, thorough=4),
              p2h=dict(quick=5, thorough=5))
STRIDE = 37
OTHER = {2: (3,), 3: (2, 3)}            # extents of the non-level axes
NCOL = {rank: int(np.prod(other)) for rank, other in OTHER.items()}
P_FORMS = ("1d", "full")

# Either definition of the molar-mass ratio in the saturation humidity.
TOL_SAT = 2 * abs(0.622 * MD / MW - 1)

ISA_H = (-610.0, 11000.0, 20000.0, 32000.0, 47000.0, 51000.0, 71000.0,
         84852.0)
ISA_P = (108900.0, 22632.0, 5474.9, 868.02, 110.91, 66.939, 3.9564, 0.3734)
ISA_T = (19.0, -56.5, -56.5, -44.5, -2.5, -2.5, -58.5, -86.28)     # Celsius

LEVELS = (10, 20, 40, 80, 160, 320, 640, 1280)
P_SURFACE = 101325.0
REFINE_T0 = (230.0, 288.15)
REFINE_LAPSE = (0.0, 10.0, 30.0)       # K per e-folding of pressure
REFINE_VMR0 = (1e-5, 1e-3, 0.03)
REFINE_DECAY = (0, 2, 3)               # vmr = vmr0 (p/p0)^k
CONVERGED = 1e-3                       # DESIGN: last difference < 1e-3 relative


def atm():
    from typhon.physics import atmosphere
    return atmosphere


def level_sets(maxn):
    for n in range(2, maxn + 1):
        yield from itertools.combinations(range(len(P_NODES)), n)


def pick(nodes, idx):
    return np.array([nodes[i] for i in idx])


def columns(profiles, block, ncol):
    return [profiles[((block * ncol + c) * STRIDE) % len(profiles)]
            for c in range(ncol)]


def embed(cols, rank, pos):
    """Array of shape other[:pos] + (n,) + other[pos:], other = OTHER[rank],
    whose c-th column (C order over `other`) along axis `pos` is cols[c]."""
    a = np.array(cols, dtype=float).reshape(OTHER[rank] + (-1,))
    return np.moveaxis(a, -1, pos).copy()


def along(levels, shape, pos):
    """The 1-D level array repeated to `shape`, varying along axis `pos`."""
    to = [1] * len(shape)
    to[pos] = -1
    return np.broadcast_to(levels.reshape(to), shape).copy()


def axis_calls(func, args, rank, pos, negative):
    """func(*args, axis=...) and, where that axis is the default one written
    positively, the same call without `axis` -> [(label, values in column
    order, observed)]; values is None for a mis-shaped result and for an
    exception raised on the way (to be reported like a wrong value of this
    layout, whose root cause it shares)."""
    axis = pos - rank if negative else pos
    calls = [("axis=%d" % axis, dict(axis=axis))]
    if pos == 0 and not negative:
        calls.append(("axis omitted", {}))
    out = []
    for label, kwargs in calls:
        try:
            got = ex.call(func, *args, **kwargs)
        except ex.Raised as e:
            out.append((label, None, e.text))
            continue
        if np.shape(got) != OTHER[rank]:
            out.append((label, None, "shape %r" % (np.shape(got),)))
        else:
            out.append((label, [got[i] for i in np.ndindex(*OTHER[rank])],
                        got))
    return out


# --------------------------------------------------------------------------
# integrated water vapour on the lattice
# --------------------------------------------------------------------------

def q_exact(vmr):
    x = Fraction(vmr)
    return x / ((1 - x) * Fraction(MD) / Fraction(MW) + x)


@functools.lru_cache(None)
def iwv_profiles(n):
    return list(itertools.product(VMR, repeat=n))


@functools.lru_cache(None)
def iwv_hydrostatic_ref(idx, vmr):
    p = ex.fractions(P_NODES[i] for i in idx)
    return -ex.trapezoid(p, [q_exact(v) for v in vmr]) / Fraction(G)


def iwv_tol(ref, n):
    # vmr -> q: 5 roundings; trapezoid: 3 per term + n-1 for the sum; 1/g: 1;
    # doubled for evaluation orders other than the present one.
    return 2 * (n + 9) * ex.U * ref


def check_iwv(idx, vmr):
    n = len(idx)
    p, t, z = pick(P_NODES, idx), pick(T_NODES, idx), pick(Z_NODES, idx)
    ref = iwv_hydrostatic_ref(idx, vmr)
    got = ex.call(atm().integrate_water_vapor, np.array(vmr), p)
    if not got >= 0:
        return ("integrate_water_vapor/negative", ">= 0", got, "hydrostatic")
    if not ex.close(got, ref, iwv_tol(ref, n)):
        return ("integrate_water_vapor/hydrostatic-value", float(ref), got,
                "")
    got = ex.call(atm().integrate_water_vapor, np.array(vmr),
                  p.astype("int64"))
    if not ex.close(got, ref, iwv_tol(ref, n)):
        return ("integrate_water_vapor/differs-for-integer-pressure",
                float(ref), got, "p given as an int64 array")
    ref = iwv_general_ref(idx, vmr)
    got = ex.call(atm().integrate_water_vapor, np.array(vmr), p, t, z)
    if not got >= 0:
        return ("integrate_water_vapor/negative", ">= 0", got, "general")
    if not ex.close(got, ref, iwv_tol(ref, n)):
        return ("integrate_water_vapor/general-value", float(ref), got, "")
    return None


@functools.lru_cache(None)
def iwv_general_ref(idx, vmr):
    p, t, z = (ex.fractions(nodes[i] for i in idx)
               for nodes in (P_NODES, T_NODES, Z_NODES))
    rho = [Fraction(v) * pi / (Fraction(RV) * ti)
           for v, pi, ti in zip(vmr, p, t)]
    return ex.trapezoid(z, rho)


def check_iwv_nd(idx, rank, block, pos, negative, pform):
    iwv = atm().integrate_water_vapor
    cols = columns(iwv_profiles(len(idx)), block, NCOL[rank])
    a = embed(cols, rank, pos)
    p, t, z = (pick(nodes, idx) for nodes in (P_NODES, T_NODES, Z_NODES))
    if pform == "full":
        p, t, z = (along(v, a.shape, pos) for v in (p, t, z))
    forms = [("hydrostatic", (a, p), iwv_hydrostatic_ref)]
    # the general form multiplies vmr by a density of p and T: 1-D level
    # arrays broadcast against vmr only if the levels are the last axis
    if pform == "full" or pos == rank - 1:
        forms.append(("general", (a, p, t, z), iwv_general_ref))
    for form, args, reference in forms:
        refs = [reference(idx, c) for c in cols]
        for label, vals, got in axis_calls(iwv, args, rank, pos, negative):
            if vals is None or not all(
                    ex.close(g, r, iwv_tol(r, len(idx)))
                    for g, r in zip(vals, refs)):
                what = "default-axis" if label == "axis omitted" else \
                    "axis" if form == "hydrostatic" else "general-form-axis"
                return ("integrate_water_vapor/" + what,
                        [float(r) for r in refs], got,
                        "%s form, %s, shape %r" % (form, label, a.shape))
    return None


# --------------------------------------------------------------------------
# column relative humidity
# --------------------------------------------------------------------------

def e_liquid(t):
    t = LD(t)
    return np.exp(LD("54.842763") - LD("6763.22") / t - LD("4.21") * np.log(t)
                  + LD("0.000367") * t
                  + np.tanh(LD("0.0415") * (t - LD("218.8")))
                  * (LD("53.878") - LD("1331.22") / t
                     - LD("9.44523") * np.log(t) + LD("0.014025") * t))


def e_ice(t):
    t = LD(t)
    return np.exp(LD("9.550426") - LD("5723.265") / t
                  + LD("3.53068") * np.log(t) - LD("0.00728332") * t)


def e_mixed(t):
    """IFS Cy45r1 IV eq. 12.13: liquid above Tt, ice below Tt - 23 K,
    quadratic blending of the two in between."""
    alpha = min(max((LD(t) - (LD(TT) - 23)) / 23, LD(0)), LD(1)) ** 2
    return alpha * e_liquid(t) + (1 - alpha) * e_ice(t)


@functools.lru_cache(None)
def crh_profiles(n):
    return list(itertools.product(T_CRH, repeat=n))


@functools.lru_cache(None)
def q_saturated(temps, idx):
    """Saturation specific humidity at the levels idx (shared: callers hand
    typhon arrays derived from it, never the cached array itself)."""
    return np.array([float(LD("0.622") * e_mixed(t)
                           / (LD(P_NODES[i]) - LD("0.378") * e_mixed(t)))
                     for t, i in zip(temps, idx)])


def crh_linear_tol(n):
    # q -> vmr -> q: 13 roundings, trapezoid n + 4, twice for the ratio, twice
    # for the two results compared; doubled.
    return 2 * (4 * n + 72) * float(ex.U)


def check_crh(idx, temps):
    crh = atm().column_relative_humidity
    n = len(idx)
    p, t = pick(P_NODES, idx), np.array(temps)
    qs = q_saturated(temps, idx)
    for a in SCALES:
        got = ex.call(crh, a * qs, p.copy(), t.copy())
        if not abs(got - a) <= TOL_SAT * a:
            if a == 1.0:
                return ("column_relative_humidity/saturated-not-1", 1.0, got,
                        "")
            return ("column_relative_humidity/not-linear-in-q", a, got,
                    "q = %r q_sat" % a)
    q = qs * pick(WEIGHTS, idx)
    base = ex.call(crh, q, p.copy(), t.copy())
    for c in (0.5, 0.1):
        got = ex.call(crh, c * q, p.copy(), t.copy())
        if not abs(got - c * base) <= crh_linear_tol(n) * c * base:
            return ("column_relative_humidity/not-linear-in-q", c * base,
                    got, "CRH(%r q) vs %r CRH(q)" % (c, c))
    return None


def check_crh_nd(idx, rank, block, pos, negative, pform):
    cols = columns(crh_profiles(len(idx)), block, NCOL[rank])
    p = pick(P_NODES, idx)
    q = embed([q_saturated(c, idx) for c in cols], rank, pos)
    if pform == "full":
        p = along(p, q.shape, pos)
    for label, vals, got in axis_calls(
            atm().column_relative_humidity, (q, p, embed(cols, rank, pos)),
            rank, pos, negative):
        if vals is None or not all(abs(v - 1) <= TOL_SAT for v in vals):
            what = "default-axis" if label == "axis omitted" else \
                "full-shape-pressure" if pform == "full" else \
                "rank%d-saturated-not-1" % rank
            return ("column_relative_humidity/" + what, [1.0] * len(cols),
                    got, "%s, shape %r" % (label, q.shape))
    return None


# --------------------------------------------------------------------------
# pressure2height on the lattice
# --------------------------------------------------------------------------

def check_p2h(idx, temps):
    p = pick(P_NODES, idx)
    t = None if temps is None else np.array(temps)
    z = ex.call(atm().pressure2height, p, t)
    if np.shape(z) != (len(idx),):
        return ("pressure2height/shape", (len(idx),), np.shape(z), "")
    if z[0] != 0:
        return ("pressure2height/does-not-start-at-0", 0.0, z, "")
    if not (np.all(np.isfinite(z)) and np.all(np.diff(z) > 0)):
        return ("pressure2height/not-strictly-increasing", "increasing", z,
                "")
    # the same column given as integer arrays (whole pascals / kelvins are
    # legitimate inputs): the heights must not depend on the dtype
    zi = ex.call(atm().pressure2height, p.astype("int64"),
                 None if t is None else t.astype("int64"))
    if np.shape(zi) != np.shape(z) or not np.all(
            np.abs(np.asarray(zi, dtype=float) - z)
            <= 1e-9 * max(abs(z[-1]), 1.0)):
        return ("pressure2height/differs-for-integer-arrays", z, zi,
                "p and T given as int64 arrays")
    # the same column stored top-down (pressure increasing along the array):
    # starts at 0 at the top, heights decrease with increasing pressure, and
    # every layer is as thick as in the bottom-up call (the hydrostatic
    # integral does not depend on the storage order)
    zt = ex.call(atm().pressure2height, p[::-1].copy(),
                 None if t is None else t[::-1].copy())
    if np.shape(zt) != (len(idx),):
        return ("pressure2height/shape", (len(idx),), np.shape(zt),
                "top-down")
    if zt[0] != 0:
        return ("pressure2height/does-not-start-at-0", 0.0, zt, "top-down")
    if not (np.all(np.isfinite(zt)) and np.all(np.diff(zt) < 0)):
        return ("pressure2height/top-down-not-decreasing", "decreasing", zt,
                "height must increase with decreasing pressure")
    want = z[::-1] - z[-1]
    if not np.all(np.abs(zt - want) <= 1e-9 * max(abs(z[-1]), 1.0)):
        return ("pressure2height/top-down-layers-differ", want, zt,
                "layer thicknesses must not depend on the storage order")
    return None


# --------------------------------------------------------------------------
# standard atmosphere
# --------------------------------------------------------------------------

def check_isa_level(i):
    sa = atm().standard_atmosphere
    ref = Fraction(ISA_T[i]) + Fraction(constants.K)
    tol = 8 * ex.U * ref
    by_h = ex.call(sa, ISA_H[i])
    by_p = ex.call(sa, ISA_P[i], coordinates="pressure")
    in_array = (ex.call(sa, np.array(ISA_H))[i],
                ex.call(sa, np.array(ISA_P), coordinates="pressure")[i])
    if not ex.close(by_h, ex.exact(by_p), tol):
        return ("standard_atmosphere/addressing-disagrees", float(by_h),
                float(by_p), "level %d" % i)
    for got in (by_h, by_p) + in_array:
        if not ex.close(got, ref, tol):
            return ("standard_atmosphere/table-value", float(ref),
                    float(got), "level %d" % i)
    return None


def check_isa_default(sel):
    """pressure2height(p) on tabulated levels = pressure2height(p, T_table)."""
    p = pick(ISA_P, sel)
    t = pick(ISA_T, sel) + constants.K
    return same_heights(ex.call(atm().pressure2height, p),
                        ex.call(atm().pressure2height, p, t), "table levels")


def check_isa_default_between(kind):
    """Off the table: the default is standard_atmosphere(p, 'pressure')."""
    p = pressure_grid(kind, 50, ISA_P[0], ISA_P[-1])
    t = ex.call(atm().standard_atmosphere, p, coordinates="pressure")
    return same_heights(ex.call(atm().pressure2height, p),
                        ex.call(atm().pressure2height, p, t), kind)


def same_heights(default, explicit, msg):
    tol = 8 * len(explicit) * float(ex.U) * explicit[-1]
    if np.shape(default) != np.shape(explicit) or \
            not np.all(np.abs(default - explicit) <= tol):
        return ("pressure2height/default-not-standard-atmosphere", explicit,
                default, msg)
    return None


# --------------------------------------------------------------------------
# refinement sequences
# --------------------------------------------------------------------------

def pressure_grid(kind, n, p0, ptop):
    i = np.arange(n) / (n - 1)
    if kind == "linear":
        p = p0 + (ptop - p0) * i
    else:
        p = p0 * (ptop / p0) ** i
    p[0], p[-1] = p0, ptop
    return p


def decreasing(seq):
    return all(b < a for a, b in zip(seq, seq[1:]))


T_FORMS = dict(array=lambda t0, n: np.full(n, t0), float=lambda t0, n: t0,
               int=lambda t0, n: int(t0))


def check_isothermal(t0, kind, tform):
    """z -> (R T / g) ln(p0 / p) under refinement of the pressure grid; the
    temperature of the column as an array or as one number."""
    # A grid linear in p is too coarse in ln p near 1 hPa to be a refinement
    # of the upper layers; it stops at 50 hPa.
    p0, ptop = P_SURFACE, 5000.0 if kind == "linear" else 100.0
    errors = []
    for n in LEVELS + (10 ** 4,):
        p = pressure_grid(kind, n, p0, ptop)
        z = ex.call(atm().pressure2height, p, T_FORMS[tform](t0, n))
        ref = LD(RD) * LD(t0) / LD(G) * np.log(LD(p0) / p.astype(LD))
        if np.shape(z) != (n,):
            return ("pressure2height/shape", (n,), np.shape(z), "")
        if z[0] != 0 or not np.all(np.diff(z) > 0):
            return ("pressure2height/not-strictly-increasing", "increasing",
                    "%d levels" % n, "")
        errors.append(float(np.max(np.abs(z - ref)) / ref[-1]))
        if n <= LEVELS[-1]:
            # stored top-down: z = (R T / g) ln(p_top / p) <= 0
            zt = ex.call(atm().pressure2height, p[::-1].copy(),
                         T_FORMS[tform](t0, n))
            reft = LD(RD) * LD(t0) / LD(G) * np.log(
                LD(p[-1]) / p[::-1].astype(LD))
            if np.shape(zt) != (n,) or zt[0] != 0 or \
                    not np.all(np.diff(zt) < 0):
                return ("pressure2height/top-down-not-decreasing",
                        "decreasing from 0", "%d levels" % n, "")
            if n == LEVELS[-1] and float(np.max(np.abs(zt - reft))
                                         / abs(reft[-1])) >= CONVERGED:
                return ("pressure2height/isothermal-not-converging",
                        "< %g at %d levels (top-down)" % (CONVERGED, n),
                        float(np.max(np.abs(zt - reft)) / abs(reft[-1])),
                        "")
    if not (decreasing(errors) and errors[len(LEVELS) - 1] < CONVERGED):
        return ("pressure2height/isothermal-not-converging",
                "decreasing, < %g at %d levels" % (CONVERGED, LEVELS[-1]),
                errors, "")
    return None


GAUSS = tuple(a.astype(LD) for a in np.polynomial.legendre.leggauss(10))


def layer_integrals(f, s):
    """Gauss-Legendre integral of f over each [s_i, s_i+1] (longdouble)."""
    half = (s[1:] - s[:-1]) / 2
    mid = (s[1:] + s[:-1]) / 2
    nodes = mid[:, None] + half[:, None] * GAUSS[0][None, :]
    return half * (f(nodes) * GAUSS[1][None, :]).sum(axis=1)


class Column:
    """T = t0 - lapse*s, vmr = vmr0*exp(-k s), s = ln(p0/p); the hydrostatic
    height of the moist column and its water vapour path by quadrature."""

    def __init__(self, t0, lapse, vmr0, decay):
        self.t0, self.lapse, self.vmr0, self.decay = t0, lapse, vmr0, decay

    def temperature(self, s):
        return LD(self.t0) - LD(self.lapse) * s

    def vmr(self, s):
        return LD(self.vmr0) * np.exp(-self.decay * s)

    def molar_mass(self, s):
        return LD(MD) - self.vmr(s) * (LD(MD) - LD(MW))

    def height(self, s):
        dz = layer_integrals(lambda u: LD(RGAS) / LD(G) * self.temperature(u)
                             / self.molar_mass(u), s)
        return np.concatenate([[LD(0)], np.cumsum(dz)])

    def height_closed_form(self, s):
        """Where one exists (validates the quadrature); else None."""
        if self.decay == 0:
            return LD(RGAS) / (LD(G) * self.molar_mass(LD(0))) * (
                LD(self.t0) * s - LD(self.lapse) * s ** 2 / 2)
        if self.lapse == 0:
            b = LD(self.vmr0) * (LD(MD) - LD(MW))
            k = self.decay
            return LD(RGAS) * LD(self.t0) / LD(G) / (k * LD(MD)) * (
                np.log(LD(MD) * np.exp(k * s) - b) - np.log(LD(MD) - b))
        return None

    def water_vapour_path(self, s):
        """(p0 / g) * integral of q(s) exp(-s) ds = -1/g integral q dp."""
        def f(u):
            return self.vmr(u) * LD(MW) / self.molar_mass(u) * np.exp(-u)
        return LD(P_SURFACE) / LD(G) * layer_integrals(f, s).sum()


def check_iwv_refinement(t0, lapse, vmr0, decay, kind):
    col = Column(t0, lapse, vmr0, decay)
    p0, ptop = P_SURFACE, 10000.0
    diffs, hyd_err, gen_err = [], [], []
    for n in LEVELS:
        p = pressure_grid(kind, n, p0, ptop)
        s = np.log(LD(p0) / p.astype(LD))
        z = col.height(s)
        closed = col.height_closed_form(s)
        if closed is not None and \
                np.max(np.abs(z - closed)) > 1e-13 * float(closed[-1]):
            raise AssertionError("harness quadrature disagrees with the "
                                 "closed form for %r" % ((t0, lapse, vmr0,
                                                          decay, kind, n),))
        ref = float(col.water_vapour_path(s))
        vmr = col.vmr(s).astype(float)
        hyd = ex.call(atm().integrate_water_vapor, vmr, p)
        gen = ex.call(atm().integrate_water_vapor, vmr, p,
                      col.temperature(s).astype(float), z.astype(float))
        if np.ndim(hyd) or np.ndim(gen):
            return ("integrate_water_vapor/result-shape", "scalars",
                    (np.shape(hyd), np.shape(gen)), "")
        if not (hyd >= 0 and gen >= 0):
            return ("integrate_water_vapor/negative", ">= 0", (hyd, gen),
                    "%d levels" % n)
        diffs.append(abs(hyd - gen) / ref)
        hyd_err.append(abs(hyd - ref) / ref)
        gen_err.append(abs(gen - ref) / ref)
    seq = dict(forms=diffs, hydrostatic=hyd_err, general=gen_err)
    if not (decreasing(diffs) and diffs[-1] < CONVERGED):
        return ("integrate_water_vapor/forms-do-not-converge",
                "decreasing, last < %g" % CONVERGED, seq, "")
    if not (hyd_err[-1] < CONVERGED and gen_err[-1] < CONVERGED):
        return ("integrate_water_vapor/not-the-defining-integral",
                "< %g at 1280 levels" % CONVERGED, seq, "")
    return None


# --------------------------------------------------------------------------
# shards
# --------------------------------------------------------------------------

CHECKS = dict(iwv=check_iwv, iwvnd=check_iwv_nd, crh=check_crh,
              crhnd=check_crh_nd, p2h=check_p2h, isa=check_isa_level,
              isa_default=check_isa_default,
              isa_between=check_isa_default_between,
              isothermal=check_isothermal, refine=check_iwv_refinement)


def shards(tier):
    out = [("profiles", "isa", tier)]
    out += [("profiles", "iwv", tier, idx)
            for idx in level_sets(MAXLEV["iwv"][tier])]
    out += [("profiles", "crh", tier, idx)
            for idx in level_sets(MAXLEV["crh"][tier])]
    out += [("profiles", "p2h", tier, n)
            for n in range(2, MAXLEV["p2h"][tier] + 1)]
    out += [("profiles", "refine", tier, t0, lapse)
            for t0 in REFINE_T0 for lapse in REFINE_LAPSE]
    return out


def layouts(nprofiles):
    for rank in (2, 3):
        for block in range(-(-nprofiles // NCOL[rank])):
            for pos in range(rank):
                for negative in (False, True):
                    for pform in P_FORMS:
                        yield rank, block, pos, negative, pform


def cases(shard):
    """-> (check name, args, non-trivial) for every case of the shard."""
    part = shard[1]
    if part == "isa":
        for i in range(len(ISA_P)):
            yield "isa", (i,), True
        for n in range(2, len(ISA_P) + 1):
            for sel in itertools.combinations(range(len(ISA_P)), n):
                yield "isa_default", (sel,), True
        for kind in ("linear", "log"):
            yield "isa_between", (kind,), True
            for t0 in T_P2H:
                for tform in T_FORMS:
                    yield "isothermal", (t0, kind, tform), True
    elif part == "iwv":
        idx = shard[3]
        profiles = iwv_profiles(len(idx))
        for vmr in profiles:
            yield "iwv", (idx, vmr), any(vmr)
        for layout in layouts(len(profiles)):
            yield ("iwvnd", (idx,) + layout, any(map(any, columns(
                profiles, layout[1], NCOL[layout[0]]))))
    elif part == "crh":
        idx = shard[3]
        profiles = crh_profiles(len(idx))
        for temps in profiles:
            yield "crh", (idx, temps), True
        for layout in layouts(len(profiles)):
            yield "crhnd", (idx,) + layout, True
    elif part == "p2h":
        for idx in itertools.combinations(range(len(P_NODES)), shard[3]):
            yield "p2h", (idx, None), len(idx) >= 3
            for temps in itertools.product(T_P2H, repeat=len(idx)):
                yield "p2h", (idx, temps), len(idx) >= 3
    elif part == "refine":
        for vmr0 in REFINE_VMR0:
            for decay in REFINE_DECAY:
                for kind in ("linear", "log"):
                    yield "refine", (shard[3], shard[4], vmr0, decay,
                                     kind), True


def run_check(name, args):
    try:
        return CHECKS[name](*args)
    except ex.Raised as e:
        return (e.key, None, e.text, "")


def run_case(case):
    return run_check(case["check"], [
        tuple(a) if isinstance(a, list) else a for a in case["args"]])


def run_shard(shard):
    res = driver.ShardResult()
    case = None
    for name, args, nontrivial in cases(shard):
        case = dict(part="profiles", check=name, args=args)
        res.case(nontrivial=nontrivial)
        res.count("profile_cases_" + name)
        bad = run_check(name, args)
        if bad is not None:
            again = run_check(name, args)
            if again is None or again[0] != bad[0]:
                res.error("NONDETERMINISM in %r" % (case,))
            res.violation(bad[0], case, bad[1], bad[2], bad[3])
    res.sample(case)
    return res
