"""C08, part "optics": snell() and fresnel() over an n1 x n2 x theta lattice
(real n1; real, complex-with-zero-imaginary-part and complex n2; incidence
0..90 degrees incl. the Brewster angle and both sides of the critical angle).

References in numpy.longdouble. For a real-valued n2 the stated invariant
n1 sin(theta1) = n2 sin(theta2) is re-evaluated on the returned angle. For an
absorbing medium the invariant is read as phase matching along the surface:
the returned real angle must be that of the planes of constant phase,
tan(theta2) = n1 sin(theta1) / Re sqrt(n2^2 - n1^2 sin^2(theta1))
(Born & Wolf 14.2; algebraically identical to the closed form of Liou quoted
by the docstring, but evaluated through a complex square root).
"""
import numpy as np

LD = np.longdouble
CLD = np.clongdouble
EPS = 2.0 ** -52
K = 16
PI = 4 * np.arctan(LD(1))
BAND = 1e-9                 # no lattice point this close to the critical angle
BREWSTER_TOL = 1e-12        # DESIGN C08


def n2_values(tier):
    """(re, im, kind); kind 'complex' with im == 0 is the zero-imaginary
    complex scalar."""
    real = [1.0, 1.5, 0.8]
    zero = [3.0, 0.8]
    cplx = [(3.0, 0.5), (1.2, 2.0)]
    if tier == "thorough":
        real += [1.0003, 1.33, 4.0, 9.0]
        zero += [1.33]
        cplx += [(1.5, 1e-3), (9.0, 1.0), (0.5, 3.0)]
    return ([(r, 0.0, "float") for r in real]
            + [(r, 0.0, "complex") for r in zero]
            + [(r, i, "complex") for r, i in cplx])


def n1_values(tier):
    return [1.0, 1.33, 2.5] if tier == "quick" else [1.0, 1.0003, 1.33, 2.5]


def brewster(n1, re):
    return float(np.arctan(LD(re) / LD(n1)) * 180 / PI)


def thetas(tier, n1, n2):
    if tier == "quick":
        out = [0.0, 1e-6] + [10.0 * i for i in range(1, 9)] + [89.999, 90.0]
    else:
        out = [0.0, 1e-6] + [0.25 * i for i in range(1, 360)] + [89.999, 90.0]
    for re, im, _ in n2:
        if im == 0:
            out.append(brewster(n1, re))
    out = sorted(set(out))
    for re, im, _ in n2:
        for t in out:
            beyond_critical(n1, re, im, t)       # asserts the empty band
    return out


def sin_deg(theta):
    return np.sin(LD(theta) * PI / 180)


def beyond_critical(n1, re, im, theta):
    """Total reflection at a real-valued n2?  The lattice must keep clear of
    the critical angle itself (except n1 == n2, where theta2 = theta1)."""
    if im != 0 or n1 == re:
        return False
    y = LD(n1) * sin_deg(theta) / LD(re)
    assert abs(y - 1) > BAND, (n1, re, theta)
    return bool(y > 1)


def shards(tier):
    return [("optics", tier, n1, mode) for n1 in n1_values(tier)
            for mode in ("scalar", "theta-array", "n2-array")]


def cases(shard):
    _, tier, n1, mode = shard
    n2s = n2_values(tier)
    if mode == "scalar":
        for n2 in n2s:
            for t in thetas(tier, n1, [n2]):
                yield dict(part="optics", mode=mode, n1=n1, n2=[list(n2)],
                           theta=[t])
    elif mode == "theta-array":
        for n2 in n2s:
            yield dict(part="optics", mode=mode, n1=n1, n2=[list(n2)],
                       theta=thetas(tier, n1, [n2]))
    else:
        groups = [
            [n for n in n2s if n[2] == "float"],
            [n for n in n2s if n[2] == "complex" and n[1] == 0],
            [n for n in n2s if n[2] == "complex"],          # mixed
        ]
        for group in groups:
            for t in thetas(tier, n1, group):
                yield dict(part="optics", mode=mode, n1=n1,
                           n2=[list(n) for n in group], theta=[t])


def elements(case):
    return [(tuple(n2), t) for n2 in case["n2"] for t in case["theta"]]


def is_mixed(case):
    ims = [n[1] != 0 for n in case["n2"]]
    return any(ims) and not all(ims)


def nontrivial(case):
    """complex-typed n2, total reflection, or theta in {0, Brewster, 90}"""
    n1 = case["n1"]
    return any(kind == "complex" or beyond_critical(n1, re, im, t)
               or t in (0.0, 90.0) or (im == 0 and t == brewster(n1, re))
               for (re, im, kind), t in elements(case))


def arguments(case):
    def value(n):
        return complex(n[0], n[1]) if n[2] == "complex" else float(n[0])
    n2 = [value(n) for n in case["n2"]]
    if case["mode"] == "scalar":
        return case["n1"], n2[0], float(case["theta"][0])
    if case["mode"] == "theta-array":
        return case["n1"], n2[0], np.array(case["theta"], dtype=float)
    return case["n1"], np.array(n2), float(case["theta"][0])


def describe(n1, n2, theta):
    re, im, kind = n2
    return "n1=%r n2=%r theta1=%r" % (
        n1, complex(re, im) if kind == "complex" else re, theta)


def judge_snell(n1, n2, theta, got, mixed):
    re, im, _ = n2
    where = describe(n1, n2, theta)
    s1 = LD(n1) * sin_deg(theta)
    if im == 0:
        if beyond_critical(n1, re, im, theta):
            # inside an array that also holds absorbing media the element is
            # evaluated by the complex-index formula (grazing wave, 90 deg);
            # the statement does not say which of the two applies
            if not mixed and not np.isnan(got):
                return ("snell/no-nan-beyond-critical-angle", "nan", got,
                        where)
            return None
        tol = K * EPS * max(n1, re)
        if not (np.isfinite(got) and -1e-12 <= got <= 90 + 1e-12
                and abs(s1 - LD(re) * sin_deg(got)) <= tol):
            return ("snell/invariant", "n1 sin(theta1) = %.17g" % float(s1),
                    got, where + "; n2 sin(theta2) = %.17g"
                    % float(LD(re) * sin_deg(got)))
        return None
    q2 = CLD(complex(re, im)) ** 2 - s1 * s1
    qr = np.sqrt(q2).real
    ref = s1 / np.hypot(s1, qr)
    # Re sqrt(z) = sqrt((|z| + Re z) / 2) cancels for Re z < 0 in any
    # double-precision evaluation
    amp = 1 + 2 * abs(q2) / (abs(q2) + q2.real)
    if not (np.isfinite(got) and 0 <= got <= 90 + 1e-12
            and abs(sin_deg(got) - ref) <= K * EPS * amp):
        return ("snell/complex-n2-angle", float(np.arcsin(ref) * 180 / PI),
                got, where)
    return None


def judge_fresnel(n1, n2, theta, rv, rh):
    re, im, _ = n2
    where = describe(n1, n2, theta)
    obs = [complex(rv), complex(rh)]
    if np.isnan(rv) or np.isnan(rh):
        if beyond_critical(n1, re, im, theta):
            return ("fresnel/nan-beyond-critical-angle", "|Rv|, |Rh| <= 1",
                    obs, where)
        return ("fresnel/nan", "|Rv|, |Rh| <= 1", obs, where)
    if not (abs(rv) <= 1 + K * EPS and abs(rh) <= 1 + K * EPS):
        return ("fresnel/magnitude-above-1", "|Rv|, |Rh| <= 1", obs, where)
    if theta == 0 and not abs(abs(rv) - abs(rh)) <= K * EPS:
        return ("fresnel/normal-incidence", "|Rv| = |Rh|", obs, where)
    if im == 0 and theta == brewster(n1, re) \
            and not abs(rv) <= BREWSTER_TOL:
        return ("fresnel/brewster", "Rv = 0", obs, where)
    return None


def check(case):
    from typhon.physics import em
    n1, n2, theta = arguments(case)
    shape = np.broadcast(n2, theta).shape
    elems = elements(case)
    mixed = is_mixed(case)
    bad = {}
    results = {}
    for name in ("snell", "fresnel"):
        try:
            with np.errstate(all="ignore"):
                results[name] = getattr(em, name)(n1, n2, theta)
        except Exception as e:
            # fresnel calls snell: one root cause, one key
            return [("exception/%s/%s" % (name, type(e).__name__), None,
                     repr(e)[:200], "%s(%r, %r, %r)" % (name, n1, n2, theta))
                    ], 0
    parts = [results["snell"], results["fresnel"][0], results["fresnel"][1]]
    for name, p in zip(("snell", "fresnel", "fresnel"), parts):
        if np.shape(p) != shape:
            return [(name + "/result-shape", list(shape), list(np.shape(p)),
                     "%s(%r, %r, %r)" % (name, n1, n2, theta))], 0
    t2, rv, rh = (np.asarray(p).ravel() for p in parts)
    if np.iscomplexobj(t2):
        return [("snell/complex-result", "real angle", str(t2.dtype), "")], 0
    for i, (n2i, t) in enumerate(elems):
        for v in (judge_snell(n1, n2i, t, float(t2[i]), mixed),
                  judge_fresnel(n1, n2i, t, rv[i], rh[i])):
            if v is not None:
                bad.setdefault(v[0], v)
    return list(bad.values()), len(elems)
