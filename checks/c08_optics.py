"""C08, part "optics": snell() and fresnel() over an n1 x n2 x theta lattice
(real n1 as float or complex-typed; real, complex-with-zero-imaginary-part and
complex n2 with either sign of the imaginary part; incidence 0..90 degrees
incl. the Brewster angle and both sides of the critical angle), called with
every combination of scalar / array arguments listed in LAYOUT. The shards
"reps" hand whole-number n1, n2 and angles over in every other representation
of c08_reps, one argument at a time and all three together.

References in numpy.longdouble. For a real-valued n2 the stated invariant
n1 sin(theta1) = n2 sin(theta2) is re-evaluated on the returned angle. For an
absorbing medium the invariant is read as phase matching along the surface:
the returned real angle must be that of the planes of constant phase,
tan(theta2) = n1 sin(theta1) / Re sqrt(n2^2 - n1^2 sin^2(theta1))
(Born & Wolf 14.2; algebraically identical to the closed form of Liou quoted
by the docstring, but evaluated through a complex square root). That angle
does not depend on the sign of Im n2 (the sign only encodes the time
convention), so n2 and its conjugate have the same reference.
"""
import numpy as np

from checks import c08_reps as reps

LD = np.longdouble
CLD = np.clongdouble
K = 16
PI = 4 * np.arctan(LD(1))
BAND = 1e-9                 # no lattice point this close to the critical angle
BREWSTER_TOL = 1e-12        # DESIGN C08
# mode -> form of (n1, n2, theta) in the call: None = scalar, "row" = (n,)
# array, "col" = (n, 1) array; the result has the broadcast shape
LAYOUT = {
    "scalar": (None, None, None),
    "theta-array": (None, None, "row"),
    "n2-array": (None, "row", None),
    "grid": (None, "col", "row"),
    "n1-array": ("row", None, None),
    "n1-n2-arrays": ("row", "row", None),
    "n1-column": ("col", None, "row"),
}
N1_TYPES = ("float", "complex")     # complex = complex-typed, zero imaginary
WHOLE_N1, WHOLE_N2 = (1.0, 2.0), (1.0, 2.0, 3.0)
# n1 = 2 -> n2 = 1 has its critical angle at 30 degrees
WHOLE_THETA = {"quick": (0.0, 20.0, 45.0, 60.0, 90.0),
               "thorough": (0.0, 10.0, 20.0, 40.0, 45.0, 60.0, 80.0, 90.0)}


def n2_values(tier):
    """(re, im, kind); kind 'complex' with im == 0 is the zero-imaginary
    complex scalar."""
    real = [1.0, 1.5, 0.8]
    zero = [3.0, 0.8]
    cplx = [(3.0, 0.5), (1.2, 2.0), (3.0, -0.5), (1.2, -2.0)]
    if tier == "thorough":
        real += [1.0003, 1.33, 4.0, 9.0]
        zero += [1.33]
        cplx += [(1.5, 1e-3), (9.0, 1.0), (0.5, 3.0), (1.5, -1e-3)]
    return ([(r, 0.0, "float") for r in real]
            + [(r, 0.0, "complex") for r in zero]
            + [(r, i, "complex") for r, i in cplx])


def n1_values(tier):
    return [1.0, 1.33, 2.5] if tier == "quick" else [1.0, 1.0003, 1.33, 2.5]


def brewster(n1, re):
    return float(np.arctan(LD(re) / LD(n1)) * 180 / PI)


def thetas(tier, n1s, n2):
    """Incidence angles for calls combining each of n1s with each of n2."""
    if tier == "quick":
        out = [0.0, 1e-6] + [10.0 * i for i in range(1, 9)] + [89.999, 90.0]
    else:
        out = [0.0, 1e-6] + [0.25 * i for i in range(1, 360)] + [89.999, 90.0]
    pairs = [(n1, re, im) for n1 in n1s for re, im, _ in n2]
    out += [brewster(n1, re) for n1, re, im in pairs if im == 0]
    out = sorted(set(out))
    for n1, re, im in pairs:
        for t in out:
            beyond_critical(n1, re, im, t)       # asserts the empty band
    return out


def sin_deg(theta):
    return np.sin(LD(theta) * PI / 180)


def beyond_critical(n1, re, im, theta):
    """Total reflection at a real-valued n2?  The lattice must keep clear of
    the critical angle itself (except n1 == n2, where theta2 = theta1)."""
    if im != 0 or n1 == re:
        return False
    y = LD(n1) * sin_deg(theta) / LD(re)
    assert abs(y - 1) > BAND, (n1, re, theta)
    return bool(y > 1)


def shards(tier):
    """Scalar-n1 modes: one shard per n1; n1-array modes: all n1 at once."""
    return [("optics", tier, n1type, n1, mode)
            for n1type in N1_TYPES for mode, layout in LAYOUT.items()
            for n1 in (n1_values(tier) if layout[0] is None else [None])] + \
        [("optics", tier, "reps", rep, mode) for rep in reps.REPS
         for mode in LAYOUT]


def n2_groups(n2s):
    """The n2 arrays: real, zero-imaginary complex, complex holding zero and
    positive imaginary parts (mixed), complex with negative imaginary part."""
    return [[n for n in n2s if n[2] == "float"],
            [n for n in n2s if n[2] == "complex" and n[1] == 0],
            [n for n in n2s if n[2] == "complex" and n[1] >= 0],
            [n for n in n2s if n[1] < 0]]


def n1_sets(mode, n1s, n2):
    if mode == "n1-n2-arrays":      # element-wise pairs, every rotation
        return [[n1s[(i + rot) % len(n1s)] for i in range(len(n2))]
                for rot in range(len(n1s))]
    return [n1s] if LAYOUT[mode][0] else [[n] for n in n1s]


def rep_cases(tier, rep, mode):
    layout = LAYOUT[mode]
    thetas = list(WHOLE_THETA[tier])
    n2s = [(n, 0.0, "float") for n in WHOLE_N2]
    for n1 in WHOLE_N1:
        for n2 in WHOLE_N2:
            for t in thetas:
                beyond_critical(n1, n2, 0.0, t)      # asserts the empty band
    for where in ((0,), (1,), (2,), (0, 1, 2)):
        if rep == "int" and any(layout[i] for i in where):
            continue                # a list of Python ints is an int64 array
        for n2 in ([n2s] if layout[1] else [[n] for n in n2s]):
            for n1_set in n1_sets(mode, list(WHOLE_N1), n2):
                for theta in ([thetas] if layout[2] else
                              [[t] for t in thetas]):
                    yield dict(part="optics", mode=mode, n1type="float",
                               n1=n1_set, n2=[list(n) for n in n2],
                               theta=theta,
                               reps=[rep if i in where else None
                                     for i in range(3)])


def cases(shard):
    _, tier, n1type, n1, mode = shard
    if n1type == "reps":
        yield from rep_cases(tier, n1, mode)
        return
    layout = LAYOUT[mode]
    n1s = n1_values(tier) if n1 is None else [n1]
    n2s = n2_values(tier)
    for n2 in (n2_groups(n2s) if layout[1] else [[n] for n in n2s]):
        ts = thetas(tier, n1s, n2)
        for n1_set in (n1_sets(mode, n1s, n2) if layout[0] else [n1s]):
            for theta in ([ts] if layout[2] else [[t] for t in ts]):
                yield dict(part="optics", mode=mode, n1type=n1type,
                           n1=n1_set, n2=[list(n) for n in n2], theta=theta,
                           reps=[None, None, None])


def shaped(values, form):
    if form is None:
        return values[0]
    arr = np.array(values)
    return arr if form == "row" else arr[:, None]


def elements(case):
    """(n1, n2, theta) of every element of the result, in C order."""
    names = ("n1", "n2", "theta")
    index = [shaped(list(range(len(case[name]))), form)
             for name, form in zip(names, LAYOUT[case["mode"]])]
    return [(case["n1"][i], tuple(case["n2"][j]), case["theta"][k])
            for i, j, k in zip(*(np.ravel(a) for a in
                                 np.broadcast_arrays(*index)))]


def is_mixed(case):
    ims = [n[1] != 0 for n in case["n2"]]
    return any(ims) and not all(ims)


def nontrivial(case):
    """complex-typed n2, total reflection, or theta in {0, Brewster, 90}"""
    return any(kind == "complex" or beyond_critical(n1, re, im, t)
               or t in (0.0, 90.0) or (im == 0 and t == brewster(n1, re))
               for n1, (re, im, kind), t in elements(case))


def arguments(case):
    n1 = [complex(v, 0.0) if case["n1type"] == "complex" else float(v)
          for v in case["n1"]]
    n2 = [complex(n[0], n[1]) if n[2] == "complex" else float(n[0])
          for n in case["n2"]]
    theta = [float(t) for t in case["theta"]]
    given = [[reps.scalar(v, r) for v in values] if r else values
             for values, r in zip((n1, n2, theta), case["reps"])]
    return tuple(shaped(v, form)
                 for v, form in zip(given, LAYOUT[case["mode"]]))


def describe(n1, n2, theta):
    re, im, kind = n2
    return "n1=%r n2=%r theta1=%r" % (
        n1, complex(re, im) if kind == "complex" else re, theta)


def judge_snell(n1, n2, theta, got, mixed, eps):
    re, im, _ = n2
    where = describe(n1, n2, theta)
    s1 = LD(n1) * sin_deg(theta)
    if im == 0:
        if beyond_critical(n1, re, im, theta):
            # inside an array that also holds absorbing media the element is
            # evaluated by the complex-index formula (grazing wave, 90 deg);
            # the statement does not say which of the two applies
            if not mixed and not np.isnan(got):
                return ("snell/no-nan-beyond-critical-angle", "nan", got,
                        where)
            return None
        tol = K * eps * max(n1, re)
        slack = max(1e-12, 90 * K * eps)     # rad2deg in single precision
        if not (np.isfinite(got) and -slack <= got <= 90 + slack
                and abs(s1 - LD(re) * sin_deg(got)) <= tol):
            return ("snell/invariant", "n1 sin(theta1) = %.17g" % float(s1),
                    got, where + "; n2 sin(theta2) = %.17g"
                    % float(LD(re) * sin_deg(got)))
        return None
    q2 = CLD(complex(re, im)) ** 2 - s1 * s1
    qr = np.sqrt(q2).real
    ref = s1 / np.hypot(s1, qr)
    # Re sqrt(z) = sqrt((|z| + Re z) / 2) cancels for Re z < 0 in any
    # double-precision evaluation
    amp = 1 + 2 * abs(q2) / (abs(q2) + q2.real)
    if not (np.isfinite(got) and 0 <= got <= 90 + 1e-12
            and abs(sin_deg(got) - ref) <= K * eps * amp):
        return ("snell/complex-n2-angle", float(np.arcsin(ref) * 180 / PI),
                got, where)
    return None


def judge_fresnel(n1, n2, theta, rv, rh, eps):
    re, im, _ = n2
    where = describe(n1, n2, theta)
    obs = [complex(rv), complex(rh)]
    if np.isnan(rv) or np.isnan(rh):
        if beyond_critical(n1, re, im, theta):
            return ("fresnel/nan-beyond-critical-angle", "|Rv|, |Rh| <= 1",
                    obs, where)
        return ("fresnel/nan", "|Rv|, |Rh| <= 1", obs, where)
    if not (abs(rv) <= 1 + K * eps and abs(rh) <= 1 + K * eps):
        return ("fresnel/magnitude-above-1", "|Rv|, |Rh| <= 1", obs, where)
    if theta == 0 and not abs(abs(rv) - abs(rh)) <= K * eps:
        return ("fresnel/normal-incidence", "|Rv| = |Rh|", obs, where)
    if im == 0 and theta == brewster(n1, re) \
            and not abs(rv) <= max(BREWSTER_TOL, K * eps):
        return ("fresnel/brewster", "Rv = 0", obs, where)
    return None


def call(name, case, args, shape):
    """(flat arrays of the values returned, None) or (None, violation). A
    fresnel that rejects Im n2 < 0 yields no values."""
    from typhon.physics import em
    where = "%s%r" % (name, args)
    try:
        with np.errstate(all="ignore"):
            out = getattr(em, name)(*args)
    except Exception as e:
        if name == "fresnel" and type(e) in (Exception, ValueError) \
                and any(n[1] < 0 for n in case["n2"]):
            return [], None
        key = "exception/%s/%s" % (name, type(e).__name__)
        if case["n1type"] == "complex":
            key += "/complex-typed-n1"
        return None, (key, None, repr(e)[:200], where)
    if name == "snell":
        out = (out,)
    elif not (isinstance(out, tuple) and len(out) == 2):
        return None, ("fresnel/not-a-pair", "(Rv, Rh)", repr(out)[:100], where)
    for p in out:
        if np.shape(p) != shape:
            return None, (name + "/result-shape", list(shape),
                          list(np.shape(p)), where)
    return [np.asarray(p).ravel() for p in out], None


def check(case):
    bad, judged = refract(case)
    return reps.tagged(bad, *case["reps"]), judged


def refract(case):
    args = arguments(case)
    shape = np.broadcast(*args).shape
    angle, exc = call("snell", case, args, shape)
    if exc:
        return [exc], 0
    if np.iscomplexobj(angle[0]):
        return [("snell/complex-result", "real angle", str(angle[0].dtype),
                 "")], 0
    coeffs, exc = call("fresnel", case, args, shape)
    if exc:
        return [exc], 0
    elems = elements(case)
    mixed = is_mixed(case)
    # NumPy's deg2rad / sin evaluate an int16 argument in single precision
    eps = reps.eps(*("float32" if r == "int16" else r for r in case["reps"]))
    bad = {}
    for i, (n1, n2, t) in enumerate(elems):
        found = [judge_snell(n1, n2, t, float(angle[0][i]), mixed, eps)]
        if coeffs:
            found.append(judge_fresnel(n1, n2, t, coeffs[0][i], coeffs[1][i],
                                       eps))
        for v in found:
            if v is not None:
                bad.setdefault(v[0], v)
    return list(bad.values()), len(elems)
