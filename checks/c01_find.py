"""C01 - FileSet.find returns exactly the overlapping files (DESIGN.md 3, C01).

Templates x windows x populations x every query period on the window lattice
(+1 us shifted) x option deviations; oracle = brute-force filter over the
harness' own file list (names created by mc/fsbuild.render, meaning read back
by the reference parser)."""
import datetime as dt
import itertools
import os
import sys

from mc import driver, fsbuild
driver.setup_env()
from checks import fs_lattice as L

PROP = "C01"
LEVEL = "exploration"
RULE = ("18 templates (flat, year dir, y/m/d, y/doy, year2/doy, y/m/d/h, "
        "fixed dir between temporal ones, user placeholder as dir / in file "
        "/ as dir below the day, wildcard+time_coverage, time_coverage "
        "without wildcard, discrete, full end under day dirs, month as "
        "finest dir, `*` as a dir level, template relative to the working "
        "directory, two user placeholders) + a single-file fileset x 3 "
        "windows (year end into a leap year, leap day, ordinary midnight; "
        "quick: the last four templates in one window each) x populations "
        "(whole pool of 7-10 files, the empty population in existing empty "
        "directories, every single file; thorough: every pair and triple) x "
        "every query (s<e) on the window's 6 h (20 min) lattice, each also "
        "shifted by +1 us, open/both-open/before/"
        "after periods, `in` for periods; `t in fileset` for every lattice "
        "instant and, per file, t0, t1, 1 us and one name unit before t0 / "
        "after t1 (these also as period (t, t+1us)); len(). Option deviations "
        "on the whole pool: sort, only_path, no_files_error=False, bundle by "
        "count/frequency, white / black / white-and-black filters (on one or "
        "both user placeholders), exclusion by name / one / two / three "
        "periods, FileSet reused with warm info cache - each on every "
        "(s<e)/open/before/after query; on adjacent lattice pairs and the "
        "open/before/after periods only: queries spelled as full ISO string / "
        "shortest documented string / pandas.Timestamp / numpy.datetime64, "
        "an excluded period given as strings, and exclusion set, changed and "
        "reset on a live FileSet object between queries; one FileSet object "
        "primed by earlier unfiltered and differently filtered queries. One "
        "deviation at a time plus {sort=False, no_files_error=False} x bundle "
        "by frequency on the adjacent/open queries (quick), "
        "all pairs (thorough); thorough adds a zip file system (default "
        "options, and filters for user-placeholder templates). Non-trivial = "
        "the query selects a non-empty proper subset of the population or an "
        "end point of the query coincides with a file boundary; a membership "
        "question for an instant is non-trivial when a file covers the "
        "instant or the instant lies 1 us / one name unit outside a file's "
        "coverage; cases are distinct by construction.")
ASSUMPTIONS = [
    "each file sits in the directory of its start and lasts at most one "
    "period of the finest directory level (built into the generator; at "
    "most 4 days under month directories)",
    "dates 1965-2064; whole minutes (seconds for the hour-level template)",
    "excluded periods have end points that never coincide with a file "
    "boundary (touching is left open by the statement)",
    "black-list values are not prefixes of other values (documented regex "
    "semantics)",
    "start < end (typhon documents a ValueError for an empty period, and the "
    "statement's overlap rule is not meant for one); len() of an empty "
    "fileset may be 0 or NoFilesError",
    "the item type under only_path is not judged (str and FileInfo are "
    "compared by path; the statement does not fix it)",
    "a black-list entry for a placeholder that the template does not have "
    "is not enumerated (the statement does not say whether it is an error)",
    "the relative template is used with the working directory unchanged "
    "between construction and queries",
    "FileSet.to_dataframe is not checked (not part of the statement)",
]

# templates that the quick tier runs in one window only
QUICK_WINDOWS = {"month": ("leapday",), "wilddir": ("midnight",),
                 "relative": ("midnight",), "satver": ("midnight",)}

# ------------------------------------------------------------------ oracle

def overlaps(f, s, e):
    return (e is None or f.t0 < e) and (s is None or f.t1 >= s)


def expected(files, s, e, opts):
    sel = [f for f in files if overlaps(f, s, e) and L.passes(f, opts)]
    return sorted(sel, key=lambda f: (f.t0, f.t1))


def bin_of(t, freq):
    if freq == "6h":
        return t.replace(hour=t.hour // 6 * 6, minute=0, second=0,
                         microsecond=0)
    if freq == "1D":
        return t.replace(hour=0, minute=0, second=0, microsecond=0)
    if freq == "1h":
        return t.replace(minute=0, second=0, microsecond=0)
    raise ValueError(freq)


# ------------------------------------------------------------------ options

# An option entry is (label, find-kwargs, fileset-kwargs, oracle-opts). Keys
# of the fileset-kwargs that start with "_" are directions for the harness:
#   _reuse     one FileSet object answers all queries of the entry
#   _steps     calls made on that object before the judged queries
#   _spell     the type in which start and end are handed over (L.spell)
#   _adjacent  judged on adjacent lattice pairs and open periods only

ADJACENT = ("adjacent", {}, dict(_adjacent=True), {})


def filter_entries(spec):
    out = []
    if spec.get("sat"):
        out += [
            ("white=A", {"sat": "A"}, dict(white={"sat": ["A"]})),
            ("white=[A,B]", {"sat": ["A", "B"]},
             dict(white={"sat": ["A", "B"]})),
            ("white=B", {"sat": "B"}, dict(white={"sat": ["B"]})),
            ("black=A", {"!sat": "A"}, dict(black={"sat": ["A"]})),
            ("black=[B]", {"!sat": ["B"]}, dict(black={"sat": ["B"]})),
            ("white=[A,B]&black=A", {"sat": ["A", "B"], "!sat": "A"},
             dict(white={"sat": ["A", "B"]}, black={"sat": ["A"]})),
        ]
    if spec.get("ver"):
        out += [
            ("black=ver2", {"!ver": "2"}, dict(black={"ver": ["2"]})),
            ("black=B&ver2", {"!sat": "B", "!ver": "2"},
             dict(black={"sat": ["B"], "ver": ["2"]})),
            ("white=A&black=ver2", {"sat": "A", "!ver": "2"},
             dict(white={"sat": ["A"]}, black={"ver": ["2"]})),
            ("white=ver[1,2]&black=A", {"ver": ["1", "2"], "!sat": ["A"]},
             dict(white={"ver": ["1", "2"]}, black={"sat": ["A"]})),
        ]
    return [(label, dict(filters=flt), {}, opts) for label, flt, opts in out]


def periods_of(tname, lat):
    """Excluded periods whose end points lie 7 name units off the lattice."""
    off = 7 * L.MIN if tname != "ymdh" else 7 * dt.timedelta(seconds=1)
    q = len(lat) // 4
    small = (lat[q] + off, lat[q + 1] + off)
    big = (lat[1] + off, lat[-2] + off)
    other = (lat[3 * q] + off, lat[3 * q] + 2 * off)
    # touching periods (one ends exactly where the next starts) and a chain
    # of three: the shapes an interval tree distinguishes
    nxt = (small[1], small[1] + (small[1] - small[0]))
    third = (nxt[1], nxt[1] + (small[1] - small[0]))
    return small, big, other, nxt, third


def option_menu(tname, files, lat):
    """Deviations from the default call."""
    menu = [
        ("sort=False", dict(sort=False), {}, {}),
        ("only_path", dict(only_path=True), {}, {}),
        ("no_files_error=False", dict(no_files_error=False), {}, {}),
        ("bundle=1", dict(bundle=1), {}, {}),
        ("bundle=2", dict(bundle=2), {}, {}),
        ("bundle=3", dict(bundle=3), {}, {}),
        ("bundle=6h" if tname != "ymdh" else "bundle=1h",
         dict(bundle="6h" if tname != "ymdh" else "1h"), {}, {}),
        ("bundle=1D", dict(bundle="1D"), {}, {}),
    ]
    menu += filter_entries(L.TEMPLATES[tname])
    if files:
        name = files[len(files) // 2].path
        menu.append(("exclude-name", {}, dict(exclude=[name]),
                     dict(exclude_names=[name])))
    small, big, other, nxt, third = periods_of(tname, lat)
    menu += [
        ("exclude-2-touching", {}, dict(exclude=[small, nxt]),
         dict(exclude_periods=[small, nxt])),
        ("exclude-3-chain", {}, dict(exclude=[nxt, third, small]),
         dict(exclude_periods=[small, nxt, third])),
        ("exclude-zero-length", {}, dict(exclude=[(small[0], small[0]), nxt]),
         dict(exclude_periods=[(small[0], small[0]), nxt])),
        ("exclude-1-period", {}, dict(exclude=[small]),
         dict(exclude_periods=[small])),
        ("exclude-covering-period", {}, dict(exclude=[big]),
         dict(exclude_periods=[big])),
        ("exclude-2-disjoint", {}, dict(exclude=[small, other]),
         dict(exclude_periods=[small, other])),
        ("exclude-2-nested", {}, dict(exclude=[big, small]),
         dict(exclude_periods=[big, small])),
        ("exclude-period-as-strings", {},
         dict(exclude=[(L.spell(small[0], "iso"), L.spell(small[1], "short"))],
              _adjacent=True), dict(exclude_periods=[small])),
        ("reuse", {}, dict(_reuse=True), {}),
    ]
    menu += [("spell=" + how, {}, dict(_spell=how, _adjacent=True), {})
             for how in L.SPELLINGS]
    return menu


def query_histories(tname, files, lat):
    """Option sets that are judged on ONE long-lived FileSet object which has
    answered other queries or was reconfigured before (`_steps`). What an
    earlier query cached must not leak into a later one, and the exclusion
    in force is the one set last."""
    everything = ("find", None)
    steps = [everything]
    if L.TEMPLATES[tname].get("sat"):
        steps += [("find", {"sat": "A"}), ("find", {"sat": "B"})]
    primed = ("primed", {}, dict(_reuse=True, _steps=tuple(steps)), {})
    out = [(primed,)]
    # followed by each white / black filter on the first user placeholder
    for entry in filter_entries(L.TEMPLATES[tname])[:4]:
        out.append((primed, entry))
    small = periods_of(tname, lat)[0]
    live = dict(_reuse=True, _adjacent=True)
    if files:
        name = files[len(files) // 2].path
        out += [
            (("find;exclude_files", {}, dict(live, _steps=(
                everything, ("exclude_files", [name]))),
              dict(exclude_names=[name])),),
            (("exclude-name;find;exclude_files([])", {}, dict(
                live, exclude=[name], _steps=(
                    everything, ("exclude_files", []))), {}),),
        ]
    out += [
        (("find;exclude_times", {}, dict(live, _steps=(
            everything, ("exclude_times", [small]))),
          dict(exclude_periods=[small])),),
        (("exclude-period;find;exclude_times(None)", {}, dict(
            live, exclude=[small], _steps=(
                everything, ("exclude_times", None))), {}),),
    ]
    return out


def apply_steps(fs, steps):
    """Earlier calls on the same object (the answers of the finds are not
    judged here)."""
    for method, arg in steps:
        if method == "find":
            list(fs.find(filters=arg, no_files_error=False))
        else:
            getattr(fs, method)(arg)


def combine(devs):
    """Merges a tuple of option entries; None if they are incompatible."""
    find_kw, fs_kw, opts, labels = {}, {}, {}, []
    for label, fk, sk, oo in devs:
        for k, v in fk.items():
            if k in find_kw:
                return None
            find_kw[k] = v
        for k, v in sk.items():
            if k == "exclude" and "exclude" in fs_kw:
                if any(isinstance(x, str) for x in v) == any(
                        isinstance(x, str) for x in fs_kw["exclude"]):
                    return None          # two name / two period entries
                fs_kw["exclude"] = fs_kw["exclude"] + v
            elif k in ("_reuse", "_adjacent"):
                fs_kw[k] = True
            elif k in fs_kw:
                return None
            else:
                fs_kw[k] = v
        for k, v in oo.items():
            if k in opts:
                return None
            opts[k] = v
        labels.append(label)
    return "+".join(labels) or "default", find_kw, fs_kw, opts


# ------------------------------------------------------------------ queries

def queries(lat, with_shift=True):
    out = []
    for i, s in enumerate(lat):
        for e in lat[i + 1:]:
            out.append((s, e))
            if with_shift:
                out.append((s + L.US, e + L.US))
    return out + open_queries(lat)


def open_queries(lat):
    return [(None, lat[len(lat) // 2]), (lat[len(lat) // 2], None),
            (None, None),
            (lat[0] - dt.timedelta(days=800), lat[0] - dt.timedelta(days=790)),
            (lat[-1] + dt.timedelta(days=790),
             lat[-1] + dt.timedelta(days=800))]


def adjacent_queries(lat):
    return list(zip(lat, lat[1:])) + open_queries(lat)


def near_instants(tname, files):
    """The ends of every file and the instants 1 us and one name unit outside
    them."""
    unit = dt.timedelta(seconds=1) if tname == "ymdh" else L.MIN
    near = set()
    for f in files:
        near.update((f.t0 - unit, f.t0 - L.US, f.t0, f.t1, f.t1 + L.US,
                     f.t1 + unit))
    return sorted(near)


# ------------------------------------------------------------------ running

def do_find(fs, s, e, find_kw, how=None):
    from typhon.files.fileset import NoFilesError
    kw = dict(find_kw)
    if s is not None:
        kw["start"] = L.spell(s, how)
    if e is not None:
        kw["end"] = L.spell(e, how)
    try:
        return list(fs.find(**kw))
    except NoFilesError:
        return []


def judge_find(got, exp, find_kw, base=None):
    """None or (key, expected, observed). Relative paths in the answer are
    read relative to the directory `base`."""
    def path_of(x):
        return os.path.join(base, os.fspath(x)) if base else os.fspath(x)
    exp_paths = [f.path for f in exp]
    bundle = find_kw.get("bundle")
    if bundle is not None:
        if any(not isinstance(b, list) for b in got):
            return ("find/bundle-not-a-list", exp_paths, repr(got)[:300])
        if any(len(b) == 0 for b in got):
            return ("find/bundle-empty", exp_paths,
                    [[path_of(x) for x in b] for b in got])
        flat = [x for b in got for x in b]
    else:
        flat = got
    got_paths = [path_of(x) for x in flat]
    if sorted(got_paths) != sorted(exp_paths):
        gs, es = set(got_paths), set(exp_paths)
        if len(gs) != len(got_paths):
            key = "find/duplicate-file"
        elif es - gs and gs - es:
            key = "find/wrong-files"
        elif es - gs:
            key = "find/missing-file"
        else:
            key = "find/extra-file"
        return (key, exp_paths, got_paths)
    if find_kw.get("sort", True) or bundle is not None:
        by = {f.path: (f.t0, f.t1) for f in exp}
        keys = [by[p] for p in got_paths]
        if keys != sorted(keys):
            if find_kw.get("sort", True):
                return ("find/order", exp_paths, got_paths)
            return ("find/bundles-unordered-under-sort=False", exp_paths,
                    got_paths)
        for x in flat:
            if hasattr(x, "times") and tuple(x.times) != by[path_of(x)]:
                return ("find/fileinfo-times", by[path_of(x)], list(x.times))
    if bundle is not None:
        by = {f.path: f for f in exp}
        if isinstance(bundle, int):
            sizes = [len(b) for b in got]
            ok = all(n == bundle for n in sizes[:-1]) and \
                (not sizes or 1 <= sizes[-1] <= bundle)
            if not ok:
                return ("find/bundle-size", bundle, sizes)
        else:
            bins = [[bin_of(by[path_of(x)].t0, bundle) for x in b]
                    for b in got]
            if any(len(set(b)) != 1 for b in bins):
                return ("find/bundle-mixes-frequency-bins", bundle,
                        [[str(t) for t in b] for b in bins])
            firsts = [b[0] for b in bins]
            if len(set(firsts)) != len(firsts):
                return ("find/bundle-splits-frequency-bin", bundle,
                        [str(t) for t in firsts])
    return None


def check_population(res, root, tname, wname, files, qs, lat, option_sets,
                     casebase):
    """Runs all queries for every option set on one population."""
    boundaries = set()
    for f in files:
        boundaries.update((f.t0, f.t1))
    template = L.TEMPLATES[tname]["rel"]
    base = root if L.TEMPLATES[tname].get("relative") else None
    for devs in option_sets:
        comb = combine(devs)
        if comb is None:
            continue
        label, find_kw, fs_kw, opts = comb
        fs_kw = dict(fs_kw)
        reuse = fs_kw.pop("_reuse", False)
        steps = fs_kw.pop("_steps", ())
        how = fs_kw.pop("_spell", None)
        mine = adjacent_queries(lat) if fs_kw.pop("_adjacent", False) else qs
        fs = None
        for s, e in mine:
            exp = expected(files, s, e, opts)
            nt = (0 < len(exp) < len(files)) or s in boundaries \
                or e in boundaries
            res.case(nontrivial=nt)
            case = dict(casebase, options=label, start=s, end=e,
                        template=template)
            if fs is None or not reuse:
                fs, stage = None, "constructor"
                try:
                    fs = L.make_fileset(root, tname, **fs_kw)
                    stage = "history"
                    apply_steps(fs, steps)
                except Exception as exc:
                    L.not_the_watchdog(exc)
                    res.violation("%s/exception/%s" % (
                        stage, type(exc).__name__), case,
                        [f.path for f in exp], repr(exc)[:300])
                    fs = None
                    continue
            try:
                got = do_find(fs, s, e, find_kw, how)
                bad = judge_find(got, exp, find_kw, base)
            except Exception as exc:
                L.not_the_watchdog(exc)
                bad = ("find/exception/" + type(exc).__name__,
                       [f.path for f in exp], repr(exc)[:300])
            if bad is None and label == "default" and s is not None \
                    and e is not None:
                try:
                    inside = (s, e) in fs
                except Exception as exc:
                    L.not_the_watchdog(exc)
                    inside = repr(exc)[:200]
                if inside is not bool(exp):
                    bad = ("contains/period", bool(exp), inside)
            if bad is not None:
                res.violation(bad[0], case, bad[1], bad[2])
    if casebase["kind"] != "pop":
        return
    # membership of instants and len() with default options
    try:
        fs = L.make_fileset(root, tname)
    except Exception as exc:
        L.not_the_watchdog(exc)
        res.violation("constructor/exception/" + type(exc).__name__,
                      dict(casebase, options="in"), None, repr(exc)[:300])
        return
    near = near_instants(tname, files)
    questions = [(t, t) for t in sorted(set(lat).union(near))] + \
        [(t, (t, t + L.US)) for t in near]
    for t, item in questions:
        exp = any(f.t0 <= t <= f.t1 for f in files)
        res.case(nontrivial=exp or t in near)
        try:
            got = item in fs
        except Exception as exc:
            L.not_the_watchdog(exc)
            got = repr(exc)[:200]
        if got is not exp:
            res.violation(
                "contains/instant" if item is t else "contains/instant+1us",
                dict(casebase, instant=t, options="in"), exp, got)
    res.case(nontrivial=True)
    try:
        n = len(fs)
    except Exception as exc:
        L.not_the_watchdog(exc)
        n = -1 if type(exc).__name__ == "NoFilesError" else repr(exc)[:200]
    if n == -1 and not files:
        n = 0
    if n != len(files):
        res.violation("len",
                      dict(casebase, options="len"), len(files), n)


def shards(tier, seed):
    out = []
    maxsize = 1 if tier == "quick" else 3
    for tname in L.TEMPLATES:
        wnames = QUICK_WINDOWS.get(tname, L.WINDOWS) if tier == "quick" \
            else L.WINDOWS
        for wname in wnames:
            n = len(L.pool(tname, wname))
            pops = list(L.populations(n, maxsize))
            chunk = 12
            for i in range(0, len(pops), chunk):
                out.append(("pop", tier, tname, wname, pops[i:i + chunk]))
            nchunks = 2 if tier == "quick" else 12
            for c in range(nchunks):
                out.append(("opt", tier, tname, wname, c, nchunks))
        if tier == "thorough":
            out.append(("zip", tier, tname, "yearend"))
    out.append(("single", tier))
    return out


def option_sets(tier, tname, files, lat):
    menu = option_menu(tname, files, lat)
    pairs = itertools.combinations(menu, 2)
    if tier == "quick":
        # the pairs in which the first option selects another path into the
        # second
        pairs = [(a, b, ADJACENT) for a, b in pairs
                 if a[0] in ("sort=False", "no_files_error=False")
                 and isinstance(b[1].get("bundle"), str)]
    return menu, [(m,) for m in menu] + query_histories(tname, files, lat) \
        + list(pairs)


def run_shard(shard):
    res = driver.ShardResult()
    kind = shard[0]
    if kind == "single":
        return run_single(res)
    tier, tname, wname = shard[1:4]
    pl = L.pool(tname, wname)
    lat = L.lattice(tname, wname)
    root = driver.fresh_dir("c01")
    cwd = os.getcwd()            # the relative template changes it
    try:
        if kind == "pop":
            qs = queries(lat)
            for idx in shard[4]:
                sub = os.path.join(root, "p" + "_".join(map(str, idx)))
                files = L.materialise(sub, tname, [pl[i] for i in idx],
                                      dirs_only=() if idx else pl)
                check_population(res, sub, tname, wname, files, qs, lat, [()],
                                 dict(kind="pop", tname=tname, window=wname,
                                      population=idx))
            res.sample(dict(template=L.TEMPLATES[tname]["rel"], window=wname,
                            population=[pl[i][3] for i in idx],
                            queries=len(qs)))
        elif kind == "opt":
            sub = os.path.join(root, "all")
            files = L.materialise(sub, tname, pl)
            menu, sets = option_sets(tier, tname, files, lat)
            sets = sets[shard[4]::shard[5]]
            qs = queries(lat, with_shift=False)
            check_population(res, sub, tname, wname, files, qs, lat, sets,
                             dict(kind="opt", tname=tname, window=wname,
                                  population=list(range(len(pl)))))
            res.count("option_sets", len(sets))
            res.sample(dict(template=L.TEMPLATES[tname]["rel"], window=wname,
                            options=[m[0] for m in menu]))
        elif kind == "zip":
            run_zip(res, root, tname, wname, pl, lat)
    finally:
        os.chdir(cwd)
    return res


def run_zip(res, root, tname, wname, pl, lat):
    """The same whole-pool population inside a zip archive (fsspec): default
    options and every filter of the menu."""
    import zipfile
    from fsspec.implementations.zip import ZipFileSystem
    from typhon.files import FileSet
    spec = L.TEMPLATES[tname]
    arch = os.path.join(root, "pool.zip")
    files = []
    with zipfile.ZipFile(arch, "w") as z:
        for t0, t1, attrs, rel in pl:
            z.writestr("data/" + rel, b"")
            files.append(fsbuild.FileModel("data/" + rel, t0, t1,
                                           dict(attrs), rel))
    kw = {}
    if spec.get("tc") is not None:
        kw["time_coverage"] = spec["tc"]
    for label, find_kw, _, opts in [("default", {}, {}, {})] + \
            filter_entries(spec):
        for s, e in queries(lat, with_shift=False):
            exp = expected(files, s, e, opts)
            res.case(nontrivial=0 < len(exp) < len(files))
            res.count("zip_queries")
            try:
                fs = FileSet("data/" + spec["rel"], fs=ZipFileSystem(arch),
                             name="z", **kw)
                got = do_find(fs, s, e, find_kw)
                bad = judge_find(got, exp, find_kw)
            except Exception as exc:
                L.not_the_watchdog(exc)
                bad = ("find/exception/" + type(exc).__name__,
                       [f.path for f in exp], repr(exc)[:300])
            if bad is not None:
                res.violation("zip/" + bad[0],
                              dict(kind="zip", tname=tname, window=wname,
                                   options=label, start=s, end=e),
                              bad[1], bad[2])


def run_single(res):
    """Single-file fileset: coverage comes from time_coverage."""
    from typhon.files import FileSet
    root = driver.fresh_dir("c01s")
    path = os.path.join(root, "only.dat")
    fsbuild.touch(path)
    lat = L.lattice("ymd", "leapday")
    for cov in [(lat[3], lat[6]), (lat[4], lat[4]), None]:
        for s, e in queries(lat):
            c0, c1 = cov if cov else (dt.datetime.min, dt.datetime.max)
            exp = (e is None or c0 < e) and (s is None or c1 >= s)
            res.case(nontrivial=cov is not None)
            try:
                fs = FileSet(path, time_coverage=cov, name="single")
                got = do_find(fs, s, e, {})
                seen = [os.fspath(x) for x in got]
                ok = seen == ([path] if exp else [])
                if ok and exp and list(got[0].times) != [c0, c1]:
                    ok = False
            except Exception as exc:
                L.not_the_watchdog(exc)
                ok, seen = False, repr(exc)[:300]
            if not ok:
                res.violation("single/find", dict(kind="single", cov=cov,
                                                  start=s, end=e),
                              [path] if exp else [], seen)
    res.sample(dict(kind="single", coverage=[lat[3], lat[6]]))
    return res


def replay(case):
    res = driver.ShardResult()
    kind = case["kind"]
    if kind == "single":
        run_single(res)
    else:
        tname, wname = case["tname"], case["window"]
        pl = L.pool(tname, wname)
        lat = L.lattice(tname, wname)
        root = driver.fresh_dir("c01r")
        if kind == "zip":
            run_zip(res, root, tname, wname, pl, lat)
        else:
            idx = case["population"]
            files = L.materialise(root, tname, [pl[i] for i in idx],
                                  dirs_only=() if idx else pl)
            labels = case.get("options", "default")
            if labels in ("default", "in", "len"):
                sets = [()]
            else:
                by = {m[0]: m for m in option_menu(tname, files, lat)}
                by[ADJACENT[0]] = ADJACENT
                for h in query_histories(tname, files, lat):
                    for m in h:
                        by.setdefault(m[0], m)
                sets = [tuple(by[l] for l in labels.split("+"))]
            qs = queries(lat)
            check_population(res, root, tname, wname, files, qs, lat, sets,
                             dict(kind=kind, tname=tname, window=wname,
                                  population=idx))
    want = (case.get("start"), case.get("end"), case.get("options"))
    for v in res.violations:
        c = v["case"]
        if (c.get("start"), c.get("end"), c.get("options")) == want or \
                kind == "single":
            return dict(ok=False, key=v["key"], expected=v["expected"],
                        observed=v["observed"], case=c)
    return dict(ok=not res.violations, other_violations=len(res.violations))


if __name__ == "__main__":
    driver.main(sys.modules[__name__])
