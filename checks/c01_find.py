"""C01 - FileSet.find returns exactly the overlapping files (DESIGN.md 3, C01).

Templates x windows x populations x every query period on the window lattice
(+1 us shifted) x option deviations; oracle = brute-force filter over the
harness' own file list (names created by mc/fsbuild.render, meaning read back
by the reference parser)."""
import datetime as dt
import itertools
import os
import sys

from mc import driver, fsbuild
driver.setup_env()
from checks import fs_lattice as L

PROP = "C01"
LEVEL = "exploration"
RULE = ("14 templates (flat, year dir, y/m/d, y/doy, year2/doy, y/m/d/h, "
        "fixed dir between temporal ones, user placeholder as dir / in file "
        "/ as dir below the day, wildcard+time_coverage, time_coverage "
        "without wildcard, discrete, full end under day dirs) + a "
        "single-file fileset x 3 windows (year end into a leap year, leap "
        "day, ordinary midnight) x populations (whole pool of 7-9 files, "
        "every single file; thorough: every pair and triple) x every query "
        "(s<e) on the window's 6 h (20 min) lattice, each also shifted by "
        "+1 us, open/both-open/before/after periods, `in` for periods and "
        "every lattice instant, len(); option deviations (sort, only_path, "
        "bundle by count/frequency, white/black filters, exclusion by name / "
        "one / two periods, FileSet reused with warm info cache, and queries "
        "on a FileSet object primed by earlier unfiltered and differently "
        "filtered queries) on the whole "
        "pool: one at a time (quick), all pairs (thorough); thorough adds a "
        "zip file system. Non-trivial = the query selects a non-empty proper "
        "subset of the population or an end point of the query coincides "
        "with a file boundary; cases are distinct by construction.")
ASSUMPTIONS = [
    "each file sits in the directory of its start and lasts at most one "
    "period of the finest directory level (built into the generator)",
    "dates 1965-2064; whole minutes (seconds for the hour-level template)",
    "excluded periods have end points that never coincide with a file "
    "boundary (touching is left open by the statement)",
    "black-list values are not prefixes of other values (documented regex "
    "semantics)",
    "FileSet.to_dataframe is not checked (not part of the statement)",
]

BIG = dt.datetime(9999, 1, 1)


# ------------------------------------------------------------------ oracle

def overlaps(f, s, e):
    return (e is None or f.t0 < e) and (s is None or f.t1 >= s)


def passes(f, opts):
    if opts.get("exclude_names") and f.path in opts["exclude_names"]:
        return False
    for p0, p1 in opts.get("exclude_periods", ()):
        if f.t0 <= p1 and f.t1 >= p0:
            return False
    wl = opts.get("white")
    if wl is not None and f.attrs.get("sat") not in wl:
        return False
    bl = opts.get("black")
    if bl is not None and f.attrs.get("sat") in bl:
        return False
    return True


def expected(files, s, e, opts):
    sel = [f for f in files if overlaps(f, s, e) and passes(f, opts)]
    return sorted(sel, key=lambda f: (f.t0, f.t1))


def bin_of(t, freq):
    if freq == "6h":
        return t.replace(hour=t.hour // 6 * 6, minute=0, second=0,
                         microsecond=0)
    if freq == "1D":
        return t.replace(hour=0, minute=0, second=0, microsecond=0)
    if freq == "1h":
        return t.replace(minute=0, second=0, microsecond=0)
    raise ValueError(freq)


# ------------------------------------------------------------------ options

def option_menu(tname, files, lat):
    """Deviations from the default call; each is (label, find-kwargs,
    fileset-kwargs, oracle-opts)."""
    spec = L.TEMPLATES[tname]
    menu = [
        ("sort=False", dict(sort=False), {}, {}),
        ("only_path", dict(only_path=True), {}, {}),
        ("bundle=1", dict(bundle=1), {}, {}),
        ("bundle=2", dict(bundle=2), {}, {}),
        ("bundle=3", dict(bundle=3), {}, {}),
        ("bundle=6h" if tname != "ymdh" else "bundle=1h",
         dict(bundle="6h" if tname != "ymdh" else "1h"), {}, {}),
        ("bundle=1D", dict(bundle="1D"), {}, {}),
    ]
    if spec.get("sat"):
        menu += [
            ("white=A", dict(filters={"sat": "A"}), {}, dict(white=["A"])),
            ("white=[A,B]", dict(filters={"sat": ["A", "B"]}), {},
             dict(white=["A", "B"])),
            ("white=B", dict(filters={"sat": "B"}), {}, dict(white=["B"])),
            ("black=A", dict(filters={"!sat": "A"}), {}, dict(black=["A"])),
            ("black=[B]", dict(filters={"!sat": ["B"]}), {},
             dict(black=["B"])),
        ]
    if files:
        name = files[len(files) // 2].path
        menu.append(("exclude-name", {}, dict(exclude=[name]),
                     dict(exclude_names=[name])))
    off = 7 * L.MIN if tname != "ymdh" else 7 * dt.timedelta(seconds=1)
    q = len(lat) // 4
    p_small = (lat[q] + off, lat[q + 1] + off)
    p_big = (lat[1] + off, lat[-2] + off)
    p_other = (lat[3 * q] + off, lat[3 * q] + 2 * off)
    # touching periods (one ends exactly where the next starts) and a chain
    # of three: the shapes an interval tree distinguishes
    p_next = (p_small[1], p_small[1] + (p_small[1] - p_small[0]))
    p_third = (p_next[1], p_next[1] + (p_small[1] - p_small[0]))
    menu += [
        ("exclude-2-touching", {}, dict(exclude=[p_small, p_next]),
         dict(exclude_periods=[p_small, p_next])),
        ("exclude-3-chain", {}, dict(exclude=[p_next, p_third, p_small]),
         dict(exclude_periods=[p_small, p_next, p_third])),
        ("exclude-zero-length", {}, dict(exclude=[(p_small[0], p_small[0]),
                                                  p_next]),
         dict(exclude_periods=[(p_small[0], p_small[0]), p_next])),
        ("exclude-1-period", {}, dict(exclude=[p_small]),
         dict(exclude_periods=[p_small])),
        ("exclude-covering-period", {}, dict(exclude=[p_big]),
         dict(exclude_periods=[p_big])),
        ("exclude-2-disjoint", {}, dict(exclude=[p_small, p_other]),
         dict(exclude_periods=[p_small, p_other])),
        ("exclude-2-nested", {}, dict(exclude=[p_big, p_small]),
         dict(exclude_periods=[p_big, p_small])),
        ("reuse", {}, dict(_reuse=True), {}),
    ]
    return menu


def query_histories(tname):
    """Option sets that are judged on ONE long-lived FileSet object which has
    answered other queries before (`_primed`): an unfiltered find() over
    everything and, for user-placeholder templates, a find() with another
    filter. What an earlier query cached must not leak into a later one."""
    out = [(("primed", {}, dict(_reuse=True, _primed=True), {}),)]
    if L.TEMPLATES[tname].get("sat"):
        for label, filters, opts in (
                ("white=A", {"sat": "A"}, dict(white=["A"])),
                ("white=B", {"sat": "B"}, dict(white=["B"])),
                ("white=[A,B]", {"sat": ["A", "B"]}, dict(white=["A", "B"])),
                ("black=A", {"!sat": "A"}, dict(black=["A"]))):
            out.append((("primed", {}, dict(_reuse=True, _primed=True), {}),
                        (label, dict(filters=filters), {}, opts)))
    return out


def prime(fs, tname):
    """Earlier queries on the same object (their answers are not judged
    here)."""
    list(fs.find(no_files_error=False))
    if L.TEMPLATES[tname].get("sat"):
        for other in ("A", "B"):
            list(fs.find(filters={"sat": other}, no_files_error=False))


def combine(devs):
    """Merges a tuple of menu entries; None if they are incompatible."""
    find_kw, fs_kw, opts, labels = {}, {}, {}, []
    for label, fk, sk, oo in devs:
        for k, v in fk.items():
            if k in find_kw:
                return None
            find_kw[k] = v
        for k, v in sk.items():
            if k == "exclude" and "exclude" in fs_kw:
                if any(isinstance(x, str) for x in v) == any(
                        isinstance(x, str) for x in fs_kw["exclude"]):
                    return None          # two name / two period entries
                fs_kw["exclude"] = fs_kw["exclude"] + v
            elif k in fs_kw:
                return None
            else:
                fs_kw[k] = v
        for k, v in oo.items():
            if k in opts:
                return None
            opts[k] = v
        labels.append(label)
    if "sort" in find_kw and "bundle" in find_kw:
        return None                      # bundling re-sorts by design
    return "+".join(labels) or "default", find_kw, fs_kw, opts


# ------------------------------------------------------------------ queries

def queries(lat, tier, with_shift=True):
    out = []
    for i, s in enumerate(lat):
        for e in lat[i + 1:]:
            out.append((s, e))
            if with_shift:
                out.append((s + L.US, e + L.US))
    out += [(None, lat[len(lat) // 2]), (lat[len(lat) // 2], None),
            (None, None),
            (lat[0] - dt.timedelta(days=800), lat[0] - dt.timedelta(days=790)),
            (lat[-1] + dt.timedelta(days=790),
             lat[-1] + dt.timedelta(days=800))]
    return out


# ------------------------------------------------------------------ running

def do_find(fs, s, e, find_kw):
    from typhon.files.fileset import NoFilesError
    kw = dict(find_kw)
    if s is not None:
        kw["start"] = s
    if e is not None:
        kw["end"] = e
    try:
        return list(fs.find(**kw))
    except NoFilesError:
        return []


def judge_find(got, exp, find_kw):
    """None or (key, expected, observed)."""
    exp_paths = [f.path for f in exp]
    bundle = find_kw.get("bundle")
    if bundle is not None:
        if any(not isinstance(b, list) for b in got):
            return ("find/bundle-not-a-list", exp_paths, repr(got)[:300])
        if any(len(b) == 0 for b in got):
            return ("find/bundle-empty", exp_paths,
                    [[os.fspath(x) for x in b] for b in got])
        flat = [x for b in got for x in b]
    else:
        flat = got
    got_paths = [os.fspath(x) for x in flat]
    if sorted(got_paths) != sorted(exp_paths):
        gs, es = set(got_paths), set(exp_paths)
        if len(gs) != len(got_paths):
            key = "find/duplicate-file"
        elif es - gs and gs - es:
            key = "find/wrong-files"
        elif es - gs:
            key = "find/missing-file"
        else:
            key = "find/extra-file"
        return (key, exp_paths, got_paths)
    if find_kw.get("sort", True) or bundle is not None:
        by = {f.path: (f.t0, f.t1) for f in exp}
        keys = [by[p] for p in got_paths]
        if keys != sorted(keys):
            return ("find/order", exp_paths, got_paths)
        for x in flat:
            if hasattr(x, "times") and tuple(x.times) != by[os.fspath(x)]:
                return ("find/fileinfo-times", by[os.fspath(x)],
                        list(x.times))
    if bundle is not None:
        by = {f.path: f for f in exp}
        if isinstance(bundle, int):
            sizes = [len(b) for b in got]
            ok = all(n == bundle for n in sizes[:-1]) and \
                (not sizes or 1 <= sizes[-1] <= bundle)
            if not ok:
                return ("find/bundle-size", bundle, sizes)
        else:
            bins = [[bin_of(by[os.fspath(x)].t0, bundle) for x in b]
                    for b in got]
            if any(len(set(b)) != 1 for b in bins):
                return ("find/bundle-mixes-frequency-bins", bundle,
                        [[str(t) for t in b] for b in bins])
            firsts = [b[0] for b in bins]
            if len(set(firsts)) != len(firsts):
                return ("find/bundle-splits-frequency-bin", bundle,
                        [str(t) for t in firsts])
    return None


def check_population(res, root, tname, wname, files, qs, lat, option_sets,
                     casebase, count_nontrivial=True):
    """Runs all queries for every option set on one population."""
    boundaries = set()
    for f in files:
        boundaries.update((f.t0, f.t1))
    for devs in option_sets:
        comb = combine(devs)
        if comb is None:
            continue
        label, find_kw, fs_kw, opts = comb
        fs_kw = dict(fs_kw)
        reuse = fs_kw.pop("_reuse", False)
        primed = fs_kw.pop("_primed", False)
        fs = L.make_fileset(root, tname, **fs_kw) if reuse else None
        if primed:
            prime(fs, tname)
        for s, e in qs:
            exp = expected(files, s, e, opts)
            nt = (0 < len(exp) < len(files)) or s in boundaries \
                or e in boundaries
            res.case(nontrivial=nt)
            cur = fs if reuse else L.make_fileset(root, tname, **fs_kw)
            try:
                got = do_find(cur, s, e, find_kw)
                bad = judge_find(got, exp, find_kw)
            except Exception as exc:
                bad = ("find/exception/" + type(exc).__name__,
                       [f.path for f in exp], repr(exc)[:300])
            if bad is None and label == "default" and s is not None \
                    and e is not None:
                try:
                    inside = (s, e) in cur
                except Exception as exc:
                    inside = repr(exc)[:200]
                if inside is not bool(exp):
                    bad = ("contains/period", bool(exp), inside)
            if bad is not None:
                res.violation(
                    bad[0],
                    dict(casebase, options=label, start=s, end=e,
                         template=L.TEMPLATES[tname]["rel"]),
                    bad[1], bad[2])
    if casebase["kind"] != "pop":
        return
    # membership of instants and len() with default options
    fs = L.make_fileset(root, tname)
    for t in lat:
        exp = any(f.t0 <= t <= f.t1 for f in files)
        res.case(nontrivial=exp)
        try:
            got = t in fs
        except Exception as exc:
            got = repr(exc)[:200]
        if got is not exp:
            res.violation("contains/instant",
                dict(casebase, instant=t, options="in"), exp, got)
    res.case(nontrivial=True)
    try:
        n = len(L.make_fileset(root, tname))
    except Exception as exc:
        n = -1 if type(exc).__name__ == "NoFilesError" else repr(exc)[:200]
    if n == -1 and not files:
        n = 0
    if n != len(files):
        res.violation("len",
                      dict(casebase, options="len"), len(files), n)


def shards(tier, seed):
    out = []
    maxsize = 1 if tier == "quick" else 3
    for tname in L.TEMPLATES:
        for wname in L.WINDOWS:
            n = len(L.pool(tname, wname))
            pops = list(L.populations(n, maxsize))
            chunk = 12 if tier == "quick" else 24
            for i in range(0, len(pops), chunk):
                out.append(("pop", tier, tname, wname, pops[i:i + chunk]))
            nchunks = 2 if tier == "quick" else 12
            for c in range(nchunks):
                out.append(("opt", tier, tname, wname, c, nchunks))
        if tier == "thorough":
            out.append(("zip", tier, tname, "yearend"))
    out.append(("single", tier))
    return out


def run_shard(shard):
    res = driver.ShardResult()
    kind = shard[0]
    if kind == "single":
        return run_single(res)
    tier, tname, wname = shard[1:4]
    pl = L.pool(tname, wname)
    lat = L.lattice(tname, wname)
    root = driver.fresh_dir("c01")
    if kind == "pop":
        qs = queries(lat, tier)
        for idx in shard[4]:
            sub = os.path.join(root, "p" + "_".join(map(str, idx)))
            files = L.materialise(sub, tname, [pl[i] for i in idx])
            check_population(res, sub, tname, wname, files, qs, lat, [()],
                             dict(kind="pop", tname=tname, window=wname,
                                  population=idx))
        res.sample(dict(template=L.TEMPLATES[tname]["rel"], window=wname,
                        population=[pl[i][3] for i in idx],
                        queries=len(qs)))
    elif kind == "opt":
        sub = os.path.join(root, "all")
        files = L.materialise(sub, tname, pl)
        menu = option_menu(tname, files, lat)
        sets = [(m,) for m in menu] + query_histories(tname)
        if tier == "thorough":
            sets += list(itertools.combinations(menu, 2))
        sets = sets[shard[4]::shard[5]]
        qs = queries(lat, tier, with_shift=False)
        check_population(res, sub, tname, wname, files, qs, lat, sets,
                         dict(kind="opt", tname=tname, window=wname,
                              population=list(range(len(pl)))))
        res.count("option_sets", len(sets))
        res.sample(dict(template=L.TEMPLATES[tname]["rel"], window=wname,
                        options=[m[0] for m in menu]))
    elif kind == "zip":
        run_zip(res, root, tname, wname, pl, lat, tier)
    return res


def run_zip(res, root, tname, wname, pl, lat, tier):
    """The same whole-pool population inside a zip archive (fsspec)."""
    import zipfile
    from fsspec.implementations.zip import ZipFileSystem
    from typhon.files import FileSet
    spec = L.TEMPLATES[tname]
    arch = os.path.join(root, "pool.zip")
    files = []
    with zipfile.ZipFile(arch, "w") as z:
        for t0, t1, attrs, rel in pl:
            z.writestr("data/" + rel, b"")
            files.append(fsbuild.FileModel("data/" + rel, t0, t1,
                                           dict(attrs), rel))
    kw = {}
    if spec.get("tc") is not None:
        kw["time_coverage"] = spec["tc"]
    for s, e in queries(lat, tier, with_shift=False):
        exp = expected(files, s, e, {})
        res.case(nontrivial=0 < len(exp) < len(files))
        res.count("zip_queries")
        fs = FileSet("data/" + spec["rel"], fs=ZipFileSystem(arch), name="z",
                     **kw)
        try:
            got = do_find(fs, s, e, {})
            bad = judge_find(got, exp, {})
        except Exception as exc:
            bad = ("find/exception/" + type(exc).__name__,
                   [f.path for f in exp], repr(exc)[:300])
        if bad is not None:
            res.violation("zip/" + bad[0],
                          dict(kind="zip", tname=tname, window=wname, start=s,
                               end=e), bad[1], bad[2])


def run_single(res):
    """Single-file fileset: coverage comes from time_coverage."""
    from typhon.files import FileSet
    root = driver.fresh_dir("c01s")
    path = os.path.join(root, "only.dat")
    fsbuild.touch(path)
    lat = L.lattice("ymd", "leapday")
    for cov in [(lat[3], lat[6]), (lat[4], lat[4]), None]:
        for s, e in queries(lat, "quick"):
            fs = FileSet(path, time_coverage=cov, name="single")
            c0, c1 = cov if cov else (dt.datetime.min, dt.datetime.max)
            exp = (e is None or c0 < e) and (s is None or c1 >= s)
            res.case(nontrivial=cov is not None)
            got = do_find(fs, s, e, {})
            ok = [os.fspath(x) for x in got] == ([path] if exp else [])
            if ok and exp and list(got[0].times) != [c0, c1]:
                ok = False
            if not ok:
                res.violation("single/find", dict(kind="single", cov=cov,
                                                  start=s, end=e),
                              [path] if exp else [],
                              [os.fspath(x) for x in got])
    res.sample(dict(kind="single", coverage=[lat[3], lat[6]]))
    return res


def replay(case):
    res = driver.ShardResult()
    kind = case["kind"]
    if kind == "single":
        run_single(res)
    else:
        tname, wname = case["tname"], case["window"]
        pl = L.pool(tname, wname)
        lat = L.lattice(tname, wname)
        root = driver.fresh_dir("c01r")
        if kind == "zip":
            run_zip(res, root, tname, wname, pl, lat, "thorough")
        else:
            idx = case["population"]
            files = L.materialise(root, tname, [pl[i] for i in idx])
            menu = option_menu(tname, files, lat)
            labels = case.get("options", "default")
            if labels in ("default", "in", "len"):
                sets = [()]
            else:
                by = {m[0]: m for m in menu}
                for h in query_histories(tname):
                    for m in h:
                        by.setdefault(m[0], m)
                sets = [tuple(by[l] for l in labels.split("+"))]
            qs = queries(lat, "thorough")
            check_population(res, root, tname, wname, files, qs, lat, sets,
                             dict(kind=kind, tname=tname, window=wname,
                                  population=idx))
    want = (case.get("start"), case.get("end"), case.get("options"))
    for v in res.violations:
        c = v["case"]
        if (c.get("start"), c.get("end"), c.get("options")) == want or \
                kind == "single":
            return dict(ok=False, key=v["key"], expected=v["expected"],
                        observed=v["observed"], case=c)
    return dict(ok=not res.violations, other_violations=len(res.violations))


if __name__ == "__main__":
    driver.main(sys.modules[__name__])
