"""C20: reference model of the SRTM30 tiling in exact cell units, and the
comparisons of typhon's answers against it (used by c20_srtm and c20_cache).

Rows count 30" cells southwards from 90 N, columns eastwards from 180 W.
Nothing here imports typhon.
"""
import functools
import math
from fractions import Fraction

CELLS = 120                   # cells per degree
N_ROWS = 150 * CELLS          # 90 N .. 60 S
N_COLS = 360 * CELLS
TILE_ROWS, TILE_COLS = 50 * CELLS, 40 * CELLS
SUB = 4                       # lattice points per cell
FUZZ = Fraction(1, 10 ** 6)   # cell units


# --------------------------------------------------------------------------
# reference model
# --------------------------------------------------------------------------

def tile_table():
    """name -> (lat_min, lon_min, lat_max, lon_max), built from the SRTM30
    naming rule (west edge, north edge) rather than copied from typhon."""
    table = {}
    for lat_max in (90, 40, -10):
        for lon_min in range(-180, 180, 40):
            name = "%s%03d%s%02d" % ("w" if lon_min < 0 else "e",
                                     abs(lon_min),
                                     "n" if lat_max > 0 else "s",
                                     abs(lat_max))
            table[name] = (lat_max - 50, lon_min, lat_max, lon_min + 40)
    return table


TILES = tile_table()


def tiles_intersecting(lat_min, lon_min, lat_max, lon_max):
    """Tiles sharing positive area with the rectangle."""
    return sorted(n for n, (a0, o0, a1, o1) in TILES.items()
                  if max(a0, lat_min) < min(a1, lat_max)
                  and max(o0, lon_min) < min(o1, lon_max))


def coord(base, k):
    return base + k / (SUB * CELLS * 1.0)


def row_units(lat):
    return (90 - Fraction(lat)) * CELLS


def col_units(lon):
    return (Fraction(lon) + 180) * CELLS


def edge_kind(u):
    """An edge in exact cell units is 'exact'ly on a cell border, 'fuzzy' (a
    float next to one) or 'off' the border by at least a fifth of a cell."""
    d = abs(u - round(u))
    if d == 0:
        return "exact"
    if d < Fraction(1, 10 ** 9):
        return "fuzzy"
    assert d > Fraction(1, 5), "lattice point in the don't-care band"
    return "off"


@functools.lru_cache(maxsize=None)
def expected_axis(low_edge, high_edge, n_cells):
    """Acceptable first and last cell index of the block along one axis, for
    edges in exact cell units counted in index direction: the block covers
    [low_edge, high_edge] and extends by less than one cell. A fuzzy edge
    may be taken as lying on either side of its border."""
    assert 0 <= low_edge < high_edge <= n_cells
    lows = [low_edge] if edge_kind(low_edge) != "fuzzy" else \
        [low_edge - FUZZ, low_edge + FUZZ]
    highs = [high_edge] if edge_kind(high_edge) != "fuzzy" else \
        [high_edge - FUZZ, high_edge + FUZZ]
    return dict(first={math.floor(u) for u in lows},
                last={math.ceil(u) - 1 for u in highs},
                aligned=edge_kind(low_edge) != "off"
                and edge_kind(high_edge) != "off")


def expected_block(lat_min, lon_min, lat_max, lon_max):
    return dict(lat=expected_axis(row_units(lat_max), row_units(lat_min),
                                  N_ROWS),
                lon=expected_axis(col_units(lon_min), col_units(lon_max),
                                  N_COLS))


def cell_indices(values, axis):
    """Cell index of every returned coordinate, or None if the vector is not
    a run of consecutive cell centres in the demanded direction."""
    import numpy as np
    v = np.asarray(values, dtype=float)
    if v.ndim != 1 or v.size == 0:
        return None
    if axis == "lat":
        pos = (90.0 - v) * CELLS - 0.5
    else:
        pos = (v + 180.0) * CELLS - 0.5
    idx = np.rint(pos)
    if np.abs(pos - idx).max() > float(FUZZ):
        return None
    idx = idx.astype(np.int64)
    if np.any(np.diff(idx) != 1):
        return None
    return idx


def check_grids(rect, lats, lons):
    """-> (violations, rows, cols); rows/cols are index vectors or None."""
    exp = expected_block(*rect)
    out = []
    rows = cell_indices(lats, "lat")
    cols = cell_indices(lons, "lon")
    for axis, idx, vec in (("lat", rows, lats), ("lon", cols, lons)):
        ok = exp[axis]
        want = "cells %s..%s" % (sorted(ok["first"]), sorted(ok["last"]))
        empty = getattr(vec, "size", None) == 0
        if idx is None and not empty:
            out.append(("grids/%s-not-consecutive-cell-centres" % axis,
                        want, vec, ""))
        elif empty or int(idx[0]) not in ok["first"] \
                or int(idx[-1]) not in ok["last"]:
            key = "grids/%s-block-wrong-for-aligned-edges" % axis \
                if ok["aligned"] else \
                "grids/%s-edge-not-on-cell-border" % axis
            out.append((key, want, "empty vector" if empty else
                        "cells %d..%d" % (idx[0], idx[-1]),
                        "block is empty, does not cover the rectangle or "
                        "extends a whole cell beyond it"))
    return out, rows, cols


def check_tiles(rect, names):
    want = tiles_intersecting(*rect)
    try:
        got = sorted(names)
    except TypeError:
        got = None
    if got == want:
        return []
    if got is not None and set(want) - set(got):
        key = "tiles/missing-tile"
        if rect[1] == -180:
            key += "-lon-min-at-minus-180"
    else:
        key = "tiles/extra-or-duplicate-tile"
    return [(key, want, names, "get_tiles%r" % (tuple(rect),))]


def check_elevation_values(rows, cols, elev):
    import numpy as np
    elev = np.asarray(elev)
    if elev.shape != (rows.size, cols.size):
        return [("elevation/shape", (rows.size, cols.size), elev.shape, "")]
    # cells outside the data set have no pixel; the grid check reported them
    rin = (rows >= 0) & (rows < N_ROWS)
    cin = (cols >= 0) & (cols < N_COLS)
    want = (N_COLS * rows[rin])[:, None] + cols[cin][None, :]
    got = elev[np.ix_(rin, cin)]
    bad = got != want
    if not bad.any():
        return []
    i, j = [int(x[0]) for x in np.nonzero(bad)]
    where = "first at [%d, %d] = cell (%d, %d): %r instead of %d; %d of %d " \
        "entries differ" % (i, j, rows[rin][i], cols[cin][j], got[i, j],
                            want[i, j], int(bad.sum()), bad.size)
    if np.all(got[bad] == 0):
        key = "elevation/unfilled"
        if cols[0] == 0:
            key += "-at-lon-minus-180"
    elif np.array_equal(np.sort(got, axis=None), np.sort(want, axis=None)):
        key = "elevation/rows-or-columns-permuted"
    else:
        key = "elevation/wrong-pixel"
    return [(key, want, got, where)]
