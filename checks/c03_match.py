"""C03, part 2: FileSet.match on harness-built filesets (driven from
c03_intervals.py)."""
import datetime as dt
import itertools
import os

from mc import driver, fsbuild

T0 = dt.datetime(2020, 2, 29, 0, 0, 0)
H = dt.timedelta(hours=1)
TEMPLATE = ("{year}{month}{day}_{hour}{minute}{second}-"
            "{end_year}{end_month}{end_day}_{end_hour}{end_minute}"
            "{end_second}.dat")

# (start hour, end hour) relative to T0
POOL_A = [(0, 2), (2, 4), (3, 6), (0, 8), (5, 5), (7, 8), (30, 31)]
POOL_B = [(0, 1), (1, 3), (4, 4), (2, 7), (0, 8), (6, 8), (-40, -39)]
PERIODS = [(None, None), (0, 8), (0, 9), (-2, 0), (2, 3), (4, 4.5), (6, 7),
           (8, 12), (9, 12), (-48, 48)]
# incl. intervals of a day and more (timedelta.seconds vs total_seconds)
MAX_INTERVALS = [None, 0, 3600, "90 min", "1 day", 90000, "49 h"]
MI_SECONDS = {None: 0, 0: 0, 3600: 3600, "90 min": 5400, "1 day": 86400,
              90000: 90000, "49 h": 176400}


def populations(pool, maxsize):
    for n in range(1, maxsize + 1):
        for idx in itertools.combinations(range(len(pool)), n):
            yield idx


def shards(tier, seed):
    maxsize = 2 if tier == "quick" else 3
    return [("match", idx, maxsize) for idx in populations(POOL_A, maxsize)]


def hours(h):
    return T0 + dt.timedelta(seconds=int(h * 3600))


def expected(files_a, files_b, period, mi):
    """-> (list of (a_index, must, may)) in required primary order;
    must = secondaries that have to be reported, may = further secondaries
    that may be reported (outside the searched period; statement silent)."""
    s, e = period
    mis = MI_SECONDS[mi]
    d = dt.timedelta(seconds=mis)
    if s is None:
        def found(f):
            return True
    else:
        s2, e2 = hours(s) - d, hours(e) + d

        def found(f):
            return f.t0 < e2 and f.t1 >= s2
    out = []
    for i, a in enumerate(files_a):
        if not found(a):
            continue
        must, may = [], []
        for j, b in enumerate(files_b):
            if b.t0 - d <= a.t1 and b.t1 + d >= a.t0:
                (must if found(b) else may).append(j)
        if must or may:
            out.append((i, must, may))
    return out


def run_match(dir_a, dir_b, period, mi):
    from typhon.files import FileSet
    a = FileSet(os.path.join(dir_a, TEMPLATE), name="A")
    b = FileSet(os.path.join(dir_b, TEMPLATE), name="B")
    s, e = period
    kwargs = {}
    if s is not None:
        kwargs = dict(start=hours(s), end=hours(e))
    if mi is not None:
        kwargs["max_interval"] = mi
    try:
        res = list(a.match(b, **kwargs))
    except Exception as exc:
        if type(exc).__name__ == "NoFilesError":
            return []
        return exc
    return [(p.path, [x.path for x in secs]) for p, secs in res]


def judge(files_a, files_b, period, mi, got):
    """None or (key, expected, observed, msg)."""
    exp = expected(files_a, files_b, period, mi)
    if isinstance(got, Exception):
        return ("match/exception/" + type(got).__name__,
                [(files_a[i].rel, [files_b[j].rel for j in m])
                 for i, m, _ in exp], repr(got)[:200], "")
    pa = {f.path: k for k, f in enumerate(files_a)}
    pb = {f.path: k for k, f in enumerate(files_b)}
    got_idx = [(pa[p], [pb[x] for x in secs]) for p, secs in got]
    exp_desc = [(i, m, y) for i, m, y in exp]
    # primaries: exactly those with a must-partner, those with only
    # may-partners are optional
    need = {i: (set(m), set(y)) for i, m, y in exp}
    seen = []
    for i, secs in got_idx:
        if i in seen:
            return ("match/primary-duplicated", exp_desc, got_idx, "")
        seen.append(i)
        if i not in need:
            return ("match/primary-without-partner-or-outside-period",
                    exp_desc, got_idx, "")
        must, may = need[i]
        if len(set(secs)) != len(secs):
            return ("match/secondary-duplicated", exp_desc, got_idx, "")
        if set(secs) - must - may:
            return ("match/secondary-extra", exp_desc, got_idx, "")
        if must - set(secs):
            return ("match/secondary-missing", exp_desc, got_idx, "")
        keys = [(files_b[j].t0, files_b[j].t1) for j in secs]
        if keys != sorted(keys):
            return ("match/secondary-order", exp_desc, got_idx, "")
    for i, (must, may) in need.items():
        if must and i not in seen:
            return ("match/primary-missing", exp_desc, got_idx, "")
    keys = [(files_a[i].t0, files_a[i].t1) for i in seen]
    if keys != sorted(keys):
        return ("match/primary-order", exp_desc, got_idx, "")
    return None


def build(base, pool, idx):
    return fsbuild.populate(
        base, TEMPLATE, [(hours(pool[k][0]), hours(pool[k][1]), None)
                         for k in idx])


def run_shard(shard):
    _, idx_a, maxsize = shard
    res = driver.ShardResult()
    root = driver.fresh_dir("c03m")
    dir_a = os.path.join(root, "A")
    files_a = build(dir_a, POOL_A, idx_a)
    last = None
    for idx_b in populations(POOL_B, maxsize):
        dir_b = os.path.join(root, "B" + "".join(map(str, idx_b)))
        files_b = build(dir_b, POOL_B, idx_b)
        for period in PERIODS:
            for mi in MAX_INTERVALS:
                if period[0] is None and mi is not None:
                    continue
                exp = expected(files_a, files_b, period, mi)
                res.case(nontrivial=any(m for _, m, _ in exp))
                got = run_match(dir_a, dir_b, period, mi)
                bad = judge(files_a, files_b, period, mi, got)
                last = (idx_b, period, mi)
                if bad is not None:
                    again = judge(files_a, files_b, period, mi,
                                  run_match(dir_a, dir_b, period, mi))
                    if again is None or again[0] != bad[0]:
                        res.error("NONDETERMINISM match %r" % (last,))
                    res.violation(
                        bad[0], dict(part="match", a=idx_a, b=idx_b,
                                     period=period, max_interval=mi),
                        bad[1], bad[2], bad[3])
    res.sample(dict(part="match", a=[POOL_A[k] for k in idx_a],
                    b=[POOL_B[k] for k in last[0]], period=last[1],
                    max_interval=last[2]))
    return res


def replay(case):
    root = driver.fresh_dir("c03r")
    dir_a, dir_b = os.path.join(root, "A"), os.path.join(root, "B")
    files_a = build(dir_a, POOL_A, case["a"])
    files_b = build(dir_b, POOL_B, case["b"])
    period = tuple(case["period"])
    mi = case["max_interval"]
    got = run_match(dir_a, dir_b, period, mi)
    bad = judge(files_a, files_b, period, mi, got)
    if bad is None:
        return dict(ok=True, observed=got)
    return dict(ok=False, key=bad[0], expected=bad[1], observed=bad[2],
                files_a=[f.rel for f in files_a],
                files_b=[f.rel for f in files_b])
