"""C03, part 2: FileSet.match on harness-built filesets (driven from
c03_intervals.py).

Two families of shards:
 match    pairs of populations of two 7-file pools x periods x max_interval
 filters  pairs of populations of two 4-file pools that hold one period under
          three satellite names x filters x other_filters
"""
import datetime as dt
import itertools
import os

import numpy as np
import pandas as pd

from mc import driver, fsbuild

T0 = dt.datetime(2020, 2, 29, 0, 0, 0)
TEMPLATE = ("{year}{month}{day}_{hour}{minute}{second}-"
            "{end_year}{end_month}{end_day}_{end_hour}{end_minute}"
            "{end_second}.dat")
SAT_TEMPLATE = "{sat}_" + TEMPLATE

# (start hour, end hour[, satellite]) relative to T0
POOL_A = [(0, 2), (2, 4), (3, 6), (0, 8), (5, 5), (7, 8), (30, 31)]
POOL_B = [(0, 1), (1, 3), (4, 4), (2, 7), (0, 8), (6, 8), (-40, -39)]
SAT_POOL_A = [(0, 2, "A"), (0, 2, "B"), (0, 2, "C"), (3, 6, "A")]
SAT_POOL_B = [(1, 3, "A"), (1, 3, "B"), (1, 3, "C"), (5, 7, "B")]

# None = that side of the period is not given to match()
PERIODS = [(None, None), (0, 8), (0, 9), (-2, 0), (2, 3), (4, 4.5), (6, 7),
           (8, 12), (9, 12), (-48, 48)]
HALF_OPEN = [(None, 4), (4, None)]
# label (what a recorded case holds) -> (max_interval argument, seconds);
# incl. intervals of a day and more (timedelta.seconds vs total_seconds)
MAX_INTERVALS = {
    None: (None, 0), 0: (0, 0), 3600: (3600, 3600), "90 min": ("90 min", 5400),
    "1 day": ("1 day", 86400), 90000: (90000, 90000),
    "49 h": ("49 h", 176400),
}
# the other types to_timedelta accepts, and numbers that are no whole seconds
SPELLINGS = {
    "timedelta(minutes=90)": (dt.timedelta(minutes=90), 5400),
    "numpy.timedelta64(1,'h')": (np.timedelta64(1, "h"), 3600),
    "pandas.Timedelta('1 day')": (pd.Timedelta("1 day"), 86400),
    0.5: (0.5, 0.5), 3600.5: (3600.5, 3600.5),
}
ALL_INTERVALS = {**MAX_INTERVALS, **SPELLINGS}

# filter argument as recorded in a case: None or [key, value]
FILTERS = [None, ["sat", "A"], ["!sat", "A"]]
OTHER_FILTERS = [None, ["sat", "B"], ["!sat", "B"]]
FILTER_PERIODS = [(None, None), (0, 8), (2, 3)]
FILTER_INTERVALS = [None, 3600]


def populations(pool, maxsize, minsize=1):
    for n in range(minsize, maxsize + 1):
        for idx in itertools.combinations(range(len(pool)), n):
            yield idx


def filter_populations(pool, tier):
    return populations(pool, len(pool), 1 if tier == "thorough" else 3)


def pair_populations(pool, tier):
    return populations(pool, 3 if tier == "thorough" else 2)


def shards(tier, seed):
    return [("match", idx, tier) for idx in pair_populations(POOL_A, tier)] \
        + [("filters", idx, tier) for idx in filter_populations(SAT_POOL_A,
                                                                 tier)]


def options(shard, idx_b):
    """(period, max_interval label, filters, other_filters) of one pair of
    populations."""
    if shard[0] == "filters":
        return itertools.product(FILTER_PERIODS, FILTER_INTERVALS, FILTERS,
                                 OTHER_FILTERS)
    out = list(itertools.product(PERIODS, MAX_INTERVALS, [None], [None]))
    # the further periods and spellings for the smaller pairs only
    if len(shard[1]) + len(idx_b) <= (4 if shard[2] == "thorough" else 2):
        out += itertools.product(HALF_OPEN, ALL_INTERVALS, [None], [None])
        out += itertools.product(PERIODS, SPELLINGS, [None], [None])
    return out


def hours(h):
    return T0 + dt.timedelta(seconds=int(h * 3600))


def passes(f, spec):
    if spec is None:
        return True
    key, value = spec
    if key.startswith("!"):
        return f.attrs[key[1:]] != value
    return f.attrs[key] == value


def expected(files_a, files_b, period, mi, filters=None, other_filters=None):
    """-> (list of (a_index, must, may)) in required primary order;
    must = secondaries that have to be reported, may = further secondaries
    that may be reported (outside the searched period; statement silent).
    Files that do not pass their filter take no part."""
    s, e = period
    d = dt.timedelta(seconds=ALL_INTERVALS[mi][1])

    def found(f):
        return (s is None or f.t1 >= hours(s) - d) \
            and (e is None or f.t0 < hours(e) + d)
    out = []
    for i, a in enumerate(files_a):
        if not found(a) or not passes(a, filters):
            continue
        must, may = [], []
        for j, b in enumerate(files_b):
            if passes(b, other_filters) \
                    and b.t0 - d <= a.t1 and b.t1 + d >= a.t0:
                (must if found(b) else may).append(j)
        if must or may:
            out.append((i, must, may))
    return out


def run_match(dir_a, dir_b, template, period, mi, filters=None,
              other_filters=None):
    from typhon.files import FileSet
    s, e = period
    kwargs = {}
    if s is not None:
        kwargs["start"] = hours(s)
    if e is not None:
        kwargs["end"] = hours(e)
    if mi is not None:
        kwargs["max_interval"] = ALL_INTERVALS[mi][0]
    if filters is not None:
        kwargs["filters"] = dict([filters])
    if other_filters is not None:
        kwargs["other_filters"] = dict([other_filters])
    try:
        a = FileSet(os.path.join(dir_a, template), name="A")
        b = FileSet(os.path.join(dir_b, template), name="B")
        res = list(a.match(b, **kwargs))
    except Exception as exc:
        if type(exc).__name__ == "NoFilesError":
            return []
        return exc
    return [(p.path, [x.path for x in secs]) for p, secs in res]


def judge(files_a, files_b, case, got, about=""):
    """None or (key, expected, observed, msg); `about` is appended to the key
    of an exception."""
    period, mi = tuple(case["period"]), case["max_interval"]
    filters, other_filters = case.get("filters"), case.get("other_filters")
    exp = expected(files_a, files_b, period, mi, filters, other_filters)
    if isinstance(got, Exception):
        return ("match/exception/%s%s" % (type(got).__name__, about),
                [(files_a[i].rel, [files_b[j].rel for j in m])
                 for i, m, _ in exp], repr(got)[:200], "")
    pa = {f.path: k for k, f in enumerate(files_a)}
    pb = {f.path: k for k, f in enumerate(files_b)}
    if any(p not in pa or set(secs) - set(pb) for p, secs in got):
        return ("match/file-of-neither-population", None, got, "")
    got_idx = [(pa[p], [pb[x] for x in secs]) for p, secs in got]
    exp_desc = [(i, m, y) for i, m, y in exp]
    # primaries: exactly those with a must-partner, those with only
    # may-partners are optional
    need = {i: (set(m), set(y)) for i, m, y in exp}
    seen = []
    for i, secs in got_idx:
        if i in seen:
            return ("match/primary-duplicated", exp_desc, got_idx, "")
        seen.append(i)
        if not passes(files_a[i], filters):
            return ("match/primary-excluded-by-filters", exp_desc, got_idx,
                    "")
        if any(not passes(files_b[j], other_filters) for j in secs):
            return ("match/secondary-excluded-by-other_filters", exp_desc,
                    got_idx, "")
        if i not in need:
            return ("match/primary-without-partner-or-outside-period",
                    exp_desc, got_idx, "")
        must, may = need[i]
        if len(set(secs)) != len(secs):
            return ("match/secondary-duplicated", exp_desc, got_idx, "")
        if set(secs) - must - may:
            return ("match/secondary-extra", exp_desc, got_idx, "")
        if must - set(secs):
            return ("match/secondary-missing", exp_desc, got_idx, "")
        keys = [(files_b[j].t0, files_b[j].t1) for j in secs]
        if keys != sorted(keys):
            return ("match/secondary-order", exp_desc, got_idx, "")
    for i, (must, may) in need.items():
        if must and i not in seen:
            return ("match/primary-missing", exp_desc, got_idx, "")
    keys = [(files_a[i].t0, files_a[i].t1) for i in seen]
    if keys != sorted(keys):
        return ("match/primary-order", exp_desc, got_idx, "")
    return None


def family(name):
    """-> (path template, pool of the primary, pool of the secondary)"""
    if name == "filters":
        return SAT_TEMPLATE, SAT_POOL_A, SAT_POOL_B
    return TEMPLATE, POOL_A, POOL_B


def build(base, template, pool, idx):
    return fsbuild.populate(base, template, [
        (hours(pool[k][0]), hours(pool[k][1]),
         dict(sat=pool[k][2]) if len(pool[k]) > 2 else None) for k in idx])


def evaluate(dirs, files, case):
    template = family(case["part"])[0]

    def run(period):
        return run_match(dirs[0], dirs[1], template, period,
                         case["max_interval"], case.get("filters"),
                         case.get("other_filters"))
    period, mi = tuple(case["period"]), case["max_interval"]
    got = run(period)
    # one key per class of input typhon does not cope with: an open period
    # with max_interval, unless the type of max_interval alone gives the same
    # exception under a closed period
    about = ""
    if isinstance(got, Exception):
        if None in period and mi is not None:
            about = "[open period with max_interval]"
        if isinstance(ALL_INTERVALS[mi][0], (dt.timedelta, np.timedelta64)) \
                and (not about or type(run(PERIODS[-1])) is type(got)):
            about = "[max_interval=%s]" % mi.split("(")[0]
    return got, judge(files[0], files[1], case, got, about)


def run_shard(shard):
    name, idx_a = shard[:2]
    template, pool_a, pool_b = family(name)
    res = driver.ShardResult()
    root = driver.fresh_dir("c03m")
    dir_a = os.path.join(root, "A")
    files_a = build(dir_a, template, pool_a, idx_a)
    pops_b = (filter_populations if name == "filters"
              else pair_populations)(pool_b, shard[2])
    case = None
    for idx_b in pops_b:
        dir_b = os.path.join(root, "B" + "".join(map(str, idx_b)))
        files_b = build(dir_b, template, pool_b, idx_b)
        for period, mi, filters, other_filters in options(shard, idx_b):
            case = dict(part=name, a=idx_a, b=idx_b, period=period,
                        max_interval=mi)
            if name == "filters":
                case.update(filters=filters, other_filters=other_filters)
            exp = expected(files_a, files_b, period, mi, filters,
                           other_filters)
            res.case(nontrivial=any(m for _, m, _ in exp))
            res.count(name + "_cases")
            bad = evaluate((dir_a, dir_b), (files_a, files_b), case)[1]
            if bad is not None:
                again = evaluate((dir_a, dir_b), (files_a, files_b), case)[1]
                if again is None or again[0] != bad[0]:
                    res.error("NONDETERMINISM match %r" % (case,))
                res.violation(bad[0], case, bad[1], bad[2], bad[3])
    res.sample(dict(case, a=[pool_a[k] for k in case["a"]],
                    b=[pool_b[k] for k in case["b"]]))
    return res


def replay(case):
    template, pool_a, pool_b = family(case["part"])
    root = driver.fresh_dir("c03r")
    dirs = os.path.join(root, "A"), os.path.join(root, "B")
    files = (build(dirs[0], template, pool_a, case["a"]),
             build(dirs[1], template, pool_b, case["b"]))
    got, bad = evaluate(dirs, files, case)
    if bad is None:
        return dict(ok=True, observed=got)
    return dict(ok=False, key=bad[0], expected=bad[1], observed=bad[2],
                files_a=[f.rel for f in files[0]],
                files_b=[f.rel for f in files[1]])
