"""C14 helpers shared by c14_integrals.py and c14_profiles.py: the exact
rational trapezoid reference, conversion of results to Fraction, and guarded
calls into typhon that turn exceptions into violation keys."""
import os
import traceback
from fractions import Fraction

import numpy as np

U = Fraction(1, 2 ** 53)          # unit roundoff of IEEE binary64


class Raised(Exception):
    """typhon raised; .key names the innermost typhon function."""

    def __init__(self, key, text):
        super().__init__(key)
        self.key = key
        self.text = text


def call(func, *args, **kwargs):
    try:
        return func(*args, **kwargs)
    except Exception as e:
        where = func.__name__
        for frame, _ in traceback.walk_tb(e.__traceback__):
            if os.sep + "typhon" + os.sep in frame.f_code.co_filename:
                where = frame.f_code.co_name
        raise Raised("exception/%s/%s" % (where, type(e).__name__),
                     repr(e)[:200])


def exact(v):
    """Exact rational value of a number returned by typhon (float, numpy
    scalar, int or Fraction); None for NaN / infinities."""
    if isinstance(v, Fraction):
        return v
    if isinstance(v, (int, np.integer)):
        return Fraction(int(v))
    v = float(v)
    if v != v or v in (float("inf"), float("-inf")):
        return None
    return Fraction(v)


def trapezoid(xs, ys):
    """Integral of the piecewise-linear interpolant of (xs, ys) as a Fraction;
    xs, ys: sequences of ints or Fractions (no floats)."""
    return Fraction(1, 2) * sum((x1 - x0) * (y0 + y1) for x0, x1, y0, y1
                                in zip(xs, xs[1:], ys, ys[1:]))


def trapezoid_abs(xs, ys):
    """Sum of |dx| (|y0| + |y1|) / 2: the scale against which rounding errors
    of any evaluation order of the trapezoid sum are bounded."""
    return Fraction(1, 2) * sum(
        abs(x1 - x0) * (abs(y0) + abs(y1))
        for x0, x1, y0, y1 in zip(xs, xs[1:], ys, ys[1:]))


def fractions(values):
    return [Fraction(v) for v in values]


def close(got, ref, tol):
    """|got - ref| <= tol for a typhon result and exact Fractions."""
    g = exact(got)
    return g is not None and abs(g - ref) <= tol
