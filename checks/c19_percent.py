"""C19, part "percent": mape and bias (driven from c19_scores.py, which calls
driver.setup_env() before this module imports numpy and typhon).

A group is a multiset of (truth, offset %) pairs; its cases are both functions
x (all distinct orders x SCALES x BASIC_SHAPES, and the sorted order x
SCALES + WIDE_SCALES x SHAPES). The sorted order at scale 1 as 1-D float64
vectors is the reference of the group (judged against the offset if it is
uniform); every other case is judged against the case that differs from it
in one respect.
"""
import itertools

import numpy as np
from typhon.retrieval import scores

TRUTHS = (-2.0, -1.0, 1e-9, 0.5, 1.0, 2.0, 1e6)
OFFSETS = (-10, -1, 0, 1, 10, 50)
PAIRS = tuple(itertools.product(TRUTHS, OFFSETS))
SCALES = (1, -3, 1e-3, 7)
# magnitudes of trace-gas mixing ratios / SI radiances up to the ends of the
# float64 range; the powers of two keep whole numbers and float32 values exact
WIDE_SCALES = (1e-8, 1e-9, 1e-12, 1e-30, 1e-300, 1e30, 1e300,
               2.0 ** -40, 2.0 ** 40)
# (shape of the prediction, shape of the truth): the same n values element by
# element in every layout
LAYOUTS = {"vector": ((-1,), (-1,)), "column": ((-1, 1), (-1, 1)),
           "row": ((1, -1), (1, -1)), "matrix": ((-1, 2), (-1, 2)),
           "pred-column": ((-1, 1), (-1,)), "truth-column": ((-1,), (-1, 1))}
DTYPES = ("int64", "int32", "int16", "float32")
# name -> (layout, argument(s) given in another dtype than float64, dtype);
# only where every value of that argument is exactly representable there
SHAPES = {name: (name, None, None) for name in LAYOUTS}
for _role, _dtype in itertools.product(("pred", "truth", "both"), DTYPES):
    SHAPES["%s-%s" % (_role, _dtype)] = ("vector", _role, _dtype)
    SHAPES["%s-%s-column" % (_role, _dtype)] = ("column", _role, _dtype)
BASIC_SHAPES = tuple(LAYOUTS) + ("pred-int64", "truth-int64")
FUNCS = ("mape", "bias")
EPS = 2.0 ** -52
EPS32 = 2.0 ** -23
TINY = float(np.finfo(float).tiny)


def shards(tier):
    uniform, mixed = (4, 2) if tier == "quick" else (5, 3)
    out = [("percent", "uniform", n, first, p)
           for n in range(1, uniform + 1) for first in range(len(TRUTHS))
           for p in OFFSETS]
    out += [("percent", "mixed", n, first, None)
            for n in range(2, mixed + 1) for first in range(len(PAIRS))]
    return out


def groups(kind, n, first, p):
    """Sorted multisets of n pairs whose smallest member is number `first`."""
    if kind == "uniform":
        for rest in itertools.combinations_with_replacement(
                TRUTHS[first:], n - 1):
            yield tuple((t, p) for t in (TRUTHS[first],) + rest)
    else:
        for rest in itertools.combinations_with_replacement(
                PAIRS[first:], n - 1):
            group = (PAIRS[first],) + rest
            if len({q for _, q in group}) > 1:
                yield group


def arrays(order, scale):
    truth = np.array([t for t, _ in order]) * scale
    pred = np.array([t * (1 + p / 100) for t, p in order]) * scale
    return pred, truth


def normal(order, scale):
    """Are all scaled values normal float64 numbers (finite, with full
    relative precision: the prediction still is p percent off)?"""
    pred, truth = arrays(order, scale)
    return all(np.all(np.isfinite(a) & (np.abs(a) >= TINY))
               for a in (pred, truth))


def exact_in(values, dtype):
    with np.errstate(all="ignore"):
        return np.array_equal(values.astype(dtype).astype(float), values)


def applicable_shapes(order, scale, names):
    pred, truth = arrays(order, scale)
    exact = {}
    out = []
    for name in names:
        layout, role, dtype = SHAPES[name]
        if layout == "matrix" and len(order) % 2 == 1:
            continue
        if role is not None:
            if dtype not in exact:
                exact[dtype] = dict(pred=exact_in(pred, dtype),
                                    truth=exact_in(truth, dtype))
                exact[dtype]["both"] = all(exact[dtype].values())
            if not exact[dtype][role]:
                continue
        out.append(name)
    return out


def evaluate(func, order, scale, shape):
    """-> typhon's value, or the exception it raised."""
    pred, truth = arrays(order, scale)
    layout, role, dtype = SHAPES[shape]
    if role in ("pred", "both"):
        pred = pred.astype(dtype)
    if role in ("truth", "both"):
        truth = truth.astype(dtype)
    pred = pred.reshape(LAYOUTS[layout][0])
    truth = truth.reshape(LAYOUTS[layout][1])
    try:
        return getattr(scores, func)(pred, truth)
    except Exception as exc:
        return exc


def check_case(func, order, scale, shape, cache):
    """None or (key, expected, observed, msg). cache memoises evaluate()
    within one group."""
    def value(*config):
        if config not in cache:
            cache[config] = evaluate(*config)
        return cache[config]

    canon = tuple(sorted(order))
    offsets = {p for _, p in order}
    # roundings of the inputs (offset, scaling), of each ratio and of the
    # sum, in percent; relative to the value where that is larger than 100 %
    tol = 100 * EPS * (len(order) + 16)
    got = value(func, order, scale, shape)
    if isinstance(got, Exception):
        return ("exception/%s/%s" % (func, type(got).__name__), "a number",
                repr(got)[:200], "")
    if np.ndim(got) != 0:
        return (func + "/result-not-scalar", [], list(np.shape(got)), "")
    if not np.isfinite(got):
        return (func + "/result-not-finite", "a finite number", repr(got), "")
    if shape != "vector":
        what, ref = "differs-for-layout-" + shape, \
            value(func, order, scale, "vector")
    elif order != canon:
        what, ref = "order-dependent", value(func, canon, scale, shape)
    elif scale != 1:
        what, ref = "scale-dependent", value(func, canon, 1, shape)
    elif len(offsets) == 1:
        what, ref = "uniform-offset-value", \
            abs(order[0][1]) if func == "mape" else order[0][1]
    else:
        return None
    # a reference that failed itself is reported by its own case
    if isinstance(ref, Exception) or np.ndim(ref) != 0 \
            or not np.isfinite(ref):
        return None
    bound = tol * (1 + abs(float(ref)) / 100)
    if SHAPES[shape][1:] == ("both", "float32"):
        # typhon may compute in float32: the differences are exact there
        # (ratios in [0.9, 1.5]); roundings of 100 * d, of the ratio, of the
        # sum and of the mean, each relative to a term
        bound += EPS32 * (len(order) + 4) * max(abs(p) for p in offsets)
    if not abs(float(got) - float(ref)) <= bound:
        return ("%s/%s" % (func, what), float(ref), float(got),
                "tolerance %.3g" % bound)
    return None


def run_shard(res, shard, report):
    _, kind, n, first, p = shard
    case = None
    for group in groups(kind, n, first, p):
        cache = {}
        canon = tuple(sorted(group))
        for order in sorted(set(itertools.permutations(group))):
            scales, names = (SCALES + WIDE_SCALES, SHAPES) if order == canon \
                else (SCALES, BASIC_SHAPES)
            for scale in scales:
                if not normal(order, scale):
                    res.count("scalings_outside_normal_range")
                    continue
                for func, shape in itertools.product(
                        FUNCS, applicable_shapes(order, scale, names)):
                    res.case(nontrivial=any(q != 0 for _, q in order))
                    case = dict(part="percent", func=func, pairs=order,
                                scale=scale, shape=shape)
                    report(res, case,
                           check_case(func, order, scale, shape, cache),
                           lambda: check_case(func, order, scale, shape, {}))
        res.count("mape_bias_calls", len(cache))
    if case is not None:
        res.sample(case)


def replay(case):
    return check_case(case["func"], case["pairs"], case["scale"],
                      case["shape"], {})
