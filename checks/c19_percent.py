"""C19, part "percent": mape and bias (driven from c19_scores.py, which calls
driver.setup_env() before this module imports numpy and typhon).

A group is a multiset of (truth, offset %) pairs; its cases are both functions
x all distinct orders x SCALES x SHAPES. The first order at scale 1 as 1-D
float vectors is the reference of the group (judged against the offset if it
is uniform); every other case is judged against the case that differs from it
in one respect.
"""
import itertools

import numpy as np
from typhon.retrieval import scores

TRUTHS = (-2.0, -1.0, 0.5, 1.0, 2.0, 1e6)
OFFSETS = (-10, -1, 0, 1, 10, 50)
PAIRS = tuple(itertools.product(TRUTHS, OFFSETS))
SCALES = (1, -3, 1e-3, 7)
# both arguments (n,), (n,1), (1,n), (n/2,2); one of them (n,) and the other
# (n,1); both (n,) with one of them as int64 (counts; only where its values
# are integral): the same n values element by element in every layout
SHAPES = ("vector", "column", "row", "matrix", "pred-column", "truth-column",
          "pred-int64", "truth-int64")
FUNCS = ("mape", "bias")
EPS = 2.0 ** -52


def shards(tier):
    uniform, mixed = (4, 2) if tier == "quick" else (5, 3)
    out = [("percent", "uniform", n, first, p)
           for n in range(1, uniform + 1) for first in range(len(TRUTHS))
           for p in OFFSETS]
    out += [("percent", "mixed", n, first, None)
            for n in range(2, mixed + 1) for first in range(len(PAIRS))]
    return out


def groups(kind, n, first, p):
    """Sorted multisets of n pairs whose smallest member is number `first`."""
    if kind == "uniform":
        for rest in itertools.combinations_with_replacement(
                TRUTHS[first:], n - 1):
            yield tuple((t, p) for t in (TRUTHS[first],) + rest)
    else:
        for rest in itertools.combinations_with_replacement(
                PAIRS[first:], n - 1):
            group = (PAIRS[first],) + rest
            if len({q for _, q in group}) > 1:
                yield group


def arrays(order, scale):
    truth = np.array([t for t, _ in order]) * scale
    pred = np.array([t * (1 + p / 100) for t, p in order]) * scale
    return pred, truth


def applicable_shapes(order, scale):
    pred, truth = arrays(order, scale)
    skip = {"matrix": len(order) % 2 == 1,
            "pred-int64": np.any(pred != np.rint(pred)),
            "truth-int64": np.any(truth != np.rint(truth))}
    return [shape for shape in SHAPES if not skip.get(shape)]


def evaluate(func, order, scale, shape):
    """-> typhon's value, or the exception it raised."""
    pred, truth = arrays(order, scale)
    if shape == "pred-int64":
        pred = pred.astype(np.int64)
    elif shape == "truth-int64":
        truth = truth.astype(np.int64)
    elif shape == "column":
        truth, pred = truth.reshape(-1, 1), pred.reshape(-1, 1)
    elif shape == "row":
        truth, pred = truth.reshape(1, -1), pred.reshape(1, -1)
    elif shape == "matrix":
        truth, pred = truth.reshape(-1, 2), pred.reshape(-1, 2)
    elif shape == "pred-column":
        pred = pred.reshape(-1, 1)
    elif shape == "truth-column":
        truth = truth.reshape(-1, 1)
    try:
        return getattr(scores, func)(pred, truth)
    except Exception as exc:
        return exc


def check_case(func, order, scale, shape, cache):
    """None or (key, expected, observed, msg). cache memoises evaluate()
    within one group."""
    def value(*config):
        if config not in cache:
            cache[config] = evaluate(*config)
        return cache[config]

    canon = tuple(sorted(order))
    offsets = {p for _, p in order}
    # roundings of the inputs (offset, scaling), of each ratio and of the
    # sum, in percent; relative to the value where that is larger than 100 %
    tol = 100 * EPS * (len(order) + 16)
    got = value(func, order, scale, shape)
    if isinstance(got, Exception):
        return ("exception/%s/%s" % (func, type(got).__name__), "a number",
                repr(got)[:200], "")
    if np.ndim(got) != 0:
        return (func + "/result-not-scalar", [], list(np.shape(got)), "")
    if shape != "vector":
        what, ref = "differs-for-layout-" + shape, \
            value(func, order, scale, "vector")
    elif order != canon:
        what, ref = "order-dependent", value(func, canon, scale, shape)
    elif scale != 1:
        what, ref = "scale-dependent", value(func, canon, 1, shape)
    elif len(offsets) == 1:
        what, ref = "uniform-offset-value", \
            abs(order[0][1]) if func == "mape" else order[0][1]
    else:
        return None
    # a reference that failed itself is reported by its own case
    if isinstance(ref, Exception) or np.ndim(ref) != 0:
        return None
    bound = tol * (1 + abs(float(ref)) / 100)
    if not abs(float(got) - float(ref)) <= bound:
        return ("%s/%s" % (func, what), float(ref), float(got),
                "tolerance %.3g" % bound)
    return None


def run_shard(res, shard, report):
    _, kind, n, first, p = shard
    case = None
    for group in groups(kind, n, first, p):
        cache = {}
        for order in sorted(set(itertools.permutations(group))):
            for scale in SCALES:
                for func, shape in itertools.product(
                        FUNCS, applicable_shapes(order, scale)):
                    res.case(nontrivial=any(q != 0 for _, q in order))
                    case = dict(part="percent", func=func, pairs=order,
                                scale=scale, shape=shape)
                    report(res, case,
                           check_case(func, order, scale, shape, cache),
                           lambda: check_case(func, order, scale, shape, {}))
        res.count("mape_bias_calls", len(cache))
    if case is not None:
        res.sample(case)


def replay(case):
    return check_case(case["func"], case["pairs"], case["scale"],
                      case["shape"], {})
