"""C11 - files written, moved, copied or deleted through a FileSet are
conserved (DESIGN.md section 3, C11).

Part 1 (this module): explicit-state breadth-first search over operation
sequences on a real tmpfs directory tree. The planner (c11_model.plan) merges
histories that reach the same tree; every planned state is rebuilt by driving
typhon through its shortest history on a real directory, snapshotted, and
expanded by EVERY operation of the alphabet; each resulting tree is compared
with the reference model. There are two alphabets, searched separately:
"layout" (targets that rename) and "forms" (the other forms of writing, a
target fileset with another handler, conversion in place, ...). "cold" runs build fresh FileSet objects for every
operation; "warm" runs keep one long-lived set of FileSet objects (warm
info_cache) over the whole history and must reach the same trees.
Part 2 (c11_roundtrip): NetCDF4 / CSV round trips through FileSet.write/read.
"""
import gzip
import json
import os
import pickle
import shutil
import sys

from mc import driver
driver.setup_env()

from checks import c11_model as model          # noqa: E402
from checks import c11_roundtrip as roundtrip  # noqa: E402
from checks.c11_env import controlled          # noqa: E402

PROP = "C11"
LEVEL = "model_checking"
RULE = ("BFS part: state = directory tree (sorted (path, content) list); "
        "from each of 2 roots (empty tree; one file in each of 4 slots = 3 "
        "periods x user placeholder) ALL sequences of <=3 (quick; warm <=2) / "
        "<=4 (thorough, cold; warm <=3) operations of each of two alphabets. "
        "Alphabet 'layout' (62): 9 writes fs[s:e]=d (4 slots x 2 payloads, "
        "so overwrites occur, + one into a .gz fileset); 44 moves/copies (5 "
        "targets [doy, added end fields, added user placeholder, .gz, other "
        "base directory] x 4 selections [all, period, filter, explicit "
        "files=] x {move, copy}, raw / convert=True / convert=callable, + 1 "
        "copy under a negated filter + 3 from the targets back); 6 deletes "
        "by selection; 2 dry runs; 1 read-back of every file through read, "
        "fs[s:e], fs[t] and collect. Alphabet 'forms' (25): 2 writes "
        "fs[s:e]=d; 3 writes write(d, path string | FileInfo, tag=...) with a "
        "per-call writer option that is stored in the file (one into the "
        "JSON fileset whose own write_args must be merged with it); 1 write "
        "fs[t]=d (a file whose period is an instant); 8 converting "
        "moves/copies into a fileset OBJECT with another handler (pickle -> "
        "JSON documents; the target has write_args, read_args and a "
        "post_reader of its own, each of which shows in the tree or in what "
        "is read) x {all, filter} x {move, copy} x {convert=True, callable}; "
        "2 back (JSON -> pickle, target object); 2 conversions in place "
        "(target template = source template, move and copy); 2 moves/copies "
        "to a template without directories and 1 back; delete and dry run "
        "with files= given as path strings; 1 delete in the JSON fileset; "
        "the read-back. In the warm search the FileSet object returned by "
        "every move/copy must find exactly the files of the target, and "
        "every state is expanded a second time after a read of every file "
        "with a per-call option (read(f, only=...), collect(read_args=...)) "
        "by all operations that read file contents (read-back, converting "
        "moves/copies), because such a read may leave traces in a long-lived "
        "FileSet object that no directory listing shows. Trees reached "
        "by several histories are merged; every (state, operation) is "
        "executed on a real directory with fresh FileSet objects (cold) and "
        "with long-lived ones (warm). Round-trip part: NetCDF "
        "principal variable dtype {i2,i4,i8,f4,f8,bool,str,datetime64,"
        "timedelta64} x {0,1,2}-d x NaN x placement {root, group, nested "
        "group, group dimensions, group coordinates, no root variable at "
        "all} x variable order x int16 packing (encoding / write_args / "
        "per-call arguments of write()) x suffix {nc, h5, nc.gz, nc.bz2, "
        "nc.zip, nc.xz} (quick: all suffixes only for 1-d root variables) x "
        "{fresh file, overwrite of a data set with other variables, groups, "
        "dimension lengths and attributes}; every data set carries global "
        "attributes {text, int, float, array} and variable/coordinate "
        "attributes in root and groups, which must read back too. CSV "
        "tables x 5 option sets x {csv,txt,asc} x 5 compressions x {fresh, "
        "overwrite of a longer table with other columns}, plus read_args / "
        "post_reader cases, plus filesets with compress=False, "
        "decompress=False on the 4 compression suffixes (nc and csv). "
        "Threads part (c11_threads.py): from the tree with one file in "
        "every slot, every move / copy / delete of both alphabets that "
        "selects two files (quick: both files for one new directory with "
        "shared FileSet objects, raw moves also with per-worker copies, the "
        "converting moves into the JSON fileset, every delete; thorough: "
        "every selection incl. all four files) runs with max_workers=2 and "
        "worker_type 'thread' (tasks share the FileSet objects) and 'process' "
        "(typhon's default: pickled copies, shared file system) as REAL "
        "threads under the cooperative scheduler of mc/threads.py - a "
        "scheduling point at every line of a typhon source file - for every "
        "schedule with <= 1 preemption (thorough 2 for two-file selections); "
        "the tree afterwards must be the model's. "
        "evaluations = executed transitions + round "
        "trips; non-trivial = the operation touches (selects, creates or "
        "overwrites) a file while another "
        "file exists that it must leave alone, or the read-back has two "
        "files to tell apart (BFS) / the data set is not a bare 0-d root "
        "variable (round trips); cases are distinct by construction.")
ASSUMPTIONS = [
    "pool work inside move/delete/collect runs on a synchronous executor "
    "(typhon.files.fileset.ThreadPoolExecutor/ProcessPoolExecutor rebound); "
    "schedules are property C10's subject; the interference of the workers "
    "of ONE move/copy/delete is explored in the threads part (line-level "
    "interleavings within a preemption bound, <= 4 files, 2 workers)",
    "a move without convert to a template with a compression suffix or to a "
    "fileset with another handler is a plain rename and not enumerated; "
    "every selection of a move maps distinct files to distinct target names",
    "explicit files= lists are FileInfo objects returned by find(); plain "
    "path strings only for delete (move needs the times of a file)",
    "fs[s:e] is only asked for s < e (find() rejects an empty period): the "
    "file stored by fs[t] = d is read back through fs[t], read and collect",
    "an operation that selects no file may raise NoFilesError or do nothing "
    "(move then returns nothing that could be examined)",
    "snapshots restore files and directories, not time stamps",
] + roundtrip.ASSUMPTIONS

STATES_PER_SHARD = 40


# ---------------------------------------------------------------------------
# the user handlers of the BFS filesets
# ---------------------------------------------------------------------------

def tagged(data, tag):
    """`tag` is a per-call writing option: it is stored with the payload."""
    return data if tag is None else dict(data, **{model.TAG: tag})


def read_pickle(file_info, only=None):
    """`only` is a per-call reading option (as `fields` of the NetCDF4
    handler): return just that entry of the payload."""
    with open(file_info.path, "rb") as f:
        data = pickle.load(f)
    if only is not None:
        data = {only: data[only]}
    return data


def write_pickle(data, file_info, tag=None):
    with open(file_info.path, "wb") as f:
        pickle.dump(tagged(data, tag), f)


# The JSON fileset needs all three of its own options to give a payload back:
# write_args (fmt=JSON_FMT, checked by Tree.listing), read_args (key="items",
# without it the reader returns the whole document) and the post_reader (the
# list of items becomes a dict again).
JSON_FMT = 2


def json_options():
    from typhon.files import FileHandler
    return dict(handler=FileHandler(reader=read_json, writer=write_json),
                write_args={"fmt": JSON_FMT}, read_args={"key": "items"},
                post_reader=items_to_payload)


def read_json(file_info, key=None, only=None):
    with open(file_info.path) as f:
        doc = json.load(f)
    if key is None:
        return doc
    return [kv for kv in doc[key] if only is None or kv[0] == only]


def write_json(data, file_info, fmt=1, tag=None):
    with open(file_info.path, "w") as f:
        json.dump({"fmt": fmt, "items": sorted(tagged(data, tag).items())}, f)


def items_to_payload(file_info, items):
    return dict(items)


# ---------------------------------------------------------------------------
# the real directory
# ---------------------------------------------------------------------------

class Tree:
    def __init__(self):
        self.top = driver.fresh_dir("c11")
        self.root = os.path.join(self.top, "tree")
        self.tmp = os.path.join(self.top, "tmp")    # for (de)compression
        os.makedirs(self.root)
        os.makedirs(self.tmp)

    def close(self):
        shutil.rmtree(self.top, ignore_errors=True)

    def materialise(self, state):
        """Harness-side creation of an initial tree (plain pickles)."""
        for rel, f in state.items():
            path = os.path.join(self.root, rel)
            os.makedirs(os.path.dirname(path), exist_ok=True)
            with open(path, "wb") as fh:
                pickle.dump(f.content, fh)

    def snapshot(self):
        dirs, files = [], {}
        for d, _, names in os.walk(self.root):
            dirs.append(d)
            for n in names:
                p = os.path.join(d, n)
                with open(p, "rb") as fh:
                    files[p] = fh.read()
        return dirs, files

    def restore(self, snap):
        shutil.rmtree(self.root)
        for d in snap[0]:
            os.makedirs(d, exist_ok=True)
        for p, b in snap[1].items():
            with open(p, "wb") as fh:
                fh.write(b)

    def listing(self):
        """relative path -> repr of the decoded content (.json: a document
        written with the fileset's write_args, otherwise a pickle). A name
        with a .gz suffix must hold a gzip stream and vice versa, otherwise
        the entry says so."""
        out = {}
        for d, _, names in os.walk(self.root):
            for n in names:
                p = os.path.join(d, n)
                with open(p, "rb") as fh:
                    raw = fh.read()
                zipped = raw[:2] == b"\x1f\x8b"
                if zipped != n.endswith(".gz"):
                    out[os.path.relpath(p, self.root)] = \
                        "compression does not match the suffix"
                    continue
                try:
                    if n.endswith(".json"):
                        doc = json.loads(raw)
                        text = repr(sorted(map(tuple, doc["items"]))) \
                            if doc["fmt"] == JSON_FMT else \
                            "fmt=%r: write_args not applied" % doc["fmt"]
                    else:
                        obj = pickle.loads(gzip.decompress(raw) if zipped
                                           else raw)
                        text = repr(sorted(obj.items()))
                except Exception as exc:
                    text = "undecodable: %s" % type(exc).__name__
                out[os.path.relpath(p, self.root)] = text
        return out

    def filesets(self, long_lived=None):
        return FileSets(self, long_lived)


class FileSets(dict):
    """fsid -> FileSet object, made on first use: built from scratch, or a
    copy of the long-lived object of that fileset (warm runs). `returned` is
    what the last move() returned."""

    def __init__(self, tree, long_lived=None):
        dict.__init__(self)
        self.tree, self.long_lived = tree, long_lived
        self.returned = None

    def __missing__(self, fsid):
        if self.long_lived is not None:
            fs = self.long_lived[fsid].copy()
        else:
            from typhon.files import FileHandler, FileSet
            options = json_options() if model.FORMAT[fsid] == "json" else \
                dict(handler=FileHandler(reader=read_pickle,
                                         writer=write_pickle))
            fs = FileSet(
                os.path.join(self.tree.root, model.FILESETS[fsid]),
                name=fsid, temp_dir=self.tree.tmp,
                placeholder=model.DEFAULTS.get(fsid), **options)
        self[fsid] = fs
        return fs


# ---------------------------------------------------------------------------
# executing one operation through typhon
# ---------------------------------------------------------------------------

KIND = {"w": "write", "wo": "write", "wt": "write", "del": "delete",
        "rb": "read", "rbo": "read"}

# Reading with a per-call option leaves the directory alone but may leave
# traces in a long-lived FileSet object. The warm search therefore expands
# every state a second time *after* such a read, with the operations that
# read file contents (the only ones that can observe it).
OPTION_READ = ("rbo",)


def reading_ops(alphabet):
    return [op for op in model.ops(alphabet)
            if op[0] == "rb" or (op[0] == "mv" and op[5] != "raw")]


def op_kind(op):
    if op[0] == "mv":
        return "copy" if op[4] else "move"
    if op[0] == "del" and op[3]:
        return "dry-run"
    return KIND[op[0]]


def selection_kwargs(tree, fs, sel, chosen):
    if sel == "all":
        return {}
    if sel == "period":
        return dict(start=model.SEL_PERIOD[0], end=model.SEL_PERIOD[1])
    if sel == "filter":
        return dict(filters={"sat": "A"})
    if sel == "nfilter":
        return dict(filters={"!sat": "A"})
    wanted = {os.path.join(tree.root, p) for p in chosen}
    if sel == "paths":
        return dict(files=sorted(wanted))
    return dict(files=[f for f in fs.find(no_files_error=False)
                       if f.path in wanted])


def execute(tree, fss, op, state, chosen):
    """Runs `op`; returns None or (key, expected, observed) for what the
    call itself did wrong (exceptions, values read back). The tree is judged
    by the caller."""
    from typhon.files.fileset import NoFilesError
    from typhon.files.handlers.common import FileInfo
    api = "move" if op[0] == "mv" else KIND[op[0]]
    try:
        with controlled():
            if op[0] == "w":
                _, fsid, si, pi = op
                (t0, t1), sat = model.PERIODS[model.SLOTS[si][0]], \
                    model.SLOTS[si][1]
                fss[fsid][t0:t1, {"sat": sat}] = dict(model.PAYLOADS[pi])
            elif op[0] == "wo":
                _, fsid, si, pi, how = op
                (t0, t1), sat = model.PERIODS[model.SLOTS[si][0]], \
                    model.SLOTS[si][1]
                path = os.path.join(tree.root,
                                    model.name_of(fsid, model.SLOTS[si]))
                if how == "info":
                    path = FileInfo(path, [t0, t1], {"sat": sat})
                fss[fsid].write(dict(model.PAYLOADS[pi]), path, tag=1)
            elif op[0] == "wt":
                _, fsid, pi = op
                (t0, _), sat = model.PERIODS[model.INSTANT[0]], \
                    model.INSTANT[1]
                fss[fsid][t0, {"sat": sat}] = dict(model.PAYLOADS[pi])
            elif op[0] == "del":
                _, fsid, sel, dry = op
                fs = fss[fsid]
                fs.delete(dry_run=dry,
                          **selection_kwargs(tree, fs, sel, chosen))
            elif op[0] == "mv":
                _, src, dst, sel, copy, conv = op
                fs = fss[src]
                target = fss[dst] if model.target_is_object(src, dst) else \
                    os.path.join(tree.root, model.FILESETS[dst])
                convert = {"raw": None, "conv": True,
                           "call": model.convert_payload}[conv]
                fss.returned = fs.move(
                    target, convert=convert, copy=copy,
                    **selection_kwargs(tree, fs, sel, chosen))
            elif op[0] == "rbo":
                return read_with_option(tree, fss, state)
            else:
                return read_back(tree, fss, state)
    except NoFilesError as exc:
        if chosen or op[0] not in ("mv", "del"):
            return ("exception/%s/NoFilesError" % api, "files %r" % chosen,
                    repr(exc)[:200])
    except Exception as exc:
        return ("exception/%s/%s" % (api, type(exc).__name__), None,
                repr(exc)[:300])
    return None


def read_back(tree, fss, state):
    """Everything the model holds is read through every reading interface of
    the fileset it belongs to."""
    from typhon.files.fileset import NoFilesError
    for fsid in model.FILESETS:
        fs = fss[fsid]
        mine = {p: f for p, f in state.items() if f.fsid == fsid}
        try:
            infos, data = fs.collect(return_info=True)
        except NoFilesError:
            infos, data = [], []
        got = sorted((os.path.relpath(i.path, tree.root), repr(sorted(
            d.items()))) for i, d in zip(infos, data))
        want = sorted(model.listing(mine).items())
        if got != want:
            return ("read/collect-mismatch", want, got)
        for p, f in mine.items():
            (t0, t1), sat = model.PERIODS[f.slot[0]], f.slot[1]
            apis = [("read", lambda: fs.read(os.path.join(tree.root, p))),
                    ("getitem-time", lambda: fs[t0, {"sat": sat}])]
            if t0 < t1:
                apis.append(("getitem-slice",
                             lambda: fs[t0:t1, {"sat": sat}]))
            for name, call in apis:
                want = [f.content] if name == "getitem-slice" else f.content
                got = call()
                if got != want:
                    return ("read/%s-mismatch" % name, want, got)
    return None


def read_with_option(tree, fss, state):
    """Every file is read with a per-call option (read() and collect())."""
    from typhon.files.fileset import NoFilesError
    for fsid in model.FILESETS:
        fs = fss[fsid]
        mine = {p: f for p, f in state.items() if f.fsid == fsid}
        for p, f in mine.items():
            got = fs.read(os.path.join(tree.root, p), only="v")
            if got != {"v": f.content["v"]}:
                return ("read/per-call-option-ignored", {"v": f.content["v"]},
                        got)
        try:
            data = fs.collect(read_args={"only": "c"})
        except NoFilesError:
            data = []
        want = sorted(repr({"c": f.content["c"]}) for f in mine.values())
        if sorted(map(repr, data)) != want:
            return ("read/collect-per-call-option-ignored", want,
                    sorted(map(repr, data)))
    return None


def judge_tree(op, state, new, chosen, observed):
    """None or (key, expected, observed): names the first broken clause."""
    before, expected = model.listing(state), model.listing(new)
    if expected == observed:
        return None
    kind = op_kind(op)
    exp_p, obs_p = set(expected), set(observed)
    if kind in ("dry-run", "read"):
        return (kind + "/tree-changed", expected, observed)
    # the model keeps the File object of every file it does not touch
    broken = sorted(p for p, f in state.items()
                    if new.get(p) is f and p not in chosen
                    and observed.get(p) != before[p])
    if broken:
        return (kind + "/unselected-file-touched", {p: before[p]
                                                    for p in broken},
                {p: observed.get(p) for p in broken})
    if kind == "delete":
        left = sorted(set(chosen) & obs_p)
        return ("delete/selected-file-kept", "absent", left) if left else \
            ("delete/tree-mismatch", expected, observed)
    if kind == "write":
        if exp_p != obs_p:
            return ("write/wrong-name", sorted(exp_p - obs_p),
                    sorted(obs_p - exp_p))
        return ("write/wrong-content", expected, observed)
    kept = sorted(p for p in chosen if p not in exp_p and p in obs_p)
    if kept:
        return ("move/original-kept", "absent", kept)
    in_place = sorted(p for p in chosen if p not in obs_p
                      and model.name_of(op[2], state[p].slot) == p)
    if in_place and kind == "move":
        return ("move/file-converted-in-place-is-removed", "present",
                in_place)
    lost = sorted(p for p in chosen if p in exp_p and p not in obs_p)
    if lost:
        return ("copy/original-removed", "present", lost)
    if exp_p != obs_p:
        return (kind + "/wrong-name", sorted(exp_p - obs_p),
                sorted(obs_p - exp_p))
    diff = sorted(p for p in exp_p if expected[p] != observed[p])
    return ("%s/wrong-content[%s]" % (kind, op[5]),
            {p: expected[p] for p in diff}, {p: observed[p] for p in diff})


def judge_returned(tree, fss, op, new, chosen):
    """The FileSet object move() returns holds the files of the target
    (nothing is returned by a move that raised the tolerated NoFilesError)."""
    want = sorted(p for p, f in new.items() if f.fsid == op[2])
    if fss.returned is None and not chosen:
        return None
    try:
        with controlled():
            got = sorted(os.path.relpath(f.path, tree.root) for f in
                         fss.returned.find(no_files_error=False))
    except Exception as exc:
        return ("exception/find-on-returned-fileset/%s" % type(exc).__name__,
                want, repr(exc)[:300])
    if got != want:
        return ("move/returned-fileset-does-not-find-the-files", want, got)
    return None


# ---------------------------------------------------------------------------
# exploration
# ---------------------------------------------------------------------------

class Explorer:
    def __init__(self, mode, root):
        self.mode, self.root = mode, root
        self.tree = Tree()

    def rebuild(self, history):
        """Drives typhon through `history` from the root. Returns (model
        state, long-lived filesets or None) or None if the implementation
        does not follow the model (reported where that transition is
        expanded)."""
        tree = self.tree
        tree.restore(([tree.root], {}))
        state = model.roots()[self.root]
        tree.materialise(state)
        warm = tree.filesets() if self.mode == "warm" else None
        for op in history:
            new, chosen = model.step(state, op)
            fss = warm if warm is not None else tree.filesets()
            bad = execute(tree, fss, op, state, chosen)
            if bad or tree.listing() != model.listing(new):
                return None
            state = new
        return state, warm

    def transition(self, snap, state, warm, op, after_option_read=False):
        tree = self.tree
        tree.restore(snap)
        new, chosen = model.step(state, op)
        fss = tree.filesets(long_lived=warm)
        if after_option_read:
            bad = execute(tree, fss, OPTION_READ, state, [])
            if bad is None and tree.listing() != model.listing(state):
                bad = ("read/tree-changed", model.listing(state),
                       tree.listing())
            if bad is not None:
                return bad, tree.listing(), chosen, new
        bad = execute(tree, fss, op, state, chosen)
        observed = tree.listing()
        if bad is None:
            bad = judge_tree(op, state, new, chosen, observed)
        # looking at the returned object costs a find(): warm runs only
        if bad is None and op[0] == "mv" and self.mode == "warm":
            bad = judge_returned(tree, fss, op, new, chosen)
        return bad, observed, chosen, new


def nontrivial(op, state, chosen, new):
    """The operation touches a file (selects, creates or overwrites it) while
    another file exists that it must leave alone (for the read-back: it has
    two files to tell apart)."""
    if op[0] == "rb":
        return len(state) >= 2
    touched = set(chosen) | {p for p, f in new.items()
                             if state.get(p) is not f}
    return bool(touched) and bool(set(state) - touched)


def run_bfs_shard(shard):
    _, tier, mode, root, alphabet_name, histories = shard
    res = driver.ShardResult()
    alphabet = model.ops(alphabet_name)
    ex = Explorer(mode, root)
    last = None
    try:
        for history in histories:
            built = ex.rebuild(history)
            res.count("histories_replayed")
            if built is None:
                res.count("states_not_reached_by_the_implementation")
                continue
            state, warm = built
            snap = ex.tree.snapshot()
            res.add("trees", driver.h64(sorted(ex.tree.listing().items())))
            plain = {}
            for op in alphabet:
                bad, observed, chosen, new = ex.transition(snap, state, warm,
                                                           op)
                plain[op] = bad and bad[0]
                res.case(nontrivial=nontrivial(op, state, chosen, new))
                res.count("transitions")
                res.count("transitions_" + mode)
                res.count("transitions_alphabet_" + alphabet_name)
                res.add("trees", driver.h64(sorted(observed.items())))
                last = (history, op, observed)
                if bad is not None:
                    again = ex.transition(snap, state, warm, op)[0]
                    case = dict(part="bfs", tier=tier, mode=mode, root=root,
                                history=[list(o) for o in history],
                                op=list(op))
                    if again is None or again[0] != bad[0]:
                        res.error("NONDETERMINISM in %r" % (case,))
                    res.violation(bad[0], case, bad[1], bad[2],
                                  "%s %s" % (mode, op_kind(op)))
            if mode != "warm":
                continue
            for op in reading_ops(alphabet_name):
                bad, observed, chosen, new = ex.transition(
                    snap, state, warm, op, after_option_read=True)
                res.case(nontrivial=nontrivial(op, state, chosen, new))
                res.count("transitions")
                res.count("transitions_warm_after_option_read")
                # what goes wrong without the read as well is reported there
                if bad is not None and bad[0] != plain[op]:
                    case = dict(part="bfs", tier=tier, mode=mode, root=root,
                                history=[list(o) for o in history],
                                op=list(op), after_option_read=True)
                    again = ex.transition(snap, state, warm, op,
                                          after_option_read=True)[0]
                    if again is None or again[0] != bad[0]:
                        res.error("NONDETERMINISM in %r" % (case,))
                    res.violation("after-option-read/" + bad[0], case,
                                  bad[1], bad[2], "warm, after a read with "
                                  "a per-call option: %s" % op_kind(op))
        if last:
            res.sample(dict(part="bfs", mode=mode, root=root,
                            history=[list(o) for o in last[0]],
                            operation=list(last[1]),
                            tree_after=last[2]))
    finally:
        ex.tree.close()
    return res


def bfs_shards(tier):
    runs = [("cold", 3), ("warm", 2)] if tier == "quick" else \
        [("cold", 4), ("warm", 3)]
    out = []
    for alphabet in ("layout", "forms"):
        for mode, depth in runs:
            by_root = {}
            for root, history in model.plan(depth, alphabet):
                by_root.setdefault(root, []).append(history)
            for root, hs in by_root.items():
                for i in range(0, len(hs), STATES_PER_SHARD):
                    out.append(("bfs", tier, mode, root, alphabet,
                                hs[i:i + STATES_PER_SHARD]))
    return out


def shards(tier, seed):
    from checks import c11_threads
    return bfs_shards(tier) + roundtrip.shards(tier) + \
        c11_threads.shards(tier, seed)


def run_shard(shard):
    if shard[0] == "bfs":
        return run_bfs_shard(shard)
    if shard[0] == "threads":
        from checks import c11_threads
        return c11_threads.run_shard(shard)
    return roundtrip.run_shard(shard)


def finish(tier, merged):
    return dict(states=len(merged.sets.get("trees", ())),
                transitions=merged.counters.get("transitions", 0),
                traces_validated_against_impl=merged.counters.get(
                    "transitions", 0))


def replay(case):
    if case.get("part") == "threads":
        from checks import c11_threads
        return c11_threads.replay(case)
    if case.get("part") != "bfs":
        return roundtrip.replay(case)
    history = tuple(tuple(o) for o in case["history"])
    op = tuple(case["op"])
    ex = Explorer(case["mode"], case["root"])
    try:
        built = ex.rebuild(history)
        if built is None:
            return dict(ok=False, key="history-not-reproducible")
        state, warm = built
        bad = ex.transition(ex.tree.snapshot(), state, warm, op,
                            bool(case.get("after_option_read")))[0]
    finally:
        ex.tree.close()
    if bad is None:
        return dict(ok=True)
    return dict(ok=False, key=bad[0], expected=bad[1], observed=bad[2])


if __name__ == "__main__":
    driver.main(sys.modules[__name__])
