"""C11 - files written, moved, copied or deleted through a FileSet are
conserved (DESIGN.md section 3, C11).

Part 1 (this module): explicit-state breadth-first search over operation
sequences on a real tmpfs directory tree. The planner (c11_model.plan) merges
histories that reach the same tree; every planned state is rebuilt by driving
typhon through its shortest history on a real directory, snapshotted, and
expanded by EVERY operation of the alphabet; each resulting tree is compared
with the reference model. "cold" runs build fresh FileSet objects for every
operation; "warm" runs keep one long-lived set of FileSet objects (warm
info_cache) over the whole history and must reach the same trees.
Part 2 (c11_roundtrip): NetCDF4 / CSV round trips through FileSet.write/read.
"""
import gzip
import os
import pickle
import shutil
import sys

from mc import driver
driver.setup_env()

from checks import c11_model as model          # noqa: E402
from checks import c11_roundtrip as roundtrip  # noqa: E402
from checks.c11_env import controlled          # noqa: E402

PROP = "C11"
LEVEL = "model_checking"
RULE = ("BFS part: state = directory tree (sorted (path, content) list); "
        "from each of 2 roots (empty tree; one file in each of 4 slots = 3 "
        "periods x user placeholder) ALL sequences of <=3 (quick; warm <=2) / <=4 "
        "(thorough, cold; warm <=3) operations of an alphabet of 62: 9 writes (4 slots "
        "x 2 payloads, so overwrites occur, + one into a .gz fileset); 44 "
        "moves/copies (5 targets [doy, added end fields, added user "
        "placeholder, .gz, other base directory] x 4 selections [all, "
        "period, filter, explicit files=] x {move, copy}, raw / convert=True "
        "/ convert=callable, + 1 copy under a negated filter + 3 from the "
        "targets back); 6 deletes by selection; 2 dry runs; 1 read-back of "
        "every file through read, fs[s:e], fs[t] and collect. In the warm search "
        "every state is expanded a second time after a read of every file "
        "with a per-call option (read(f, only=...), collect(read_args=...)) "
        "by all operations that read file contents (read-back, converting "
        "moves/copies), because such a read may leave traces in a long-lived "
        "FileSet object that no directory listing shows. Trees reached "
        "by several histories are merged; every (state, operation) is "
        "executed on a real directory with fresh FileSet objects (cold) and, "
        "to depth 3, with long-lived ones (warm). Round-trip part: NetCDF "
        "principal variable dtype {i2,i4,i8,f4,f8,bool,str,datetime64,"
        "timedelta64} x {0,1,2}-d x NaN x placement {root, group, nested "
        "group, group dimensions} x variable order x int16 packing (encoding "
        "/ write_args) x suffix {nc, h5, nc.gz, nc.bz2, nc.zip, nc.xz} "
        "(quick: all suffixes only for 1-d root variables), CSV tables x 5 "
        "option sets x {csv,txt,asc} x 5 compressions, plus read_args / "
        "post_reader cases. evaluations = executed transitions + round "
        "trips; non-trivial = the operation touches a file while another "
        "file exists that it must leave alone, or the read-back has two "
        "files to tell apart (BFS) / the data set is not a bare 0-d root "
        "variable (round trips); cases are distinct by construction.")
ASSUMPTIONS = [
    "pool work inside move/delete/collect runs on a synchronous executor "
    "(typhon.files.fileset.ThreadPoolExecutor/ProcessPoolExecutor rebound); "
    "schedules are property C10's subject",
    "a move without convert to a template with a compression suffix is a "
    "plain rename and not enumerated; every selection of a move maps distinct "
    "files to distinct target names",
    "explicit files= lists are FileInfo objects returned by find()",
    "an operation that selects no file may raise NoFilesError or do nothing",
    "snapshots restore files and directories, not time stamps",
] + roundtrip.ASSUMPTIONS

STATES_PER_SHARD = 40


# ---------------------------------------------------------------------------
# the user handler of the BFS filesets
# ---------------------------------------------------------------------------

def read_pickle(file_info, only=None):
    """`only` is a per-call reading option (as `fields` of the NetCDF4
    handler): return just that entry of the payload."""
    with open(file_info.path, "rb") as f:
        data = pickle.load(f)
    if only is not None:
        data = {only: data[only]}
    return data


def write_pickle(data, file_info):
    with open(file_info.path, "wb") as f:
        pickle.dump(data, f)


# ---------------------------------------------------------------------------
# the real directory
# ---------------------------------------------------------------------------

class Tree:
    def __init__(self):
        self.top = driver.fresh_dir("c11")
        self.root = os.path.join(self.top, "tree")
        self.tmp = os.path.join(self.top, "tmp")    # for (de)compression
        os.makedirs(self.root)
        os.makedirs(self.tmp)

    def close(self):
        shutil.rmtree(self.top, ignore_errors=True)

    def materialise(self, state):
        """Harness-side creation of an initial tree (plain pickles)."""
        for rel, f in state.items():
            path = os.path.join(self.root, rel)
            os.makedirs(os.path.dirname(path), exist_ok=True)
            with open(path, "wb") as fh:
                pickle.dump(f.content, fh)

    def snapshot(self):
        dirs, files = [], {}
        for d, _, names in os.walk(self.root):
            dirs.append(d)
            for n in names:
                p = os.path.join(d, n)
                with open(p, "rb") as fh:
                    files[p] = fh.read()
        return dirs, files

    def restore(self, snap):
        shutil.rmtree(self.root)
        for d in snap[0]:
            os.makedirs(d, exist_ok=True)
        for p, b in snap[1].items():
            with open(p, "wb") as fh:
                fh.write(b)

    def listing(self):
        """relative path -> repr of the decoded content. A name with a .gz
        suffix must hold a gzip stream and vice versa, otherwise the entry
        says so."""
        out = {}
        for d, _, names in os.walk(self.root):
            for n in names:
                p = os.path.join(d, n)
                with open(p, "rb") as fh:
                    raw = fh.read()
                zipped = raw[:2] == b"\x1f\x8b"
                if zipped != n.endswith(".gz"):
                    out[os.path.relpath(p, self.root)] = \
                        "compression does not match the suffix"
                    continue
                try:
                    obj = pickle.loads(gzip.decompress(raw) if zipped
                                       else raw)
                    text = repr(sorted(obj.items()))
                except Exception as exc:
                    text = "undecodable: %s" % type(exc).__name__
                out[os.path.relpath(p, self.root)] = text
        return out

    def filesets(self, long_lived=None):
        return FileSets(self, long_lived)


class FileSets(dict):
    """fsid -> FileSet object, made on first use: built from scratch, or a
    copy of the long-lived object of that fileset (warm runs)."""

    def __init__(self, tree, long_lived=None):
        dict.__init__(self)
        self.tree, self.long_lived = tree, long_lived

    def __missing__(self, fsid):
        if self.long_lived is not None:
            fs = self.long_lived[fsid].copy()
        else:
            from typhon.files import FileHandler, FileSet
            fs = FileSet(
                os.path.join(self.tree.root, model.FILESETS[fsid]),
                handler=FileHandler(reader=read_pickle, writer=write_pickle),
                name=fsid, temp_dir=self.tree.tmp,
                placeholder=model.DEFAULTS.get(fsid))
        self[fsid] = fs
        return fs


# ---------------------------------------------------------------------------
# executing one operation through typhon
# ---------------------------------------------------------------------------

KIND = {"w": "write", "del": "delete", "rb": "read", "rbo": "read"}

# Reading with a per-call option leaves the directory alone but may leave
# traces in a long-lived FileSet object. The warm search therefore expands
# every state a second time *after* such a read, with the operations that
# read file contents (the only ones that can observe it).
OPTION_READ = ("rbo",)


def reading_ops():
    return [op for op in model.ops()
            if op[0] == "rb" or (op[0] == "mv" and op[5] != "raw")]


def op_kind(op):
    if op[0] == "mv":
        return "copy" if op[4] else "move"
    if op[0] == "del" and op[3]:
        return "dry-run"
    return KIND[op[0]]


def selection_kwargs(tree, fs, sel, chosen):
    if sel == "all":
        return {}
    if sel == "period":
        return dict(start=model.SEL_PERIOD[0], end=model.SEL_PERIOD[1])
    if sel == "filter":
        return dict(filters={"sat": "A"})
    if sel == "nfilter":
        return dict(filters={"!sat": "A"})
    wanted = {os.path.join(tree.root, p) for p in chosen}
    return dict(files=[f for f in fs.find(no_files_error=False)
                       if f.path in wanted])


def execute(tree, fss, op, state, chosen):
    """Runs `op`; returns None or (key, expected, observed) for what the
    call itself did wrong (exceptions, values read back). The tree is judged
    by the caller."""
    from typhon.files.fileset import NoFilesError
    api = {"w": "write", "del": "delete", "mv": "move", "rb": "read",
           "rbo": "read"}[op[0]]
    try:
        with controlled():
            if op[0] == "w":
                _, fsid, si, pi = op
                (t0, t1), sat = model.PERIODS[model.SLOTS[si][0]], \
                    model.SLOTS[si][1]
                fss[fsid][t0:t1, {"sat": sat}] = dict(model.PAYLOADS[pi])
            elif op[0] == "del":
                _, fsid, sel, dry = op
                fs = fss[fsid]
                fs.delete(dry_run=dry,
                          **selection_kwargs(tree, fs, sel, chosen))
            elif op[0] == "mv":
                _, src, dst, sel, copy, conv = op
                fs = fss[src]
                target = fss[dst] if dst in model.OBJECT_TARGETS else \
                    os.path.join(tree.root, model.FILESETS[dst])
                convert = {"raw": None, "conv": True,
                           "call": model.convert_payload}[conv]
                fs.move(target, convert=convert, copy=copy,
                        **selection_kwargs(tree, fs, sel, chosen))
            elif op[0] == "rbo":
                return read_with_option(tree, fss, state)
            else:
                return read_back(tree, fss, state)
    except NoFilesError as exc:
        if chosen or op[0] in ("w", "rb"):
            return ("exception/%s/NoFilesError" % api, "files %r" % chosen,
                    repr(exc)[:200])
    except Exception as exc:
        return ("exception/%s/%s" % (api, type(exc).__name__), None,
                repr(exc)[:300])
    return None


def read_back(tree, fss, state):
    """Everything the model holds is read through every reading interface of
    the fileset it belongs to."""
    from typhon.files.fileset import NoFilesError
    for fsid in model.FILESETS:
        fs = fss[fsid]
        mine = {p: f for p, f in state.items() if f.fsid == fsid}
        try:
            infos, data = fs.collect(return_info=True)
        except NoFilesError:
            infos, data = [], []
        got = sorted((os.path.relpath(i.path, tree.root), repr(sorted(
            d.items()))) for i, d in zip(infos, data))
        want = sorted(model.listing(mine).items())
        if got != want:
            return ("read/collect-mismatch", want, got)
        for p, f in mine.items():
            (t0, t1), sat = model.PERIODS[f.slot[0]], f.slot[1]
            apis = (("read", lambda: fs.read(os.path.join(tree.root, p))),
                    ("getitem-slice", lambda: fs[t0:t1, {"sat": sat}]),
                    ("getitem-time", lambda: fs[t0, {"sat": sat}]))
            for name, call in apis:
                want = [f.content] if name == "getitem-slice" else f.content
                got = call()
                if got != want:
                    return ("read/%s-mismatch" % name, want, got)
    return None


def read_with_option(tree, fss, state):
    """Every file is read with a per-call option (read() and collect())."""
    from typhon.files.fileset import NoFilesError
    for fsid in model.FILESETS:
        fs = fss[fsid]
        mine = {p: f for p, f in state.items() if f.fsid == fsid}
        for p, f in mine.items():
            got = fs.read(os.path.join(tree.root, p), only="v")
            if got != {"v": f.content["v"]}:
                return ("read/per-call-option-ignored", {"v": f.content["v"]},
                        got)
        try:
            data = fs.collect(read_args={"only": "c"})
        except NoFilesError:
            data = []
        want = sorted(repr({"c": f.content["c"]}) for f in mine.values())
        if sorted(map(repr, data)) != want:
            return ("read/collect-per-call-option-ignored", want,
                    sorted(map(repr, data)))
    return None


def judge_tree(op, state, new, chosen, observed):
    """None or (key, expected, observed): names the first broken clause."""
    before, expected = model.listing(state), model.listing(new)
    if expected == observed:
        return None
    kind = op_kind(op)
    exp_p, obs_p = set(expected), set(observed)
    if kind in ("dry-run", "read"):
        return (kind + "/tree-changed", expected, observed)
    # the model keeps the File object of every file it does not touch
    broken = sorted(p for p, f in state.items()
                    if new.get(p) is f and p not in chosen
                    and observed.get(p) != before[p])
    if broken:
        return (kind + "/unselected-file-touched", {p: before[p]
                                                    for p in broken},
                {p: observed.get(p) for p in broken})
    if kind == "delete":
        left = sorted(set(chosen) & obs_p)
        return ("delete/selected-file-kept", "absent", left) if left else \
            ("delete/tree-mismatch", expected, observed)
    if kind == "write":
        if exp_p != obs_p:
            return ("write/wrong-name", sorted(exp_p - obs_p),
                    sorted(obs_p - exp_p))
        return ("write/wrong-content", expected, observed)
    kept = sorted(p for p in chosen if p not in exp_p and p in obs_p)
    if kept:
        return ("move/original-kept", "absent", kept)
    lost = sorted(p for p in chosen if p in exp_p and p not in obs_p)
    if lost:
        return ("copy/original-removed", "present", lost)
    if exp_p != obs_p:
        return (kind + "/wrong-name", sorted(exp_p - obs_p),
                sorted(obs_p - exp_p))
    diff = sorted(p for p in exp_p if expected[p] != observed[p])
    return ("%s/wrong-content[%s]" % (kind, op[5]),
            {p: expected[p] for p in diff}, {p: observed[p] for p in diff})


# ---------------------------------------------------------------------------
# exploration
# ---------------------------------------------------------------------------

class Explorer:
    def __init__(self, mode, root):
        self.mode, self.root = mode, root
        self.tree = Tree()

    def rebuild(self, history):
        """Drives typhon through `history` from the root. Returns (model
        state, long-lived filesets or None) or None if the implementation
        does not follow the model (reported where that transition is
        expanded)."""
        tree = self.tree
        tree.restore(([tree.root], {}))
        state = model.roots()[self.root]
        tree.materialise(state)
        warm = tree.filesets() if self.mode == "warm" else None
        for op in history:
            new, chosen = model.step(state, op)
            fss = warm if warm is not None else tree.filesets()
            bad = execute(tree, fss, op, state, chosen)
            if bad or tree.listing() != model.listing(new):
                return None
            state = new
        return state, warm

    def transition(self, snap, state, warm, op, after_option_read=False):
        tree = self.tree
        tree.restore(snap)
        new, chosen = model.step(state, op)
        fss = tree.filesets(long_lived=warm)
        if after_option_read:
            bad = execute(tree, fss, OPTION_READ, state, [])
            if bad is None and tree.listing() != model.listing(state):
                bad = ("read/tree-changed", model.listing(state),
                       tree.listing())
            if bad is not None:
                return bad, tree.listing(), chosen, new
        bad = execute(tree, fss, op, state, chosen)
        observed = tree.listing()
        if bad is None:
            bad = judge_tree(op, state, new, chosen, observed)
        return bad, observed, chosen, new


def nontrivial(op, state, chosen):
    """The operation touches a file while another file exists that it must
    leave alone (for the read-back: it has two files to tell apart)."""
    if op[0] == "rb":
        return len(state) >= 2
    touched = {model.name_of(op[1], model.SLOTS[op[2]])} if op[0] == "w" \
        else set(chosen)
    return bool(touched) and bool(set(state) - touched)


def run_bfs_shard(shard):
    _, tier, mode, root, histories = shard
    res = driver.ShardResult()
    alphabet = model.ops()
    ex = Explorer(mode, root)
    last = None
    try:
        for history in histories:
            built = ex.rebuild(history)
            res.count("histories_replayed")
            if built is None:
                res.count("states_not_reached_by_the_implementation")
                continue
            state, warm = built
            snap = ex.tree.snapshot()
            res.add("trees", driver.h64(sorted(ex.tree.listing().items())))
            for op in alphabet:
                bad, observed, chosen, _ = ex.transition(snap, state, warm,
                                                         op)
                res.case(nontrivial=nontrivial(op, state, chosen))
                res.count("transitions")
                res.count("transitions_" + mode)
                res.add("trees", driver.h64(sorted(observed.items())))
                last = (history, op, observed)
                if bad is not None:
                    again = ex.transition(snap, state, warm, op)[0]
                    case = dict(part="bfs", tier=tier, mode=mode, root=root,
                                history=[list(o) for o in history],
                                op=list(op))
                    if again is None or again[0] != bad[0]:
                        res.error("NONDETERMINISM in %r" % (case,))
                    res.violation(bad[0], case, bad[1], bad[2],
                                  "%s %s" % (mode, op_kind(op)))
            if mode != "warm":
                continue
            for op in reading_ops():
                bad, observed, chosen, _ = ex.transition(
                    snap, state, warm, op, after_option_read=True)
                res.case(nontrivial=nontrivial(op, state, chosen))
                res.count("transitions")
                res.count("transitions_warm_after_option_read")
                if bad is not None:
                    case = dict(part="bfs", tier=tier, mode=mode, root=root,
                                history=[list(o) for o in history],
                                op=list(op), after_option_read=True)
                    again = ex.transition(snap, state, warm, op,
                                          after_option_read=True)[0]
                    if again is None or again[0] != bad[0]:
                        res.error("NONDETERMINISM in %r" % (case,))
                    res.violation("after-option-read/" + bad[0], case,
                                  bad[1], bad[2], "warm, after a read with "
                                  "a per-call option: %s" % op_kind(op))
        if last:
            res.sample(dict(part="bfs", mode=mode, root=root,
                            history=[list(o) for o in last[0]],
                            operation=list(last[1]),
                            tree_after=last[2]))
    finally:
        ex.tree.close()
    return res


def bfs_shards(tier):
    runs = [("cold", 3), ("warm", 2)] if tier == "quick" else \
        [("cold", 4), ("warm", 3)]
    out = []
    for mode, depth in runs:
        by_root = {}
        for root, history in model.plan(depth):
            by_root.setdefault(root, []).append(history)
        for root, hs in by_root.items():
            for i in range(0, len(hs), STATES_PER_SHARD):
                out.append(("bfs", tier, mode, root,
                            hs[i:i + STATES_PER_SHARD]))
    return out


def shards(tier, seed):
    return bfs_shards(tier) + roundtrip.shards(tier)


def run_shard(shard):
    if shard[0] == "bfs":
        return run_bfs_shard(shard)
    return roundtrip.run_shard(shard)


def finish(tier, merged):
    return dict(states=len(merged.sets.get("trees", ())),
                transitions=merged.counters.get("transitions", 0),
                traces_validated_against_impl=merged.counters.get(
                    "transitions", 0))


def replay(case):
    if case.get("part") != "bfs":
        return roundtrip.replay(case)
    history = tuple(tuple(o) for o in case["history"])
    op = tuple(case["op"])
    ex = Explorer(case["mode"], case["root"])
    try:
        built = ex.rebuild(history)
        if built is None:
            return dict(ok=False, key="history-not-reproducible")
        state, warm = built
        bad = ex.transition(ex.tree.snapshot(), state, warm, op,
                            bool(case.get("after_option_read")))[0]
    finally:
        ex.tree.close()
    if bad is None:
        return dict(ok=True)
    return dict(ok=False, key=bad[0], expected=bad[1], observed=bad[2])


if __name__ == "__main__":
    driver.main(sys.modules[__name__])
