"""C18 - BMCI estimates are the importance-weighted statistics of the
database (DESIGN.md section 3, C18).

Small part: every database of a few entries over a small (y, x) alphabet in
every order, each covariance, each observation of a lattice (on the entries,
half-way, far away), each x2_max; 1 and 2 channels over a full lattice, 3..10
channels over five structured vectors and in several array representations.
Large part: structured 5000-entry databases in four orders and several array
representations.
Oracle: checks/c18_oracle.py (direct weighted sums in numpy.longdouble).
"""
import functools
import itertools
import sys

from mc import driver
driver.setup_env()

import numpy as np                                        # noqa: E402

from checks import c18_oracle as oracle                   # noqa: E402

PROP = "C18"
LEVEL = "exploration"
RULE = ("small part: every multiset of n entries (y, x) in every distinct "
        "order. 1 channel (n<=3 quick / n<=4 thorough): y in {0,1,2,10}, x in "
        "{0,1,5}; 2 channels (same n): y in {0,1,2,10}^2 for n<=2, y in "
        "{(0,0),(1,0),(1,1),(10,2)} (ties along both pruning axes) for n>=3, "
        "plus (2,1),(10,10) for n=3 thorough; x covariances [1], [0.25], [4] "
        "/ diag(1,4), [[1,.5],[.5,1]], all but [4] also x1e-3; x 9 / 10 "
        "observations (on the lattice, half-way, ~10^3 away). m = 3, 8, 10 "
        "channels quick / m = 3..10 thorough (n<=2 quick / n<=3 thorough): y "
        "in {0, float32(0.1) e_1, (1,..,1), (0,1,2,10,0,1,..), 10 e_m}, x in "
        "{1,5}; x covariances diag(ev), H diag(ev) H (H the reflection along "
        "(1,..,m)), ev = m values 1e-2..1e4; x 9 observations (the five "
        "vectors, two half-way, (1,..,1)+0.4 e_1, 1010 e_1); x array "
        "representation of y: plain (C-ordered float64), Fortran-ordered, "
        "float32, thorough also a view strided along both axes. "
        "x2_max in {-1,0,0.5,2,10,1e6} everywhere; the further ways of asking "
        "for the unrestricted mode {argument omitted, int -1, -1e-300} in "
        "addition for n<=2 with 1 or >=3 channels (quick) / for n<=3 "
        "(thorough) and in the large part. "
        "Large part: 6 structured 5000-entry databases (1 channel ramp; 3, 8, "
        "9, 10 channels with the smallest of the covariance eigenvalues "
        "1e-2..1e4; 6 distinct y with constant x; y and observations rounded "
        "to float32 values) x 4 orders x the array representations of the "
        "tier x 6-7 observations x all 9 x2_max. "
        "One case = (ordered database in one representation, "
        "covariance, observation, x2_max); predict, weights, cdf and "
        "predict_quantiles (tau in {0,.1,.5,.9,1}) are all judged; a failure "
        "that the plain representation of the same case does not show is "
        "reported under <key>/<representation>. "
        "Non-trivial = at least two entries with distinct x "
        "carry non-zero weight, or the window leaves out at least one entry, "
        "or no entry has non-zero weight (NaN path). Cases are distinct by "
        "construction.")
ASSUMPTIONS = [
    "decided on the listed finite lattices only; larger databases only for "
    "the six structured families and four orders each",
    "array representations of y other than C-ordered float64 only for >= 3 "
    "channels in the small part and in the large part (which has 1, 2, 3, 8, "
    "9 and 10 channels); x, the covariance and the observations are always "
    "C-ordered float64 arrays, the observations float32-representable "
    "wherever they are meant to coincide with a float32 entry",
    "an omitted x2_max is judged as the unrestricted mode (the statement "
    "gives predict() etc. without x2_max as the complete weighted sums)",
    "chi-square of an entry = (y - y_i)^T S^-1 (y - y_i); a weight is "
    "'non-zero' when exp(-chi2/2) is a normal IEEE double (chi2/2 <= 700) "
    "and 'zero' when it underflows to 0.0 (chi2/2 >= 746); no case has its "
    "best entry between the two (asserted for every case)",
    "which entries BMCI leaves out is read from the (i_l, i_u) window that "
    "BMCI.weights returns and from BMCI.y / BMCI.x, after checking that "
    "those are a permutation of the database",
    "tolerances: 32 eps cond(S) (1 + sum|terms| of the quadratic form) "
    "relative per weight, propagated to mean, variance and cdf",
    "cdf values are only required to lie in [P(x<v), P(x<=v)], quantiles "
    "between the bracketing entries (the statement fixes no tie or "
    "interpolation convention)",
    "crps() and pdf() are not part of the statement and are not called",
]

X_VALUES = (0.0, 1.0, 5.0)
X_WIDE = (1.0, 5.0)
Y_LATTICE = (0.0, 1.0, 2.0, 10.0)
# 2-channel sub-lattices for n >= 3: ties along both pruning axes ((1,0) for
# diag(1,4), (1,-1) for the correlated covariance) and a distant entry
Y2_CORE4 = ((0.0, 0.0), (1.0, 0.0), (1.0, 1.0), (10.0, 2.0))
Y2_CORE6 = Y2_CORE4 + ((2.0, 1.0), (10.0, 10.0))
# exact in float32 but not dyadic: the mean of two entries is then no float32
TENTH32 = float(np.float32(0.1))
X2_MAX = (-1.0, 0.0, 0.5, 2.0, 10.0, 1e6)
# further ways of asking for the unrestricted mode; None = argument omitted
X2_UNRESTRICTED = (None, -1, -1e-300)
CHANNELS = {"quick": (1, 2, 3, 8, 10), "thorough": tuple(range(1, 11))}
CHUNK = {1: 48, 2: 40, 3: 12, 4: 5}      # multisets per shard
LARGE_N = 5000

# how the database y is handed to BMCI (the values are the same)
PLAIN = "plain"
REPRESENTATIONS = {
    PLAIN: lambda y: y,
    "fortran-ordered-y": lambda y: np.array(y, order="F"),
    "float32-y": lambda y: y.astype(np.float32),
    "strided-view-y": lambda y: np.repeat(np.repeat(y, 2, 0), 2, 1)[::2, ::2],
}


def representations(tier):
    return [r for r in REPRESENTATIONS
            if tier == "thorough" or r != "strided-view-y"]


def householder_spd(eigenvalues):
    """Q diag(ev) Q^T with Q the reflection along (1, 2, ..., m)."""
    m = len(eigenvalues)
    u = np.arange(1.0, m + 1)
    q = np.eye(m) - 2 * np.outer(u, u) / (u @ u)
    s = q @ np.diag(eigenvalues) @ q.T
    return (s + s.T) / 2


def wide_vectors(m):
    i = np.arange(m)
    return [np.zeros(m), TENTH32 * (i == 0), np.ones(m),
            np.array(Y_LATTICE)[i % 4], 10.0 * (i == m - 1)]


def wide_observations(m):
    v = wide_vectors(m)
    e1 = 1.0 * (np.arange(m) == 0)
    return np.array(v + [v[2] / 2, (v[3] + v[4]) / 2, v[2] + 0.4 * e1,
                         1010.0 * e1])


BASE_COVS = {1: ([[1.0]], [[0.25]]),
             2: ([[1.0, 0.0], [0.0, 4.0]], [[1.0, 0.5], [0.5, 1.0]])}
COVS = {m: [np.array(c) * f for f in (1.0, 1e-3) for c in cs]
        for m, cs in BASE_COVS.items()}
COVS[1].append(np.array([[4.0]]))      # smallest eigenvalue above 1
OBS = {1: np.array([[0.0], [1.0], [2.0], [10.0], [0.5], [1.5], [6.0],
                    [1010.0], [-1000.0]]),
       2: np.array([[0.0, 0.0], [1.0, 1.0], [2.0, 1.0], [10.0, 2.0],
                    [10.0, 10.0], [0.5, 0.5], [1.5, 0.5], [6.0, 1.0],
                    [1010.0, 1010.0], [1010.0, 0.0]])}
for _m in range(3, 11):
    _ev = 10.0 ** np.linspace(-2, 4, _m)
    COVS[_m] = [np.diag(_ev), householder_spd(_ev)]
    OBS[_m] = wide_observations(_m)


def entry_types(m, n, tier):
    if m >= 3:
        return [(tuple(v.tolist()), x) for v in wide_vectors(m)
                for x in X_WIDE]
    if m == 1:
        ys = [(a,) for a in Y_LATTICE]
    elif n <= 2:
        ys = list(itertools.product(Y_LATTICE, repeat=2))
    else:
        ys = Y2_CORE6 if (n == 3 and tier == "thorough") else Y2_CORE4
    return [(y, x) for y in ys for x in X_VALUES]


def max_entries(m, tier):
    return (3 if m <= 2 else 2) + (tier == "thorough")


def x2_alphabet(m, n, tier):
    if n <= 3 if tier == "thorough" else (n <= 2 and m != 2):
        return X2_MAX + X2_UNRESTRICTED
    return X2_MAX


def multisets(types, n):
    return itertools.combinations_with_replacement(range(len(types)), n)


def shards(tier, seed):
    out = []
    for m in CHANNELS[tier]:
        for n in range(1, max_entries(m, tier) + 1):
            total = sum(1 for _ in multisets(entry_types(m, n, tier), n))
            out.extend(("small", tier, m, n, a, min(a + CHUNK[n], total))
                       for a in range(0, total, CHUNK[n]))
    out.extend(("large", tier, name, perm) for name in LARGE
               for perm in PERMS)
    return out


# --------------------------------------------------------------------------
# one ordered database against typhon
# --------------------------------------------------------------------------

NO_FLAGS = (False, False, False, False)


def attempt(f, *args):
    try:
        return f(*args)
    except Exception as exc:
        return exc


def per_observation(f, obs, unpack):
    """f on the whole batch; if that raises, one observation at a time so
    that an exception is attributed to the observation that causes it."""
    got = attempt(f, obs)
    if not isinstance(got, Exception):
        return unpack(got)
    out = []
    for i in range(len(obs)):
        got = attempt(f, obs[i:i + 1])
        out.append(got if isinstance(got, Exception) else unpack(got)[0])
    return out


def flat(v):
    return np.asarray(v, float).reshape(-1).tolist()


class Database:
    """A canonical database (entry order irrelevant) with its oracle
    quantities; `check` runs typhon on one ordering of it."""

    def __init__(self, y, x, metric, obs, exponents=None):
        self.y, self.x, self.metric, self.obs = y, x, metric, obs
        self.n = len(x)
        self.x_min, self.x_max = float(x.min()), float(x.max())
        self.expo = exponents or [metric.exponents(y, o) for o in obs]
        self.index = {}
        for i, key in enumerate(zip(map(tuple, y.tolist()), x.tolist())):
            self.index.setdefault(key, []).append(i)
        self.cache, self.entries = {}, {}

    def positions(self, by, bx):
        """typhon's rows -> indices of the canonical entries; None unless
        the rows are a permutation of the database."""
        if by.shape != self.y.shape or bx.shape != self.x.shape:
            return None
        used, pos = {}, []
        for key in zip(map(tuple, by.tolist()), bx.tolist()):
            same = self.index.get(key, ())
            k = used.get(key, 0)
            if k >= len(same):
                return None
            pos.append(same[k])
            used[key] = k + 1
        return pos

    def per_entry(self, oi):
        """chi-square and (weight, tolerance) of every entry."""
        if oi not in self.entries:
            e, a = self.expo[oi]
            w = np.exp(-e)
            tol = oracle.weight_error(e, a, self.metric.cond) * w + 1e-290
            self.entries[oi] = ((2 * e).astype(float).tolist(),
                                list(zip(w.astype(float).tolist(),
                                         tol.astype(float).tolist())))
        return self.entries[oi]

    def expect(self, oi, kept):
        """(statistics of the entries `kept`, weight share of the others)"""
        key = (oi, kept)
        if key not in self.cache:
            e, a = self.expo[oi]
            ex = oracle.expectation(self.x, e, a, self.metric.cond, kept)
            share = None
            if len(kept) < self.n and e.min() <= oracle.E_NORMAL:
                left = sorted(set(range(self.n)) - set(kept))
                share = oracle.left_out_share(e, left)
            self.cache[key] = ex, share
        return self.cache[key]

    def check(self, order, x2_values, representation):
        """Yields, per x2_max, [(flags, violations) per observation] for the
        database in the given entry order and array representation; flags =
        (non-trivial, NaN path, something left out, best entry in the
        subnormal band)."""
        from typhon.retrieval.bmci import BMCI
        y = REPRESENTATIONS[representation](self.y[list(order)])
        assert np.array_equal(y.astype(float), self.y[list(order)])
        bmci = attempt(BMCI, y, self.x[list(order)], self.metric.s.copy())
        if isinstance(bmci, Exception):
            pos = None
            broken = ("exception/init/" + type(bmci).__name__, None,
                      repr(bmci)[:120], "")
        else:
            pos = self.positions(bmci.y, bmci.x)
            broken = ("init/stored-entries-not-a-permutation-of-database",
                      None, [bmci.y, bmci.x], "")
        for x2 in x2_values:
            if pos is None:
                yield x2, [(NO_FLAGS, [broken])] * len(self.obs)
                continue
            xargs = () if x2 is None else (x2,)
            pred = per_observation(
                lambda o: bmci.predict(o, *xargs), self.obs,
                lambda r: list(zip(flat(r[0]), flat(r[1]))))
            qs = per_observation(
                lambda o: bmci.predict_quantiles(o, oracle.TAUS, *xargs),
                self.obs, lambda r: [flat(row) for row in r])
            yield x2, [self.judge(bmci, pos, oi, x2, xargs, pred[oi], qs[oi])
                       for oi in range(len(self.obs))]

    def judge(self, bmci, pos, oi, x2, xargs, pred, q):
        win = attempt(bmci.weights, self.obs[oi], *xargs)
        if isinstance(win, Exception):
            return NO_FLAGS, [("exception/weights/" + type(win).__name__,
                               None, repr(win)[:120], "")]
        i_l, i_u = int(win[0]), int(win[1])
        if not 0 <= i_l <= i_u <= self.n:
            return NO_FLAGS, [("weights/window-outside-database",
                               [0, self.n], [i_l, i_u], "")]
        cdf = attempt(bmci.cdf, self.obs[oi], *xargs)
        if not isinstance(cdf, Exception):
            cdf = (flat(cdf[0]), flat(cdf[1]))
        chi2, weights = self.per_entry(oi)
        left = pos[:i_l] + pos[i_u:]
        kept_ex, share = self.expect(oi, tuple(sorted(pos[i_l:i_u])))
        full_ex, _ = self.expect(oi, tuple(range(self.n)))
        bad = oracle.judge(
            x2, self.x_min, self.x_max, kept_ex, full_ex, share,
            [chi2[i] for i in left], [weights[i] for i in pos[i_l:i_u]],
            dict(ws=flat(win[2]), pred=pred, cdf=cdf, q=q))
        return (kept_ex.mixture or bool(left) or kept_ex.nan, kept_ex.nan,
                bool(left), kept_ex.band), bad


def keyed(key, rep, plain_keys):
    """A failure that the plain arrays of the same case do not show has a
    root cause of its own: the representation becomes part of the key."""
    return key if rep == PLAIN or key in plain_keys else key + "/" + rep


def record(res, db, order, x2_values, reps, describe):
    """Runs one ordered database in each representation (the plain one
    first), counts its cases and records violations; those that end up in
    the report (the first few per key) are confirmed by running that x2_max
    a second time."""
    assert reps[0] == PLAIN
    plain = {}
    for rep in reps:
        for x2, results in db.check(order, x2_values, rep):
            raw = [[b[0] for b in bad] for _, bad in results]
            keys = [[keyed(k, rep, plain.get((x2, oi), ())) for k in ks]
                    for oi, ks in enumerate(raw)]
            if rep == PLAIN:
                plain.update(((x2, oi), ks) for oi, ks in enumerate(raw))
            if any(res.vio_per_key.get(k, 0) < res.MAX_PER_KEY
                   for ks in keys for k in ks):
                _, again = next(db.check(order, [x2], rep))
                if [[b[0] for b in bad] for _, bad in again] != raw:
                    res.error("NONDETERMINISM %r" % (describe(0, x2, rep),))
            for oi, ((nontrivial, nan, pruned, band), bad) in \
                    enumerate(results):
                res.case(nontrivial=nontrivial)
                res.count("nan_path_cases", int(nan))
                res.count("cases_with_entries_left_out", int(pruned))
                if band:
                    res.error("best entry in the subnormal band: %r"
                              % (describe(oi, x2, rep),))
                for key, (_, exp, obs, msg) in zip(keys[oi], bad):
                    res.violation(key, describe(oi, x2, rep), exp, obs, msg)
            res.add("x2_max_values", repr(x2))
        res.add("representations", rep)
    res.add("channel_counts", db.y.shape[1])


# --------------------------------------------------------------------------
# small part
# --------------------------------------------------------------------------

def small_database(m, types, ms, metric, tables=None):
    y = np.array([types[t][0] for t in ms], float).reshape(len(ms), m)
    x = np.array([types[t][1] for t in ms], float)
    expo = None
    if tables is not None:
        idx = list(ms)
        expo = [(e[idx], a[idx]) for e, a in tables]
    return Database(y, x, metric, OBS[m], expo)


def run_small(shard):
    _, tier, m, n, start, stop = shard
    res = driver.ShardResult()
    types = entry_types(m, n, tier)
    metrics = [oracle.Metric(s) for s in COVS[m]]
    ty = np.array([t[0] for t in types], float)
    tables = [[mt.exponents(ty, o) for o in OBS[m]] for mt in metrics]
    reps = representations(tier) if m >= 3 else [PLAIN]
    x2_values = x2_alphabet(m, n, tier)
    last = None
    for ms in itertools.islice(multisets(types, n), start, stop):
        orders = order_representatives(ms)
        for ci, metric in enumerate(metrics):
            db = small_database(m, types, ms, metric, tables[ci])
            for order in orders:
                def describe(oi, x2, rep, order=order, ci=ci):
                    return dict(part="small", m=m, cov=ci, obs=oi, x2_max=x2,
                                representation=rep,
                                db=[[list(types[ms[i]][0]), types[ms[i]][1]]
                                    for i in order])
                record(res, db, order, x2_values, reps, describe)
                last = describe(len(OBS[m]) - 1, x2_values[-1], reps[-1])
        res.count("ordered_databases", len(orders))
        res.count("multisets", 1)
    res.sample(last)
    return res


def order_representatives(ms):
    """One index order per distinct arrangement of a multiset with repeated
    entries (so that ordered databases are distinct by construction)."""
    seen, out = set(), []
    for order in itertools.permutations(range(len(ms))):
        arrangement = tuple(ms[i] for i in order)
        if arrangement not in seen:
            seen.add(arrangement)
            out.append(order)
    return out


# --------------------------------------------------------------------------
# large part
# --------------------------------------------------------------------------

def large_ramp():
    i = np.arange(LARGE_N)
    return (0.002 * i.reshape(-1, 1), np.array(X_VALUES)[i % 3],
            np.array([[4.0]]),
            np.array([[5.0], [5.001], [0.0], [9.998], [10.5], [1009.998],
                      [-1000.0]]))


def large_channels(m):
    i = np.arange(LARGE_N).reshape(-1, 1)
    j = np.arange(m).reshape(1, -1)
    y = 0.05 * ((i * (2 * j + 1) + j * j) % 41) + 0.001 * (i // 41) * (j == 0)
    x = ((7 * i.ravel()) % 11).astype(float)
    s = householder_spd([1e-2, 0.1, 1, 1, 2, 5, 10, 100, 1e3, 1e4][:m])
    obs = np.array([y[1234], y[0], (y[100] + y[101]) / 2, y.min(axis=0),
                    y.max(axis=0) + 0.3, y[17] + 1000.0])
    return y, x, s, obs


def large_duplicates():
    i = np.arange(LARGE_N)
    return (np.array(Y2_CORE6)[i % 6], np.full(LARGE_N, 5.0),
            np.array([[1.0, 0.5], [0.5, 1.0]]),
            np.array([[1.0, 1.0], [1.5, 0.5], [0.0, 0.0], [10.0, 10.0],
                      [6.0, 1.0], [1010.0, 1010.0]]))


LARGE = {"ramp": large_ramp, "duplicates": large_duplicates,
         "channels": functools.partial(large_channels, 10),
         "channels9": functools.partial(large_channels, 9),
         "channels8": functools.partial(large_channels, 8),
         "channels3": functools.partial(large_channels, 3)}
PERMS = {"identity": lambda i: i,
         "reversed": lambda i: i[::-1],
         "stride1231": lambda i: (i * 1231) % LARGE_N,     # gcd(1231, n) = 1
         "interleaved": lambda i: np.concatenate([i[0::2], i[1::2][::-1]])}


def large_database(name):
    """The family rounded to float32 values, so that every representation
    holds the same numbers and an observation "on an entry" stays on it."""
    y, x, s, obs = LARGE[name]()
    y, obs = (a.astype(np.float32).astype(float) for a in (y, obs))
    return Database(y, x, oracle.Metric(s), obs)


def run_large(shard):
    _, tier, name, perm = shard
    res = driver.ShardResult()
    db = large_database(name)
    order = PERMS[perm](np.arange(LARGE_N))
    assert sorted(order.tolist()) == list(range(LARGE_N))

    def describe(oi, x2, rep):
        return dict(part="large", db=name, perm=perm, obs=oi, x2_max=x2,
                    representation=rep, entries=LARGE_N,
                    channels=db.y.shape[1], built_by="checks.c18_bmci."
                    "large_database(db) / PERMS[perm]")
    x2_values = X2_MAX + X2_UNRESTRICTED
    reps = representations(tier)
    record(res, db, order, x2_values, reps, describe)
    res.count("ordered_databases", 1)
    res.sample(describe(0, x2_values[-1], reps[-1]))
    return res


# --------------------------------------------------------------------------

def run_shard(shard):
    return run_small(shard) if shard[0] == "small" else run_large(shard)


def replay(case):
    rep = case.get("representation", PLAIN)    # replays older than the field
    if case["part"] == "small":
        m = case["m"]
        types = [(tuple(y), x) for y, x in case["db"]]
        db = small_database(m, types, range(len(types)),
                            oracle.Metric(COVS[m][case["cov"]]))
        order = range(len(types))
    else:
        db = large_database(case["db"])
        order = PERMS[case["perm"]](np.arange(LARGE_N))

    def failures(representation):
        _, results = next(db.check(order, [case["x2_max"]], representation))
        return results[case["obs"]][1]
    bad = failures(rep)
    if not bad:
        return dict(ok=True)
    plain_keys = [b[0] for b in (bad if rep == PLAIN else failures(PLAIN))]
    keys = [keyed(b[0], rep, plain_keys) for b in bad]
    return dict(ok=False, key=keys[0], expected=bad[0][1],
                observed=bad[0][2], all_keys=keys,
                observation=db.obs[case["obs"]])


if __name__ == "__main__":
    driver.main(sys.modules[__name__])
