"""C18 - BMCI estimates are the importance-weighted statistics of the
database (DESIGN.md section 3, C18).

Small part: every database of <=3 (quick) / <=4 (thorough) entries over a
small (y, x) alphabet in every order, each covariance, each observation of a
lattice (on the entries, half-way, 10^3 away), each x2_max.
Large part: three structured 5000-entry databases in four orders.
Oracle: checks/c18_oracle.py (direct weighted sums in numpy.longdouble).
"""
import itertools
import sys

from mc import driver
driver.setup_env()

import numpy as np                                        # noqa: E402

from checks import c18_oracle as oracle                   # noqa: E402

PROP = "C18"
LEVEL = "exploration"
RULE = ("small part: every multiset of n entries (y, x) in every distinct "
        "order, n<=3 quick / n<=4 thorough; 1 channel: y in {0,1,2,10}, x in "
        "{0,1,5}; 2 channels: y in {0,1,2,10}^2 for n<=2, y in {(0,0),(1,0),"
        "(1,1),(10,2)} (ties along both pruning axes) for n>=3, plus (2,1),"
        "(10,10) for n=3 thorough; x covariances [1], [0.25], [4] / diag(1,4),"
        " [[1,.5],[.5,1]], all but [4] also x1e-3; x 9 / 10 observations (on "
        "the lattice, half-way, ~10^3 away) x x2_max in {-1,0,0.5,2,10,1e6}. "
        "Large part: 3 structured 5000-entry databases (1 channel ramp; 10 "
        "channels with covariance eigenvalues 1e-2..1e4; 6 distinct y with "
        "constant x) x 4 orders x 6-7 observations x the same x2_max. One "
        "case = (ordered database, covariance, observation, x2_max); "
        "predict, weights, cdf and predict_quantiles (tau in {0,.1,.5,.9,1}) "
        "are all judged. Non-trivial = at least two entries with distinct x "
        "carry non-zero weight, or the window leaves out at least one entry, "
        "or no entry has non-zero weight (NaN path). Cases are distinct by "
        "construction.")
ASSUMPTIONS = [
    "decided on the listed finite lattices only; larger databases only for "
    "the three structured families and four orders each",
    "chi-square of an entry = (y - y_i)^T S^-1 (y - y_i); a weight is "
    "'non-zero' when exp(-chi2/2) is a normal IEEE double (chi2/2 <= 700) "
    "and 'zero' when it underflows to 0.0 (chi2/2 >= 746); no case has its "
    "best entry between the two (asserted for every case)",
    "which entries BMCI leaves out is read from the (i_l, i_u) window that "
    "BMCI.weights returns and from BMCI.y / BMCI.x, after checking that "
    "those are a permutation of the database",
    "tolerances: 32 eps cond(S) (1 + sum|terms| of the quadratic form) "
    "relative per weight, propagated to mean, variance and cdf",
    "cdf values are only required to lie in [P(x<v), P(x<=v)], quantiles "
    "between the bracketing entries (the statement fixes no tie or "
    "interpolation convention)",
    "crps() and pdf() are not part of the statement and are not called",
]

X_VALUES = (0.0, 1.0, 5.0)
Y_LATTICE = (0.0, 1.0, 2.0, 10.0)
# 2-channel sub-lattices for n >= 3: ties along both pruning axes ((1,0) for
# diag(1,4), (1,-1) for the correlated covariance) and a distant entry
Y2_CORE4 = ((0.0, 0.0), (1.0, 0.0), (1.0, 1.0), (10.0, 2.0))
Y2_CORE6 = Y2_CORE4 + ((2.0, 1.0), (10.0, 10.0))
X2_MAX = (-1.0, 0.0, 0.5, 2.0, 10.0, 1e6)
BASE_COVS = {1: ([[1.0]], [[0.25]]),
             2: ([[1.0, 0.0], [0.0, 4.0]], [[1.0, 0.5], [0.5, 1.0]])}
COVS = {m: [np.array(c) * f for f in (1.0, 1e-3) for c in cs]
        for m, cs in BASE_COVS.items()}
COVS[1].append(np.array([[4.0]]))      # smallest eigenvalue above 1
OBS = {1: np.array([[0.0], [1.0], [2.0], [10.0], [0.5], [1.5], [6.0],
                    [1010.0], [-1000.0]]),
       2: np.array([[0.0, 0.0], [1.0, 1.0], [2.0, 1.0], [10.0, 2.0],
                    [10.0, 10.0], [0.5, 0.5], [1.5, 0.5], [6.0, 1.0],
                    [1010.0, 1010.0], [1010.0, 0.0]])}
CHUNK = {1: 48, 2: 40, 3: 12, 4: 5}      # multisets per shard
LARGE_N = 5000


def entry_types(m, n, tier):
    if m == 1:
        ys = [(a,) for a in Y_LATTICE]
    elif n <= 2:
        ys = list(itertools.product(Y_LATTICE, repeat=2))
    else:
        ys = Y2_CORE6 if (n == 3 and tier == "thorough") else Y2_CORE4
    return [(y, x) for y in ys for x in X_VALUES]


def multisets(types, n):
    return itertools.combinations_with_replacement(range(len(types)), n)


def shards(tier, seed):
    out = []
    for m in (1, 2):
        for n in range(1, (3 if tier == "quick" else 4) + 1):
            total = sum(1 for _ in multisets(entry_types(m, n, tier), n))
            out.extend(("small", tier, m, n, a, min(a + CHUNK[n], total))
                       for a in range(0, total, CHUNK[n]))
    out.extend(("large", name, perm) for name in LARGE for perm in PERMS)
    return out


# --------------------------------------------------------------------------
# one ordered database against typhon
# --------------------------------------------------------------------------

NO_FLAGS = (False, False, False, False)


def attempt(f, *args):
    try:
        return f(*args)
    except Exception as exc:
        return exc


def per_observation(f, obs, x2, unpack):
    """f on the whole batch; if that raises, one observation at a time so
    that an exception is attributed to the observation that causes it."""
    got = attempt(f, obs, x2)
    if not isinstance(got, Exception):
        return unpack(got)
    out = []
    for i in range(len(obs)):
        got = attempt(f, obs[i:i + 1], x2)
        out.append(got if isinstance(got, Exception) else unpack(got)[0])
    return out


def flat(v):
    return np.asarray(v, float).reshape(-1).tolist()


class Database:
    """A canonical database (entry order irrelevant) with its oracle
    quantities; `check` runs typhon on one ordering of it."""

    def __init__(self, y, x, metric, obs, exponents=None):
        self.y, self.x, self.metric, self.obs = y, x, metric, obs
        self.n = len(x)
        self.x_min, self.x_max = float(x.min()), float(x.max())
        self.expo = exponents or [metric.exponents(y, o) for o in obs]
        self.index = {}
        for i, key in enumerate(zip(map(tuple, y.tolist()), x.tolist())):
            self.index.setdefault(key, []).append(i)
        self.cache, self.entries = {}, {}

    def positions(self, by, bx):
        """typhon's rows -> indices of the canonical entries; None unless
        the rows are a permutation of the database."""
        if by.shape != self.y.shape or bx.shape != self.x.shape:
            return None
        used, pos = {}, []
        for key in zip(map(tuple, by.tolist()), bx.tolist()):
            same = self.index.get(key, ())
            k = used.get(key, 0)
            if k >= len(same):
                return None
            pos.append(same[k])
            used[key] = k + 1
        return pos

    def per_entry(self, oi):
        """chi-square and (weight, tolerance) of every entry."""
        if oi not in self.entries:
            e, a = self.expo[oi]
            w = np.exp(-e)
            tol = oracle.weight_error(e, a, self.metric.cond) * w + 1e-290
            self.entries[oi] = ((2 * e).astype(float).tolist(),
                                list(zip(w.astype(float).tolist(),
                                         tol.astype(float).tolist())))
        return self.entries[oi]

    def expect(self, oi, kept):
        """(statistics of the entries `kept`, weight share of the others)"""
        key = (oi, kept)
        if key not in self.cache:
            e, a = self.expo[oi]
            ex = oracle.expectation(self.x, e, a, self.metric.cond, kept)
            share = None
            if len(kept) < self.n and e.min() <= oracle.E_NORMAL:
                left = sorted(set(range(self.n)) - set(kept))
                share = oracle.left_out_share(e, left)
            self.cache[key] = ex, share
        return self.cache[key]

    def check(self, order, x2_values):
        """Yields, per x2_max, [(flags, violations) per observation] for the
        database in the given entry order; flags = (non-trivial, NaN path,
        something left out, best entry in the subnormal band)."""
        from typhon.retrieval.bmci import BMCI
        y, x = self.y[list(order)], self.x[list(order)]
        bmci = attempt(BMCI, y.copy(), x.copy(), self.metric.s.copy())
        if isinstance(bmci, Exception):
            pos = None
            broken = ("exception/init/" + type(bmci).__name__, None,
                      repr(bmci)[:120], "")
        else:
            pos = self.positions(bmci.y, bmci.x)
            broken = ("init/stored-entries-not-a-permutation-of-database",
                      None, [bmci.y, bmci.x], "")
        for x2 in x2_values:
            if pos is None:
                yield x2, [(NO_FLAGS, [broken])] * len(self.obs)
                continue
            pred = per_observation(
                bmci.predict, self.obs, x2,
                lambda r: list(zip(flat(r[0]), flat(r[1]))))
            qs = per_observation(
                lambda o, c: bmci.predict_quantiles(o, oracle.TAUS, c),
                self.obs, x2, lambda r: [flat(row) for row in r])
            yield x2, [self.judge(bmci, pos, oi, x2, pred[oi], qs[oi])
                       for oi in range(len(self.obs))]

    def judge(self, bmci, pos, oi, x2, pred, q):
        win = attempt(bmci.weights, self.obs[oi], x2)
        if isinstance(win, Exception):
            return NO_FLAGS, [("exception/weights/" + type(win).__name__,
                               None, repr(win)[:120], "")]
        i_l, i_u = int(win[0]), int(win[1])
        if not 0 <= i_l <= i_u <= self.n:
            return NO_FLAGS, [("weights/window-outside-database",
                               [0, self.n], [i_l, i_u], "")]
        cdf = attempt(bmci.cdf, self.obs[oi], x2)
        if not isinstance(cdf, Exception):
            cdf = (flat(cdf[0]), flat(cdf[1]))
        chi2, weights = self.per_entry(oi)
        left = pos[:i_l] + pos[i_u:]
        kept_ex, share = self.expect(oi, tuple(sorted(pos[i_l:i_u])))
        full_ex, _ = self.expect(oi, tuple(range(self.n)))
        bad = oracle.judge(
            x2, self.x_min, self.x_max, kept_ex, full_ex, share,
            [chi2[i] for i in left], [weights[i] for i in pos[i_l:i_u]],
            dict(ws=flat(win[2]), pred=pred, cdf=cdf, q=q))
        return (kept_ex.mixture or bool(left) or kept_ex.nan, kept_ex.nan,
                bool(left), kept_ex.band), bad


def record(res, db, order, x2_values, describe):
    """Runs one ordered database, counts its cases and records violations;
    those that end up in the report (the first few per key) are confirmed by
    running that x2_max a second time."""
    for x2, results in db.check(order, x2_values):
        if any(res.vio_per_key.get(b[0], 0) < res.MAX_PER_KEY
               for _, bad in results for b in bad):
            _, again = next(db.check(order, [x2]))
            if [[b[0] for b in bad] for _, bad in again] != \
                    [[b[0] for b in bad] for _, bad in results]:
                res.error("NONDETERMINISM %r" % (describe(0, x2),))
        for oi, ((nontrivial, nan, pruned, band), bad) in enumerate(results):
            res.case(nontrivial=nontrivial)
            res.count("nan_path_cases", int(nan))
            res.count("cases_with_entries_left_out", int(pruned))
            if band:
                res.error("best entry in the subnormal band: %r"
                          % (describe(oi, x2),))
            for key, exp, obs, msg in bad:
                res.violation(key, describe(oi, x2), exp, obs, msg)


# --------------------------------------------------------------------------
# small part
# --------------------------------------------------------------------------

def small_database(m, types, ms, metric, tables=None):
    y = np.array([types[t][0] for t in ms], float).reshape(len(ms), m)
    x = np.array([types[t][1] for t in ms], float)
    expo = None
    if tables is not None:
        idx = list(ms)
        expo = [(e[idx], a[idx]) for e, a in tables]
    return Database(y, x, metric, OBS[m], expo)


def run_small(shard):
    _, tier, m, n, start, stop = shard
    res = driver.ShardResult()
    types = entry_types(m, n, tier)
    metrics = [oracle.Metric(s) for s in COVS[m]]
    ty = np.array([t[0] for t in types], float)
    tables = [[mt.exponents(ty, o) for o in OBS[m]] for mt in metrics]
    last = None
    for ms in itertools.islice(multisets(types, n), start, stop):
        orders = order_representatives(ms)
        for ci, metric in enumerate(metrics):
            db = small_database(m, types, ms, metric, tables[ci])
            for order in orders:
                def describe(oi, x2, order=order, ci=ci):
                    return dict(part="small", m=m, cov=ci, obs=oi, x2_max=x2,
                                db=[[list(types[ms[i]][0]), types[ms[i]][1]]
                                    for i in order])
                record(res, db, order, X2_MAX, describe)
                last = describe(len(OBS[m]) - 1, X2_MAX[-1])
        res.count("ordered_databases", len(orders))
        res.count("multisets", 1)
    res.sample(last)
    return res


def order_representatives(ms):
    """One index order per distinct arrangement of a multiset with repeated
    entries (so that ordered databases are distinct by construction)."""
    seen, out = set(), []
    for order in itertools.permutations(range(len(ms))):
        arrangement = tuple(ms[i] for i in order)
        if arrangement not in seen:
            seen.add(arrangement)
            out.append(order)
    return out


# --------------------------------------------------------------------------
# large part
# --------------------------------------------------------------------------

def householder_spd(eigenvalues):
    """Q diag(ev) Q^T with Q the reflection along (1, 2, ..., m)."""
    m = len(eigenvalues)
    u = np.arange(1.0, m + 1)
    q = np.eye(m) - 2 * np.outer(u, u) / (u @ u)
    s = q @ np.diag(eigenvalues) @ q.T
    return (s + s.T) / 2


def large_ramp():
    i = np.arange(LARGE_N)
    return (0.002 * i.reshape(-1, 1), np.array(X_VALUES)[i % 3],
            np.array([[4.0]]),
            np.array([[5.0], [5.001], [0.0], [9.998], [10.5], [1009.998],
                      [-1000.0]]))


def large_channels():
    i = np.arange(LARGE_N).reshape(-1, 1)
    j = np.arange(10).reshape(1, -1)
    y = 0.05 * ((i * (2 * j + 1) + j * j) % 41) + 0.001 * (i // 41) * (j == 0)
    x = ((7 * i.ravel()) % 11).astype(float)
    s = householder_spd([1e-2, 0.1, 1, 1, 2, 5, 10, 100, 1e3, 1e4])
    obs = np.array([y[1234], y[0], (y[100] + y[101]) / 2, y.min(axis=0),
                    y.max(axis=0) + 0.3, y[17] + 1000.0])
    return y, x, s, obs


def large_duplicates():
    i = np.arange(LARGE_N)
    return (np.array(Y2_CORE6)[i % 6], np.full(LARGE_N, 5.0),
            np.array([[1.0, 0.5], [0.5, 1.0]]),
            np.array([[1.0, 1.0], [1.5, 0.5], [0.0, 0.0], [10.0, 10.0],
                      [6.0, 1.0], [1010.0, 1010.0]]))


LARGE = {"ramp": large_ramp, "channels": large_channels,
         "duplicates": large_duplicates}
PERMS = {"identity": lambda i: i,
         "reversed": lambda i: i[::-1],
         "stride1231": lambda i: (i * 1231) % LARGE_N,     # gcd(1231, n) = 1
         "interleaved": lambda i: np.concatenate([i[0::2], i[1::2][::-1]])}


def run_large(shard):
    _, name, perm = shard
    res = driver.ShardResult()
    y, x, s, obs = LARGE[name]()
    db = Database(y, x, oracle.Metric(s), obs)
    order = PERMS[perm](np.arange(LARGE_N))
    assert sorted(order.tolist()) == list(range(LARGE_N))

    def describe(oi, x2):
        return dict(part="large", db=name, perm=perm, obs=oi, x2_max=x2,
                    built_by="checks.c18_bmci.LARGE[db] / PERMS[perm]",
                    entries=LARGE_N, channels=y.shape[1])
    record(res, db, order, X2_MAX, describe)
    res.count("ordered_databases", 1)
    res.sample(describe(0, X2_MAX[-1]))
    return res


# --------------------------------------------------------------------------

def run_shard(shard):
    return run_small(shard) if shard[0] == "small" else run_large(shard)


def replay(case):
    if case["part"] == "small":
        m = case["m"]
        types = [(tuple(y), x) for y, x in case["db"]]
        db = small_database(m, types, range(len(types)),
                            oracle.Metric(COVS[m][case["cov"]]))
        order = range(len(types))
    else:
        y, x, s, obs = LARGE[case["db"]]()
        db = Database(y, x, oracle.Metric(s), obs)
        order = PERMS[case["perm"]](np.arange(LARGE_N))
    _, results = next(db.check(order, [case["x2_max"]]))
    bad = results[case["obs"]][1]
    if not bad:
        return dict(ok=True)
    return dict(ok=False, key=bad[0][0], expected=bad[0][1],
                observed=bad[0][2], all_keys=[b[0] for b in bad],
                observation=db.obs[case["obs"]])


if __name__ == "__main__":
    driver.main(sys.modules[__name__])
