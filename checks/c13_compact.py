"""C13 - compact collocation data under expand, collapse and concat
(DESIGN.md section 3, C13).

Four parts, all judged by the loop model of c13_model on typhon-independent
snapshots taken before typhon touches a dataset:

built   every compact pair list (sequence of distinct pairs, order matters)
        of <=3 (quick) / <=4 (thorough) pairs over 3 x 3 points, as a
        harness-built dataset in the layout of Collocator._create_return;
        expand, collapse with reference default / primary / secondary and
        custom collapsers. The lists of <=2 / <=3 pairs once more with the
        extra variables (below).
real    Collocator().collocate on every pair of point sequences (<=3
        primary, <=2 / <=3 secondary points from 4 kinds of points), under
        every member of the shuffle family; pair validity, the stored
        points against the input points, then the same operations. The
        sequences of <=2 primary and 1 / <=2 secondary points once more with
        the extra variables, and once more as scan line x scan position
        grids (the result stores the grid position of every point and has
        the collocation dimension last).
concat  every list of <=3 / <=4 datasets from a pool of 6 (built and real
        ones with the extra variables; <=2 / <=3 with the second pair of
        group names), once with separate copies and, for lists naming a pool
        entry twice, with the same object listed twice.
large   every compact pattern of <=2 / <=3 pairs replicated to just below
        and to at least 1000 (thorough also 1200) pairs, in three sharing
        modes and two pair orders.

Every dataset has per-point variables of 0..2 extra dimensions (one with a
"/" in its name). The extra variables are a per-point bool and, without the
collocation dimension, a channel coordinate, a per-channel variable, a
scalar number and a scalar string (the scalars differ between datasets).
"""
import collections
import contextlib
import itertools
import math
import sys

from mc import driver
driver.setup_env()

import numpy as np

from checks import c13_model as model

PROP = "C13"
LEVEL = "exploration"
RULE = ("one case = one dataset (built/real/large) or one list of datasets "
        "(concat) on which every operation is evaluated; cases are distinct "
        "by construction (enumeration without repetition; shuffle "
        "permutations are deduplicated for the observed index size; a "
        "dataset with and without the extra variables, linear and gridded "
        "inputs are different cases). "
        "Non-trivial = built/large: the pair list is not the ascending "
        "one-to-one list; real: collocate returned a dataset with >= 2 "
        "pairs; concat: the list has >= 2 entries.")
ASSUMPTIONS = [
    "row order of expand() and collapse() is not fixed by the statement: "
    "expanded rows are compared as multisets, collapsed rows are identified "
    "by the reference group's id variable and have to carry all variables "
    "of that reference point (time, lat, lon under their name or at the "
    "root level)",
    "a variable without collocation dimension belongs to every point of "
    "its dataset: every expanded row carries its value (in the result it "
    "may or may not have the collocation dimension), so rows of a "
    "concatenation carry the value of the dataset they came from; collapse "
    "may drop such a variable but not change it",
    "not enumerated: group names containing '/', non-numeric per-point "
    "variables in the collapsed group (no mean defined), datasets whose "
    "extra dimensions or channel labels differ within one concat list, "
    "grids with more than one scan position",
    "variables whose partners are all NaN must give mean/std NaN and number "
    "0 (what a NaN-ignoring mean of nothing is in numpy)",
    "custom collapsers are called as f(matrix, axis) and must ignore NaN "
    "padding themselves (numpy.nanmax / nanmin, and matrix[0] - a view of "
    "the matrix, the values of one partner of each reference point - are "
    "used)",
    "collocate() results that are None are skipped and counted (no "
    "collocations, or a single collocation lost by the .any() emptiness "
    "tests: both belong to C04); the points of the real part stay 20 % "
    "away from both thresholds (asserted)",
    "numba is not installed here: both row-assignment branches of collapse "
    "run the pure-Python helper, the >= 1000 pairs branch is still taken",
    "numpy.random.shuffle is replaced by fixed permutations while collocate "
    "runs; xarray/numpy are trusted to hand out the stored values",
]

# the second pair of group names sorts the other way round and one name is a
# prefix of the other
NAMES = [("A", "B"), ("Sat2", "Sat")]
FUNCS = ("mean", "std", "number")

# kinds of points of the real part: (position, time class). Positions form a
# chain on the equator, 0.3 degrees (33 km) apart: with 50 km neighbours
# collocate, the ends (67 km) do not, so points sharing one partner differ in
# others. Class 1 is an hour later than class 0 (limit 60 s). Within a class
# the two sides have opposite time orders: collocate sorts by time, the
# stored order must not simply follow the positions.
KINDS = [(0, 0), (1, 0), (2, 0), (0, 1)]
SECONDS = ([0, 5, 10, 3600], [20, 12, 3, 3620])
LABELS = ([7, 3, 5], [12, 4, 9])
MAX_INTERVAL, MAX_DISTANCE = "60 s", "50 km"


# --------------------------------------------------------------------------
# operations on one dataset
# --------------------------------------------------------------------------

def call(what, func, *args, **kwargs):
    """-> (result, None) or (None, violation tuple)."""
    try:
        return func(*args, **kwargs), None
    except Exception as e:
        return None, ("exception/%s/%s" % (what, type(e).__name__), None,
                      repr(e)[:300], what)


def check_expand(ds, snap, part="expand", expected=None):
    """expand(ds) against the rows the snapshot of ds demands (or against
    `expected`; the snapshot then only names the variables)."""
    from typhon.collocations import expand
    expanded, bad = call(part, expand, ds)
    if bad:
        return bad
    if expected is None:
        expected = model.expanded_rows(snap)
    try:
        observed = model.observed_expanded_rows(expanded, snap)
    except model.Mismatch as m:
        return (part + "/" + m.what, None, m.detail, "")
    if observed != expected:
        n_exp, n_obs = sum(expected.values()), sum(observed.values())
        if n_exp != n_obs:
            return (part + "/row-count", n_exp, n_obs, "")
        identifying = [g + "/" + model.ID for g in snap.names] + \
            sorted(snap.per_pair)
        shown = identifying + [
            v for v in model.differing_variables(expected, observed)
            if v not in identifying]
        return (part + "/rows-are-not-the-pairs", short(expected, shown),
                short(observed, shown), "%s of each row" % shown)
    return None


def short(rows, shown):
    """Expanded rows reduced to the variables `shown`: the identifying ones
    (ids, per-pair metadata) and those that differ between expectation and
    observation."""
    out = []
    for row in rows.elements():
        values = dict(row)
        out.append([list(values[name]) if name in values else None
                    for name in shown])
    return sorted(out, key=repr)


def check_collapse(ds, snap):
    """collapse(ds) for every reference and with a custom collapser."""
    from typhon.collocations import collapse
    # The order matters (call history on one interpreter): a call with a
    # custom collapser - one adding a statistic, one replacing a default one -
    # is always followed by calls that rely on the defaults.
    default = {"mean": "mean", "std": "std", "number": "number"}
    variants = [
        (None, 0, None),
        (snap.names[1], 1, {"max": (lambda m, a: np.nanmax(m, axis=a),
                                    "max")}),
        (snap.names[0], 0, None),
        (snap.names[0], 0, {"mean": (lambda m, a: np.nanmin(m, axis=a),
                                     "min")}),
        # a collapser whose result is a VIEW of the matrix it was given (the
        # first row: one partner of every reference point)
        (snap.names[0], 0, {"one": (lambda m, a: m[0], "one")}),
        (snap.names[1], 1, None),
    ]
    for reference, side, custom in variants:
        funcs = dict(default)
        kwargs = {}
        if reference is not None:
            kwargs["reference"] = reference
        if custom:
            kwargs["collapser"] = {k: f for k, (f, _) in custom.items()}
            funcs.update({k: stat for k, (_, stat) in custom.items()})
        collapsed, bad = call("collapse", collapse, ds, **kwargs)
        if bad is None:
            bad = model.compare_collapsed(collapsed, snap, side, funcs)
            if bad:
                bad = ("collapse/" + bad[0],) + bad[1:]
        if bad:
            return bad[:3] + ("reference=%r custom=%r %s" % (
                reference, sorted(custom) if custom else None, bad[3]),)
    return None


def check_dataset(ds):
    """All single-dataset checks. -> None or violation tuple."""
    snap = model.snapshot(ds)
    why = model.invalid_pairs(snap)
    if why:
        return ("pairs/invalid", None, snap.pairs, why)
    return check_expand(ds, snap) or check_collapse(ds, snap)


# --------------------------------------------------------------------------
# real collocations
# --------------------------------------------------------------------------

def permutation(name, n):
    order = list(range(n))
    if name == "rev":
        order.reverse()
    elif name != "id" and name < n:
        order[0], order[name] = order[name], order[0]
    return tuple(order)


@contextlib.contextmanager
def fixed_shuffle(name, sizes):
    """numpy.random.shuffle applies the family member `name` ("id", "rev"
    or i for the transposition (0 i)); the shuffled sizes are recorded."""
    original = np.random.shuffle

    def shuffle(x):
        sizes.append(len(x))
        x[:] = x[list(permutation(name, len(x)))]
    np.random.shuffle = shuffle
    try:
        yield
    finally:
        np.random.shuffle = original


def real_variables(prim_kinds, sec_kinds, id_base=0, extras=False):
    return [model.point_variables(
        len(kinds), side, id_base + 100 + 400 * side,
        lat=[0.0] * len(kinds), lon=[0.3 * KINDS[k][0] for k in kinds],
        secs=[SECONDS[side][k] for k in kinds], extras=extras)
        for side, kinds in enumerate((prim_kinds, sec_kinds))]


def collocate(prim_kinds, sec_kinds, shuffle_name, id_base=0, names=0,
              extras=False, layout="linear"):
    """layout "grid": both inputs are scan line x scan position grids.
    -> (result or None or Exception, sizes that were shuffled)."""
    from typhon.collocations import Collocator
    prim, sec = [
        model.input_dataset(variables, dim, LABELS[side][:len(kinds)],
                            layout == "grid")
        for side, (variables, kinds, dim) in enumerate(zip(
            real_variables(prim_kinds, sec_kinds, id_base, extras),
            (prim_kinds, sec_kinds), ("pa", "pb")))]
    sizes = []
    with fixed_shuffle(shuffle_name, sizes):
        try:
            result = Collocator().collocate(
                (NAMES[names][0], prim), (NAMES[names][1], sec),
                max_interval=MAX_INTERVAL, max_distance=MAX_DISTANCE)
        except Exception as e:
            result = e
    return result, sizes


def collocated(p, s):
    """Own decision for a primary point of kind p and a secondary point of
    kind s; no lattice point is within 20 % of a threshold."""
    km = 6371.0 * math.radians(0.3 * abs(KINDS[p][0] - KINDS[s][0]))
    dt = abs(SECONDS[0][p] - SECONDS[1][s])
    assert not 40 <= km <= 60 and not 48 <= dt <= 72
    return km < 50 and dt < 60


def expected_id_pairs(prim_kinds, sec_kinds, id_base=0):
    return {(id_base + 100 + i, id_base + 500 + j)
            for i, p in enumerate(prim_kinds)
            for j, s in enumerate(sec_kinds) if collocated(p, s)}


def check_real(prim_kinds, sec_kinds, shuffle_name, extras=False,
               layout="linear"):
    """-> dict(outcome, pairs, bad = violation tuple or None, sizes =
    shuffled sizes, layout = signature of the result)."""
    result, sizes = collocate(prim_kinds, sec_kinds, shuffle_name,
                              extras=extras, layout=layout)
    out = dict(outcome="dataset", pairs=0, bad=None, sizes=sizes, layout=None)
    exp = expected_id_pairs(prim_kinds, sec_kinds)
    if result is None:
        why = ("none-no-collocations" if not exp else
               "none-single-collocation" if len(exp) == 1 else "none-other")
        return dict(out, outcome=why)
    if isinstance(result, Exception):
        return dict(out, outcome="exception", bad=(
            "exception/collocate/" + type(result).__name__, None,
            repr(result)[:300], ""))
    snap = model.snapshot(result)
    out.update(pairs=len(snap.pairs[0]), layout=model.signature(result))
    why = model.invalid_pairs(snap)
    if why:
        return dict(out, bad=("pairs/invalid", None, snap.pairs, why))
    ids = [snap.groups[g][model.ID][1] for g in snap.names]
    got = [(ids[0][i][0], ids[1][j][0]) for i, j in zip(*snap.pairs)]
    if len(set(got)) != len(got) or set(got) != exp:
        return dict(out, bad=(
            "pairs/stored-points-are-not-the-collocated-points", sorted(exp),
            got, "(primary id, secondary id) per pair"))
    for side, variables in enumerate(real_variables(prim_kinds, sec_kinds,
                                                    extras=extras)):
        position = None
        if layout == "grid":
            position = {i: dict(scnline=LABELS[side][k],
                                scnpos=LABELS[side][0])
                        for k, i in enumerate(variables[model.ID][1].tolist())}
        wrong = model.stored_point_mismatch(snap, side, variables, position)
        if wrong:
            return dict(out, bad=(
                "pairs/stored-point-differs-from-the-input-point", wrong[2],
                wrong[3], "%s of the point with id=%s" % wrong[:2]))
    return dict(out, bad=check_expand(result, snap)
                or check_collapse(result, snap))


def shuffle_family(sizes):
    """Members of {reversal, transpositions (0 i)} that act differently from
    each other and from the identity on the shuffled sizes."""
    seen = {tuple(permutation("id", n) for n in sizes)}
    out = []
    for name in ["rev"] + list(range(1, max(sizes, default=0))):
        effect = tuple(permutation(name, n) for n in sizes)
        if effect not in seen:
            seen.add(effect)
            out.append(name)
    return out


def kind_sequences(maxlen):
    return [seq for n in range(1, maxlen + 1)
            for seq in itertools.product(range(len(KINDS)), repeat=n)]


# --------------------------------------------------------------------------
# concat
# --------------------------------------------------------------------------

POOL = [
    ("built", [(0, 0)]),
    ("built", [(0, 0), (0, 1), (0, 2)]),
    ("built", [(2, 0), (0, 0), (1, 0)]),
    ("built", [(1, 1), (0, 1), (1, 0)]),
    ("real", (0, 1, 2), (2, 0)),
    ("real", (3, 0), (1, 3, 0)),
]


def pool_dataset(k, names):
    """A fresh dataset for pool entry k (ids are disjoint between entries)."""
    entry = POOL[k]
    if entry[0] == "built":
        return model.built_dataset(NAMES[names], entry[1], id_base=1000 * k,
                                   extras=True)
    result, _ = collocate(entry[1], entry[2], "rev", 1000 * k, names,
                          extras=True)
    if result is None or isinstance(result, Exception):
        raise RuntimeError("pool entry %d: collocate gave %r" % (k, result))
    return result


def check_concat(indices, alias, names):
    """concat_collocations on the pool entries `indices`; alias=True lists
    the same object for a repeated index, otherwise every position is a
    separate copy. The expansion of every input is evaluated before and
    after the call."""
    from typhon.collocations.collocator import concat_collocations
    objects = {}
    inputs = []
    for pos, k in enumerate(indices):
        key = k if alias else pos
        if key not in objects:
            objects[key] = pool_dataset(k, names)
        inputs.append(objects[key])
    before = [model.snapshot(ds) for ds in inputs]
    for ds, snap in zip(inputs, before):
        bad = check_expand(ds, snap)
        if bad:
            return bad
    merged, bad = call("concat", concat_collocations, inputs)
    if bad:
        return bad
    shifted = any(model.snapshot(ds).pairs != snap.pairs
                  for ds, snap in zip(inputs, before))
    in_place = "concat/input-pairs-shifted-in-place"
    snap = model.snapshot(merged)
    expected = sum((model.expanded_rows(s) for s in before),
                   collections.Counter())
    why = model.invalid_pairs(snap)
    if why:
        return (in_place if shifted else "concat/invalid-pairs", None,
                snap.pairs, why)
    bad = check_expand(merged, snap, "concat-expand", expected)
    if bad:
        return ((in_place,) + bad[1:]) if shifted else bad
    for pos, (ds, old) in enumerate(zip(inputs, before)):
        bad = check_expand(ds, old, "expand-after-concat")
        if bad:
            msg = "input %d after concat_collocations: %s" % (pos, bad[3])
            return (in_place if shifted else bad[0],) + bad[1:3] + (msg,)
    return None


# --------------------------------------------------------------------------
# large replications
# --------------------------------------------------------------------------

MODES = ("disjoint", "shared-primary", "shared-secondary")
ORDERS = ("blocks", "interleaved")


def replicate(pattern, copies, mode, order):
    n_prim = max(i for i, _ in pattern) + 1
    n_sec = max(j for _, j in pattern) + 1
    step_p = 0 if mode == "shared-primary" else n_prim
    step_s = 0 if mode == "shared-secondary" else n_sec
    blocks = [[(i + r * step_p, j + r * step_s) for i, j in pattern]
              for r in range(copies)]
    if order == "interleaved":
        blocks = zip(*blocks)
    return [pair for block in blocks for pair in block]


def large_shards(tier):
    """One shard per pattern: [(copies, mode, order)]. Different patterns can
    replicate to the same pair list ((0,0) x 1000 = ((0,0),(1,1)) x 500);
    every pair list is kept once."""
    maxlen = 2 if tier == "quick" else 3
    targets = (999, 1000) if tier == "quick" else (999, 1000, 1200)
    seen = set()
    out = []
    for length in range(1, maxlen + 1):
        for pattern in model.compact_pair_lists(length):
            variants = []
            for target, mode, order in itertools.product(
                    targets, MODES, ORDERS):
                # 999: as many copies as stay below 1000 pairs
                copies = (target // length if target == 999
                          else -(-target // length))
                key = driver.h64(replicate(pattern, copies, mode, order))
                if key not in seen:
                    seen.add(key)
                    variants.append((copies, mode, order))
            out.append(("large", pattern, variants))
    return out


# --------------------------------------------------------------------------
# driver protocol
# --------------------------------------------------------------------------

def shards(tier, seed):
    quick = tier == "quick"
    out = []
    for names in range(len(NAMES)):
        for length in range(1, (3 if quick else 4) + 1):
            for first in range(9 if length > 2 else 1):
                out.append(("built", names, length,
                            first if length > 2 else None, False))
        out.append(("built", names, 2 if quick else 3, None, True))
    for prim in kind_sequences(3):
        out.append(("real", prim, 2 if quick else 3, False, "linear"))
    for prim in kind_sequences(2):
        out.append(("real", prim, 1 if quick else 2, True, "linear"))
        out.append(("real", prim, 1 if quick else 2, False, "grid"))
    maxlist = 3 if quick else 4
    for prefix in itertools.product(range(len(POOL)), repeat=2):
        out.append(("concat", 0, prefix, maxlist))
        out.append(("concat", 1, prefix, maxlist - 1))
    return out + large_shards(tier)


def report(res, case, bad, rerun):
    again = rerun()
    if again is None or again[0] != bad[0]:
        res.error("NONDETERMINISM %r: %r then %r" % (case, bad[0], again))
    res.violation(bad[0], case, bad[1], bad[2], bad[3])


def run_built(res, shard):
    """Every pair list of `length` pairs (starting with pair number `first`),
    or, with extras, of up to `length` pairs."""
    _, names, length, first, extras = shard
    universe = [(i, j) for i in range(3) for j in range(3)]
    case = None
    for pairs in itertools.chain.from_iterable(
            model.compact_pair_lists(n)
            for n in range(1 if extras else length, length + 1)):
        if first is not None and pairs[0] != universe[first]:
            continue
        case = dict(part="built", names=names, pairs=pairs, extras=extras)
        res.case(nontrivial=not model.is_plain(pairs))
        res.count("typhon_calls", 7)
        bad = replay_case(case)
        if bad:
            report(res, case, bad, lambda: replay_case(case))
    if case:
        res.sample(case)


def run_real(res, shard):
    _, prim, max_sec, extras, layout = shard
    case = None
    reference = model.signature(model.built_dataset(
        NAMES[0], [(0, 0)], extras=extras))
    for sec in kind_sequences(max_sec):
        todo = ["id"]
        while todo:
            shuffle = todo.pop(0)
            case = dict(part="real", primary=prim, secondary=sec,
                        shuffle=shuffle, extras=extras, layout=layout)
            got = check_real(prim, sec, shuffle, extras, layout)
            if shuffle == "id":
                todo = shuffle_family(got["sizes"])
            dataset = got["outcome"] == "dataset"
            res.case(nontrivial=dataset and got["pairs"] >= 2)
            res.count("real_" + got["outcome"])
            res.count("typhon_calls", 8 if dataset else 1)
            if got["bad"]:
                report(res, case, got["bad"], lambda: replay_case(case))
            elif dataset:
                res.add("real_pair_counts", got["pairs"])
                # results for grids have no harness-built counterpart (the
                # collocation dimension comes last, the grid position of
                # every point is stored)
                if layout == "linear" and got["layout"] != reference:
                    res.error("harness-built layout differs from a real "
                              "result: %r vs %r" % (reference, got["layout"]))
    res.sample(case)


def run_concat(res, shard):
    """Lists starting with the two pool entries `prefix`; the one-entry list
    (k,) goes with the shard (k, k)."""
    _, names, prefix, maxlist = shard
    lists = [prefix[:1]] if prefix[0] == prefix[1] else []
    for length in range(2, maxlist + 1):
        lists += [prefix + rest for rest in itertools.product(
            range(len(POOL)), repeat=length - 2)]
    for indices in lists:
        repeated = len(set(indices)) < len(indices)
        for alias in ([False, True] if repeated else [False]):
            case = dict(part="concat", names=names, pool=indices,
                        same_object=alias)
            res.case(nontrivial=len(indices) >= 2)
            res.count("typhon_calls", 2 * len(indices) + 2)
            bad = check_concat(indices, alias, names)
            if bad:
                report(res, case, bad, lambda: replay_case(case))
    res.sample(case)


def run_large(res, shard):
    _, pattern, variants = shard
    for copies, mode, order in variants:
        case = dict(part="large", pattern=pattern, copies=copies, mode=mode,
                    order=order)
        pairs = replicate(pattern, copies, mode, order)
        res.case(nontrivial=not model.is_plain(pairs))
        res.count("typhon_calls", 7)
        res.maximum("pairs_in_one_dataset", len(pairs))
        bad = replay_case(case)
        if bad:
            report(res, case, bad, lambda: replay_case(case))
        res.sample(case)


def run_shard(shard):
    res = driver.ShardResult()
    {"built": run_built, "real": run_real, "concat": run_concat,
     "large": run_large}[shard[0]](res, shard)
    return res


def replay_case(case):
    """-> None or violation tuple."""
    part = case["part"]
    if part == "built":
        return check_dataset(model.built_dataset(
            NAMES[case["names"]], [tuple(p) for p in case["pairs"]],
            extras=case["extras"]))
    if part == "real":
        return check_real(tuple(case["primary"]), tuple(case["secondary"]),
                          case["shuffle"], case["extras"],
                          case["layout"])["bad"]
    if part == "concat":
        return check_concat(tuple(case["pool"]), case["same_object"],
                            case["names"])
    pairs = replicate([tuple(p) for p in case["pattern"]], case["copies"],
                      case["mode"], case["order"])
    return check_dataset(model.built_dataset(NAMES[0], pairs, combos=8))


def replay(case):
    bad = replay_case(case)
    if bad is None:
        return dict(ok=True)
    return dict(ok=False, key=bad[0], expected=bad[1], observed=bad[2],
                msg=bad[3])


if __name__ == "__main__":
    driver.main(sys.modules[__name__])
