"""C07, position + line-of-sight round trips.

cartposlos2geocentric(*geocentricposlos2cart(r, lat, lon, za, aa)) must give
back r (1 cm), lat, lon (1e-7 deg) and za, aa (1e-6 deg); the cartesian
position in between must be the closed-form one (1 cm). Lattice: radii x
latitudes x longitudes of the tier x zenith x azimuth angles, none singular
(zenith/nadir and poles are excluded by the statement; lines of sight exactly
in the meridian plane, aa = 0 and 180, are regular directions but
ill-conditioned in typhon's arccos formulation and are checked in a part of
their own with a conditioning-based azimuth tolerance; likewise zenith angles
0.01..0.1 deg from zenith/nadir, part "near-zenith"); called with scalars, as
one 1-D array, as one 5-D array, as five broadcastable axes and as scalars
with a vector of azimuths. A line of sight is a direction: every call with
array arguments is repeated with (dx, dy, dz) scaled by LOS_SCALES and must
return the same angles.

Part "repr": the arguments of both functions in the representations of
c07_common.REPRS (Python int, int64 arrays, float32 scalars and arrays), one
argument at a time and all together, on a lattice of values that are exact in
the representation (REPR_AXES). geocentricposlos2cart: as above (position
against the closed form, then the round trip). cartposlos2geocentric: called
with the closed-form cartesian position and a line of sight of length
LOS_LENGTH, both rounded to the representation, and compared with the atan2
forms of c07_ref.cart_to_poslos evaluated on these rounded values.
"""
import itertools

import numpy as np

from mc import driver
from checks import c07_ref as ref
from checks.c07_common import (LATTICES, REPR_MODES, as_float64, compare,
                                exact, quantize, represent,
                                representation_key, same, subsets)

RADII = [6.36e6, 6.3781e6, 7.3781e6]
# The main lattice stays >= 1 deg away from zenith/nadir and from the meridian
# plane, where 1e-6 deg is attainable: an azimuth taken from a cartesian line
# of sight loses digits like eps / (sin(za)^2 sin(aa)) next to them. Closer
# angles are checked in the parts "meridian" and "near-zenith".
ANGLES = {      # tier -> (zenith angles, azimuth angles)
    "quick": ([1.0, 30.0, 90.0, 150.0, 179.0],
              [-170.0, -90.0, -1.0, 1.0, 45.0, 90.0, 179.0]),
    "thorough": ([1.0, 10.0, 30.0, 60.0, 90.0, 120.0, 150.0, 179.0],
                 [-179.0, -170.0, -90.0, -45.0, -1.0, 1.0, 45.0, 90.0,
                  135.0, 179.0]),
}
NAMES = ("r", "lat", "lon", "za", "aa")
UNITS = ("m", "deg", "deg", "los", "los")
UNITS_MERIDIAN = ("m", "deg", "deg", "los", "los-meridian")
MERIDIAN_AZIMUTHS = [0.0, 180.0]
# regular directions on the regular side of typhon's zenith/nadir threshold
# (1e-6 deg), combined with the tier's azimuths
NEAR_ZENITHS = {"quick": [0.01, 179.9],
                "thorough": [0.01, 0.1, 179.9, 179.99]}
LOS_SCALES = (1e-3, 7.0)
# r, lat, lon, za, aa of the part "repr": whole numbers and halves, exact in
# float32; the integer representations take the whole-numbered ones
REPR_AXES = {
    "quick": ([6378137.0, 7000000.0], [-60.0, 0.0, 30.5],
              [-180.0, -90.5, 90.0, 180.0], [30.0, 90.0, 150.5],
              [-90.5, 45.0, 135.0]),
    "thorough": ([6360000.0, 6378137.0, 7000000.0, 7378100.0],
                 [-88.0, -60.0, 0.0, 30.5, 75.0],
                 [-180.0, -90.5, 0.5, 90.0, 135.0, 180.0],
                 [10.0, 30.0, 90.0, 150.5, 170.0],
                 [-170.0, -90.5, 10.0, 45.0, 135.0]),
}
LOS_LENGTH = 1000   # whole-numbered components keep the direction to 0.06 deg
K_NEAR = 64     # roundings of size eps entering cos(aa), see near_units()


def axes(tier):
    return (RADII,) + tuple(LATTICES[tier][:2]) + ANGLES[tier]


def shards(tier, seed):
    lats = axes(tier)[1]
    out = [("poslos", tier, "scalar", i, j) for i in range(len(RADII))
           for j in range(len(lats))]
    out += [("poslos", tier, shape, None, None)
            for shape in ("flat", "grid", "axes")]
    out += [("poslos", tier, part, i, None) for i in range(len(RADII))
            for part in ("aa-vector", "meridian", "near-zenith")]
    out += [("poslos", tier, "repr", i, None) for i in range(len(REPR_MODES))]
    return out


def near_units(za, aa):
    """Azimuth tolerance next to zenith/nadir. typhon (like any evaluation
    from the cartesian line of sight) forms cos(aa) = north component /
    sin(za): component and sin(za) = sqrt(1 - dr^2) carry absolute errors of
    a few eps, i.e. cos(aa) one of K eps / sin(za)^2, and the arccos divides
    by |sin(aa)|. 1.6e-3 deg at za = 0.01, aa = 1 deg: a forced aa = 0 is
    still 600 tolerances away."""
    za, aa = np.deg2rad(za), np.deg2rad(aa)
    tol = 1e-6 + np.rad2deg(K_NEAR * ref.EPS
                            / (np.sin(za) ** 2 * np.abs(np.sin(aa))))
    return ("m", "deg", "deg", "los", (tol, "deg", True))


def repr_blocks(tier, rep, form):
    """Five spherical arguments (forward + round trip) and six cartesian
    ones (inverse against the oracle) with `rep` at every subset position."""
    sph = tuple(np.array(c) for c in zip(*itertools.product(
        *[exact(rep, axis) for axis in REPR_AXES[tier]])))
    cart = [quantize(rep, np.asarray(c, dtype=np.float64)) for c in
            ref.geocentric_to_cart(*sph[:3])
            + tuple(LOS_LENGTH * d for d in ref.los_to_cart(*sph[1:]))]
    # lon = +-180 coincide once rounded
    cart = tuple(np.array(c) for c in zip(*dict.fromkeys(zip(*cart))))
    for tag, columns in (("sph", sph), ("cart", cart)):
        for which in subsets(len(columns)):
            for k, args in enumerate(represent(columns, which, rep, form)):
                yield ("%s/%s/%d" % (tag, "+".join(map(str, which)), k),
                       args, True)


def blocks(tier, shape, i, j):
    """Yields (label, argument tuple, nontrivial)."""
    if shape == "repr":
        yield from repr_blocks(tier, *REPR_MODES[i])
        return
    radii, lats, lons, zeniths, azimuths = axes(tier)
    if shape == "scalar":
        for k, point in enumerate(itertools.product(
                [radii[i]], [lats[j]], lons, zeniths, azimuths)):
            _, lat, lon, za, aa = point
            yield k, point, (abs(lat) > 1e-6 and lon != 0 and za != 90
                             and abs(aa) != 90)
    elif shape in ("meridian", "near-zenith"):
        # due north / due south resp. almost straight up / down: scalar
        # calls and one array call per radius
        if shape == "meridian":
            azimuths = MERIDIAN_AZIMUTHS
        else:
            zeniths = NEAR_ZENITHS[tier]
        pts = list(itertools.product([radii[i]], lats, lons, zeniths,
                                     azimuths))
        for k, point in enumerate(pts):
            yield k, point, True
        yield len(pts), tuple(np.array(c) for c in zip(*pts)), True
    elif shape == "aa-vector":
        for k, point in enumerate(itertools.product(
                [radii[i]], lats, lons, zeniths)):
            yield k, point + (np.array(azimuths),), True
    else:
        grid = np.meshgrid(*axes(tier), indexing="ij")
        if shape == "flat":
            yield 0, tuple(g.ravel() for g in grid), True
        elif shape == "grid":
            yield 0, tuple(grid), True
        else:       # each argument only has its own axis
            yield 0, tuple(np.array(ax).reshape((-1,) + (1,) * (4 - n))
                           for n, ax in enumerate(axes(tier))), True


def call(fname, args, nout):
    """(tuple of nout results, None) or (None, violation)."""
    from typhon import geodesy
    try:
        out = getattr(geodesy, fname)(*args)
    except Exception as exc:
        return None, ("exception/%s/%s" % (fname, type(exc).__name__),
                      list(np.broadcast(*args).shape), repr(exc),
                      "arguments of %d dimensions" % np.broadcast(*args).ndim)
    if not isinstance(out, tuple) or len(out) != nout:
        return None, ("%s/not-%d-values" % (fname, nout), nout,
                      repr(out)[:100], "")
    return out, None


def units_of(shape_name, args):
    if shape_name == "meridian":
        return UNITS_MERIDIAN
    if shape_name == "near-zenith":
        return near_units(args[3], args[4])
    return UNITS


def los_scales(args):
    """1 = the unit vector as returned by geocentricposlos2cart."""
    return (1.0,) + (LOS_SCALES if np.broadcast(*args).ndim else ())


def check_cart(args):
    """cartposlos2geocentric on x, y, z, dx, dy, dz against the oracle."""
    expected = ref.cart_to_poslos(*args)
    za, aa = expected[3:]
    if not np.all((za >= 1) & (za <= 179) & (np.abs(aa) >= 1)
                  & (np.abs(aa) <= 179)):
        raise ref.OracleError("cartesian lattice point next to a singular "
                              "direction")
    back, exc = call("cartposlos2geocentric", args, 5)
    bad = exc or compare(back, expected, NAMES, UNITS,
                         np.broadcast(*args).shape, "cartposlos2geocentric")
    return [bad] if bad else []


def check(args, units=UNITS):
    """List of violations (key, expected, observed, msg) of one block of
    five spherical (or, part "repr", six cartesian) arguments."""
    if len(args) == 6:
        return check_cart(args)
    shape = np.broadcast(*args).shape
    bad = []
    fwd, exc = call("geocentricposlos2cart", args, 6)
    if exc and len(shape) > 1:
        # still exercise the inverse on this shape: take the forward values
        # from the flattened call
        bad.append(exc)
        flat = tuple(np.broadcast_to(a, shape).ravel() for a in args)
        fwd, exc = call("geocentricposlos2cart", flat, 6)
        if fwd is not None:
            fwd = tuple(np.reshape(v, shape) for v in fwd)
    if exc:
        return bad + [exc]
    pos = compare(fwd[:3], ref.geocentric_to_cart(*args[:3]),
                  ("x", "y", "z"), ("m",) * 3, shape,
                  "geocentricposlos2cart")
    if pos:
        return bad + [pos]
    expected = np.broadcast_arrays(*[ref.ld(a) for a in args])
    for scale in los_scales(args):
        los = fwd[3:] if scale == 1 else tuple(scale * d for d in fwd[3:])
        where = "poslos-roundtrip" + ("" if scale == 1 else "-scaled-los")
        back, exc = call("cartposlos2geocentric", fwd[:3] + los, 5)
        back_bad = exc or compare(back, expected, NAMES, units, shape, where)
        if back_bad:
            return bad + [back_bad]
    return bad


def evaluate(shape, i, args):
    """check(); in the part "repr" a violation that the same values given as
    float64 do not produce is attributed to the representation."""
    found = check(args, units_of(shape, args))
    if found and shape == "repr" and not check(as_float64(args)):
        found = [(representation_key(bad[0], REPR_MODES[i][0]),) + bad[1:]
                 for bad in found]
    return found


def run_shard(shard):
    _, tier, shape, i, j = shard
    res = driver.ShardResult()
    for label, args, nontrivial in blocks(tier, shape, i, j):
        res.case(nontrivial=nontrivial)
        res.count("poslos_point_comparisons", len(los_scales(args))
                  * int(np.prod(np.broadcast(*args).shape, dtype=int)))
        found = evaluate(shape, i, args)
        if found and not same(evaluate(shape, i, args), found):
            res.error("NONDETERMINISM in poslos %r" % (shard,))
        for bad in found:
            res.violation(bad[0], dict(part="poslos", lattice=tier,
                                       shape=shape, i=i, j=j, block=label,
                                       check=bad[0]), *bad[1:])
    res.sample(dict(part="poslos", lattice=tier, shape=shape, block=label,
                    args=args))
    return res


def replay(case):
    for label, args, _ in blocks(case["lattice"], case["shape"], case["i"],
                                 case["j"]):
        if label == case["block"]:
            return next((bad for bad in evaluate(case["shape"], case["i"],
                                                 args)
                         if bad[0] == case["check"]), None)
    raise KeyError(case["block"])
