"""C07 - geodesy (DESIGN.md section 3, C07).

Part "graph": nodes D (geodetic h/lat/lon), C (cartesian x/y/z), S (geocentric
r/lat/lon); edges = the six conversion functions. For every ellipsoid, every
lattice point given in each of the three forms, and every call shape, every
path of length <= 4 (quick) / 6 (thorough) is walked; at every node the values
returned by typhon must equal the longdouble reference computed once from the
INITIAL coordinates (1 cm / 1e-7 deg, longitude modulo 360). That covers
inverse-ness, agreement of direct and composed routes and path independence.
Part "radii": ellipsoid_r_geodetic / ellipsoid_r_geocentric on h = 0 points.
Every part also gives the arguments in the representations of
c07_common.REPRS (Python int, int64 arrays, float32 scalars and arrays), one
argument at a time and all together; what is demanded is what is demanded for
the same values as float64.
Parts "poslos" and "dist": see c07_poslos.py and c07_distance.py.
"""
import itertools
import sys

from mc import driver
driver.setup_env()

import numpy as np

from checks import c07_ref as ref
from checks.c07_common import (FAR_LONGITUDES, HALF_DEGREES, LATTICES,
                                REPR_MODES, as_float64, compare, conform,
                                exact, quantize, represent,
                                representation_key, same, subsets)

PROP = "C07"
LEVEL = "exploration"
RULE = ("graph: 6 ellipsoids + WGS84 as default argument x start node "
        "{geodetic, cartesian, geocentric} x lattice (quick 8 lat x 8 lon x "
        "5 heights = 320 points, thorough 14 x 12 x 8 = 1344; the geocentric "
        "and cartesian forms put the point at surface radius + h on the "
        "geocentric latitude) x call shape {one scalar call per point, one "
        "1-D array, one 3-D array, broadcast blocks (geodetic: scalar h x "
        "lat column x lon row; others: per latitude, h column x lon row)} x "
        "every path of 1..4 (quick) / 1..6 (thorough) conversion calls; the "
        "array shapes of the geodetic and geocentric start hold 4 more "
        "longitudes outside [-180, 180] (-270, 270, 359.999, 360). With "
        "paths of 1..2 calls (only the first call sees the argument): these "
        "4 longitudes x all lat x all heights as scalar calls. "
        "Representations {Python int scalars; int64 1-D, 2-D arrays; float32 "
        "scalars, 1-D, 2-D arrays}: the lattice points (plus lat/lon -45.5, "
        "30.5) with |lat| < 88, 0 <= h <= 10 km whose lat/lon/h are exact in "
        "the representation (whole numbers; float32-exact), start "
        "coordinates rounded to it, x argument positions {each of the 3 "
        "alone: 1 call; all 3: paths of 1..2 calls}. One case = one (input "
        "block, path), compared at its end "
        "node with the longdouble reference of the initial coordinates. "
        "Non-trivial = path of >= 2 calls (a composition). radii: 6 "
        "ellipsoids x every (lat, lon) of the lattice as scalars + once as "
        "arrays + the exact latitudes in the 6 representation/form "
        "combinations; non-trivial = eccentric ellipsoid off the equator. "
        "poslos: "
        "r x lat x lon x za x aa (quick 3x8x8x5x7, thorough 3x14x12x8x10) "
        "as scalars, 1-D, 5-D, broadcast axes and scalar+azimuth vector; "
        "plus per radius aa in {0, 180} x all za (meridian) and za in {0.01, "
        "179.9} (thorough: 0.01, 0.1, 179.9, 179.99) x all aa (near-zenith) "
        "as scalars and as one array; "
        "every call with array arguments is repeated with the cartesian "
        "line of sight scaled by 1e-3 and by 7; non-trivial = off "
        "equator/prime meridian, za != 90, |aa| != 90; part repr: lattice "
        "c07_poslos.REPR_AXES (quick 2x3x4x3x3 float32-exact points, the "
        "whole-numbered ones for int/int64) x 6 representation/form "
        "combinations x argument positions {each alone, all} for the 5 "
        "spherical arguments (forward + round trip) and for the 6 cartesian "
        "arguments of cartposlos2geocentric (position and 1000 x line of "
        "sight rounded to the representation, against the oracle), every "
        "such case non-trivial. dist: all ordered "
        "pairs (scalar, 1-D, 2-D, broadcast calls; 4 longitude shifts) and "
        "all ordered triples of a 40 (quick) / 96 (thorough) point lattice; "
        "the pair checks again on c07_distance.REPR_LATTICES (quick 4 x 5 "
        "points; whole-numbered ones for int/int64) for 6 "
        "representation/form combinations x positions {lat1, lon1, lat2, "
        "lon2, r alone, all 5}; "
        "non-trivial = all points of the pair/triple differ. All cases are "
        "distinct by construction (products without repetition).")
ASSUMPTIONS = [
    "finite lattice (c07_common.LATTICES): both ends of the stated ranges "
    "(+-88 deg, -10 km, 1000 km), equator and +-180 from both sides, the "
    "latitude 1 rad; convergence of the cart2geodetic iteration is shown "
    "for these points (alone and jointly inside arrays), not for every "
    "latitude in between",
    "reference = closed forms in x87 longdouble (eps 1.1e-19); the inverse "
    "geodetic reference is a 40-step fixed-point solution accepted only if "
    "the closed form maps it back to the input within 1e-9 m",
    "ellipsoid parameters (a, e) are taken from ellipsoidmodels() as data",
    "output shapes: any result with one element per input point (or "
    "broadcastable to that) is accepted",
    "distance tolerances are float64 conditioning bounds of haversine / "
    "3-D chord (c07_ref.arc_tolerance, chord_tolerance), not tuned; "
    "great_circle_distance/tunnel_distance are compared with the central "
    "angle / chord they are documented to return",
    "zenith/nadir/pole singular cases of the POS/LOS functions and the "
    "optional lat0/lon0/za0/aa0/ppc arguments are outside the statement; "
    "within 0.1 deg of zenith/nadir and in the meridian plane the azimuth "
    "tolerance is the float64 conditioning bound of an evaluation from the "
    "cartesian line of sight (c07_poslos.near_units, c07_common.KINDS) "
    "instead of 1e-6 deg",
    "POS/LOS longitudes stay within [-180, 180]: geocentricposlos2cart "
    "rejects others with an explicit range error, taken as its domain",
    "a line of sight is a direction: cartposlos2geocentric has to return "
    "the same angles for every positive multiple of (dx, dy, dz) (its "
    "docstring: 'normalizing the los-vector')",
    "number representations: Python int, int64 and float32 (not int32/int16, "
    "float16, 0-d arrays); only values exact in the representation; the "
    "conversions, radii and POS/LOS functions must meet the statement's "
    "absolute tolerances (1 cm, 1e-7 deg, 1e-6 deg) whatever the "
    "representation; the distances, which have no absolute tolerance in the "
    "statement, get the conditioning bounds of float32 arithmetic whenever "
    "an argument is float32; the triangle inequality is checked for "
    "float64 arguments only",
    "a violation of a representation case that the same values given as "
    "float64 do not produce is reported as "
    "'<function>/wrong-with-<representation>-arguments'; in the graph part "
    "single arguments in another representation are followed for 1 call",
]

SHAPES = ("scalar", "flat", "grid", "bcast")
# The other representations of c07_common.REPRS ("repr/int/scalar", ...), and
# scalar calls with a longitude outside [-180, 180] (the array shapes hold
# these longitudes anyway). Only the first call of a path sees such an
# argument - every result is a float with a longitude in [-180, 180] - so
# paths of <= 2 calls cover them (1 call where a single argument is given in
# the other representation).
REPR_SHAPES = tuple("repr/%s/%s" % mode for mode in REPR_MODES)
FAR_SCALAR = "far-scalar"
SHORT_MAXLEN = 2
DEFAULT = "WGS84 (default argument)"

# node -> outgoing (function, target node)
EDGES = {
    "D": (("geodetic2cart", "C"), ("geodetic2geocentric", "S")),
    "C": (("cart2geodetic", "D"), ("cart2geocentric", "S")),
    "S": (("geocentric2cart", "C"), ("geocentric2geodetic", "D")),
}
# the composed functions and the elementary route they stand for
COMPOSED = {
    "geodetic2geocentric": (("geodetic2cart", "C"), ("cart2geocentric", "S")),
    "geocentric2geodetic": (("geocentric2cart", "C"), ("cart2geodetic", "D")),
}
TAKES_ELLIPSOID = {"geodetic2cart", "geodetic2geocentric", "cart2geodetic",
                   "geocentric2geodetic"}
# per node: coordinate names and their kinds (c07_common.KINDS)
COORDS = {"D": ("h", "lat", "lon"), "C": ("x", "y", "z"),
          "S": ("r", "lat", "lon")}
UNITS = {"D": ("m", "deg", "deg"), "C": ("m", "m", "m"),
         "S": ("m", "deg", "deg")}


def ellipsoids():
    """name -> (tuple passed to typhon or None, (a, e) used by the oracle)."""
    from typhon.geodesy import ellipsoidmodels
    models = ellipsoidmodels()
    out = {name: (models[name], models[name]) for name in models.models}
    out[DEFAULT] = (None, models["WGS84"])
    return out


def shards(tier, seed):
    maxlen = 4 if tier == "quick" else 6
    names = sorted(ellipsoids())
    rows = range(len(LATTICES[tier][0]))
    out = []
    for name, start in itertools.product(names, "DCS"):
        # scalar calls dominate the cost: one shard per latitude
        out += [("graph", tier, name, start, "scalar", row, maxlen)
                for row in rows]
        out += [("graph", tier, name, start, shape, None, maxlen)
                for shape in SHAPES[1:]]
        out += [("graph", tier, name, start, shape, None, SHORT_MAXLEN)
                for shape in REPR_SHAPES + (FAR_SCALAR,) * (start != "C")]
    out += [("radii", tier, name) for name in names if name != DEFAULT]
    from checks import c07_distance, c07_poslos
    out += c07_poslos.shards(tier, seed)
    out += c07_distance.shards(tier, seed)
    return out


# --------------------------------------------------------------------------
# graph part
# --------------------------------------------------------------------------

def f64(arrays):
    return tuple(np.asarray(a, dtype=np.float64) for a in arrays)


def initial_coordinates(start, a, e, lat, lon, h):
    """The lattice block (lat, lon, h broadcastable) expressed at `start`."""
    if start == "D":
        return (h, lat, lon)
    r = f64([ref.radius_at_geocentric(a, e, lat) + ref.ld(h)])[0]
    if start == "S":
        return (r, lat, lon)
    return f64(ref.geocentric_to_cart(r, lat, lon))


class Item:
    """One input block (scalars or arrays) with its reference triples."""

    def __init__(self, label, coords, reference, maxlen=None):
        self.label = label
        self.coords = coords
        self.ref = reference
        self.shape = reference["C"][0].shape
        self.maxlen = maxlen        # None: the path length of the shard


def repr_items(tier, ell_ae, start, rep, form):
    """The lattice points whose coordinates are exact in `rep`, with the
    start coordinates rounded to it, in every subset of argument positions."""
    a, e = ell_ae
    lats, lons, heights = LATTICES[tier]
    if start != "C" and form != "scalar":   # scalars: shape FAR_SCALAR
        lons = lons + FAR_LONGITUDES
    # rounding moves a point by < 1 m (float32 at Jupiter's radius: 4 m), so
    # stay inside the stated domain
    lats = [v for v in exact(rep, lats + HALF_DEGREES) if abs(v) < 88]
    heights = [v for v in exact(rep, heights) if 0 <= v <= 10e3]
    lat, lon, h = np.meshgrid(lats, exact(rep, lons + HALF_DEGREES), heights,
                              indexing="ij")
    coords = initial_coordinates(start, a, e, lat, lon, h)
    # lon = +-180 coincide once rounded
    points = dict.fromkeys(zip(*(quantize(rep, c.ravel()).tolist()
                                 for c in coords)))
    columns = tuple(np.array(c) for c in zip(*points))
    full = ref.reference(a, e, start, columns)
    out = []
    for which in subsets(3):
        maxlen = None if len(which) == 3 else 1
        for n, args in enumerate(represent(columns, which, rep, form)):
            pick = (lambda v: v[n]) if form == "scalar" else \
                (lambda v: v.reshape(args[0].shape))
            out.append(Item(len(out), args,
                            {k: tuple(pick(v) for v in t)
                             for k, t in full.items()}, maxlen))
    return out


def items(tier, ell_ae, start, shape, row):
    if shape in REPR_SHAPES:
        return repr_items(tier, ell_ae, start, *shape.split("/")[1:])
    a, e = ell_ae
    lats, lons, heights = LATTICES[tier]
    if shape == FAR_SCALAR:
        lons = FAR_LONGITUDES
    elif shape == "scalar":
        lats = lats[row:row + 1]
    elif start != "C":          # a cartesian position has no longitude
        lons = lons + FAR_LONGITUDES
    if shape != "bcast":
        lat, lon, h = np.meshgrid(lats, lons, heights, indexing="ij")
        coords = initial_coordinates(start, a, e, lat, lon, h)
        if shape == "grid":
            return [Item(0, coords, ref.reference(a, e, start, coords))]
        coords = tuple(c.ravel() for c in coords)
        full = ref.reference(a, e, start, coords)
        if shape == "flat":
            return [Item(0, coords, full)]
        return [Item(n, tuple(c[n].item() for c in coords),
                     {k: tuple(v[n] for v in t) for k, t in full.items()})
                for n in range(coords[0].size)]
    out = []
    if start == "D":        # h scalar, lat column, lon row
        for n, hh in enumerate(heights):
            coords = (hh, np.array(lats)[:, None], np.array(lons))
            out.append(Item(n, coords, ref.reference(a, e, start, coords)))
        return out
    hcol, lrow = np.array(heights)[:, None], np.array(lons)
    for n, la in enumerate(lats):   # lat fixed; h column, lon row
        r = initial_coordinates("S", a, e, la, lrow, hcol)[0]   # column
        if start == "S":
            coords = (r, la, lrow)
        else:
            x, y, z = f64(ref.geocentric_to_cart(r, la, lrow))
            coords = (x, y, z[:, :1])        # z does not depend on lon
        out.append(Item(n, coords, ref.reference(a, e, start, coords)))
    return out


def at_initial_guess(fname, args):
    """All latitudes handed to the cart2geodetic iteration are within its
    stop criterion of the initial guess B = 1 rad."""
    if fname == "cart2geodetic":
        b0 = np.arctan2(args[2], np.hypot(args[0], args[1]))
    else:
        b0 = np.deg2rad(args[1])
    return bool(np.all(np.abs(b0 - 1) <= 1e-10))


def call_edge(ell, item, fname, dst, args):
    """Calls one function and compares its result with the reference of
    node `dst`. Returns (output, None) or (None, violation)."""
    from typhon import geodesy
    kwargs = {"ellipsoid": ell} if fname in TAKES_ELLIPSOID and ell else {}
    try:
        out = getattr(geodesy, fname)(*args, **kwargs)
    except UnboundLocalError as exc:
        return None, ("cart2geodetic/unbound-h-at-1rad", None, repr(exc), "")
    except Exception as exc:
        return None, ("exception/%s/%s" % (fname, type(exc).__name__), None,
                      repr(exc), "")
    if not isinstance(out, tuple) or len(out) != 3:
        return None, (fname + "/not-a-triple", 3, repr(out)[:100], "")
    bad = compare(out, item.ref[dst], COORDS[dst], UNITS[dst], item.shape,
                  fname)
    return (None, bad) if bad else (out, None)


def step(ell, item, fname, dst, args):
    """call_edge; a failure of a composed function is attributed to the
    elementary conversion at fault (one key per root cause) if there is one."""
    out, bad = call_edge(ell, item, fname, dst, args)
    if bad and fname in COMPOSED:
        for part, node in COMPOSED[fname]:
            args, part_bad = call_edge(ell, item, part, node, args)
            if part_bad:
                return None, part_bad[:3] + (
                    "inside %s; %s" % (fname, part_bad[3]),)
    return out, bad


def follow(ell, item, start, path, shape):
    """Executes one path; first violation or None. A violation of a "repr"
    shape that the same values given as float64 do not produce is attributed
    to the representation."""
    for coords in (item.coords, as_float64(item.coords)):
        node, args, bad = start, coords, None
        for fname in path:
            dst = dict(EDGES[node])[fname]
            args, bad = step(ell, item, fname, dst, args)
            if bad:
                break
            node = dst
        if coords is item.coords:
            first = bad
            if not (bad and shape in REPR_SHAPES):
                return bad
    if bad:
        return first
    return (representation_key(first[0], shape.split("/")[1]),) + first[1:]


def walk(res, ctx, item, node, args, path):
    ell, eccentric, maxlen, case = ctx
    for fname, dst in EDGES[node]:
        here = path + (fname,)
        res.case(nontrivial=len(here) >= 2)
        res.count("graph_point_comparisons", int(np.prod(item.shape)))
        if (eccentric and fname in ("cart2geodetic", "geocentric2geodetic")
                and at_initial_guess(fname, args)):
            res.count("graph_calls_at_initial_guess_1rad")
        out, bad = step(ell, item, fname, dst, args)
        if bad:
            again = follow(ell, item, case["start"], here, case["shape"])
            if again is None or not same(again[1:], bad[1:]):
                res.error("NONDETERMINISM in %r %r" % (case, here))
            bad = again or bad
            res.violation(bad[0], dict(case, item=item.label,
                                       path=list(here)), *bad[1:])
            # the paths extending a failed one cannot be walked
            res.count("graph_paths_cut_by_violation",
                      2 ** (maxlen - len(here) + 1) - 2)
            res.flag("exhaustive", len(here) == maxlen)
        elif len(here) < maxlen:
            walk(res, ctx, item, dst, out, here)


def run_graph(shard):
    _, tier, name, start, shape, row, maxlen = shard
    ell, ae = ellipsoids()[name]
    res = driver.ShardResult()
    case = dict(part="graph", lattice=tier, ellipsoid=name, start=start,
                shape=shape, row=row)
    for item in items(tier, ae, start, shape, row):
        ctx = (ell, ae[1] > 0, item.maxlen or maxlen, case)
        walk(res, ctx, item, start, item.coords, ())
    res.sample(dict(case, item=item.label, coords=item.coords,
                    maxlen=maxlen))
    return res


# --------------------------------------------------------------------------
# radii part
# --------------------------------------------------------------------------

def check_radii(ell, lat, lon):
    """lat, lon: scalars or equal-shape arrays; h = 0."""
    from typhon import geodesy
    a, e = ell
    shape = np.shape(lat)
    cart = ref.geodetic_to_cart(a, e, 0, lat, lon)
    latc_true = ref.cart_to_geocentric(*cart)[1]
    latc = f64([latc_true])[0] if shape else float(latc_true)
    try:
        r_gd = geodesy.ellipsoid_r_geodetic(ell, lat)
        r_gc = geodesy.ellipsoid_r_geocentric(ell, latc)
        r_gc_same = geodesy.ellipsoid_r_geocentric(ell, lat)
        point = geodesy.geodetic2cart(0.0, lat, lon, ell)
        r_t, latc_t, _ = geodesy.cart2geocentric(*point)
        r_gc_t = geodesy.ellipsoid_r_geocentric(ell, latc_t)
    except Exception as exc:
        return ("exception/radii/" + type(exc).__name__, None, repr(exc), "")
    # the functions against the closed forms
    # (r_gc_same: the latitude as given, i.e. in its representation, taken
    # as a geocentric one)
    bad = compare((r_gd, r_gc, r_gc_same),
                  (ref.radius_at_geodetic(a, e, lat),
                   ref.radius_at_geocentric(a, e, latc),
                   ref.radius_at_geocentric(a, e, lat)),
                  ("ellipsoid_r_geodetic", "ellipsoid_r_geocentric",
                   "ellipsoid_r_geocentric"),
                  ("m", "m", "m"), shape, "radii")
    if bad:
        return bad
    # the statement literally: |point on the ellipsoid| = both radii
    r_point = conform(r_t, shape)
    if r_point is None:
        return ("radii/point-shape", list(shape), list(np.shape(r_t)), "")
    return compare((r_gd, r_gc_t), (ref.ld(r_point),) * 2,
                   ("surface-point-vs-r_geodetic",
                    "surface-point-vs-r_geocentric"),
                   ("m", "m"), shape, "radii")


def radii_cases(tier):
    """(kind, lat, lon); kind = "scalar", "array" (float64) or "rep/form"
    with the latitude in a representation of c07_common.REPRS."""
    lats, lons = LATTICES[tier][:2]
    points = list(itertools.product(lats, lons))
    yield from (("scalar", la, lo) for la, lo in points)
    lat, lon = (np.array(v) for v in zip(*points))
    yield ("array", lat, lon)
    for rep, form in REPR_MODES:
        columns = tuple(np.array(v) for v in zip(*itertools.product(
            exact(rep, lats + HALF_DEGREES), exact(rep, lons))))
        for la, lo in represent(columns, (0,), rep, form):
            yield (rep + "/" + form, la, lo)


def radii_verdict(ell, kind, lat, lon):
    """check_radii; a violation that the same latitudes given as float64 do
    not produce is attributed to the representation."""
    bad = check_radii(ell, lat, lon)
    if bad and "/" in kind and not check_radii(ell, *as_float64((lat, lon))):
        bad = (representation_key(bad[0], kind.split("/")[0]),) + bad[1:]
    return bad


def run_radii(shard):
    _, tier, name = shard
    ell = ellipsoids()[name][0]
    res = driver.ShardResult()
    for kind, lat, lon in radii_cases(tier):
        res.case(nontrivial=ell[1] > 0 and bool(np.any(np.abs(lat) > 1e-6)))
        bad = radii_verdict(ell, kind, lat, lon)
        if bad:
            if not same(radii_verdict(ell, kind, lat, lon), bad):
                res.error("NONDETERMINISM in radii %r" % name)
            res.violation(bad[0], dict(part="radii", lattice=tier,
                                       ellipsoid=name, kind=kind, lat=lat,
                                       lon=lon),
                          *bad[1:])
    res.sample(dict(part="radii", ellipsoid=name, kind=kind,
                    points=np.size(lat)))
    return res


# --------------------------------------------------------------------------

def run_shard(shard):
    if shard[0] == "graph":
        return run_graph(shard)
    if shard[0] == "radii":
        return run_radii(shard)
    if shard[0] == "poslos":
        from checks import c07_poslos
        return c07_poslos.run_shard(shard)
    from checks import c07_distance
    return c07_distance.run_shard(shard)


def outcome(bad):
    if bad is None:
        return dict(ok=True)
    return dict(ok=False, key=bad[0], expected=bad[1], observed=bad[2],
                msg=bad[3])


def replay(case):
    part = case["part"]
    if part == "graph":
        ell, ae = ellipsoids()[case["ellipsoid"]]
        item = items(case["lattice"], ae, case["start"], case["shape"],
                     case["row"])[case["item"]]
        return outcome(follow(ell, item, case["start"], case["path"],
                              case["shape"]))
    if part == "radii":
        ell = ellipsoids()[case["ellipsoid"]][0]
        # the recorded values are those of the case with this kind and size
        lat, lon = next((la, lo) for kind, la, lo in radii_cases(
            case["lattice"]) if kind == case["kind"]
            and np.array_equal(la, case["lat"])
            and np.array_equal(lo, case["lon"]))
        return outcome(radii_verdict(ell, case["kind"], lat, lon))
    if part == "poslos":
        from checks import c07_poslos
        return outcome(c07_poslos.replay(case))
    from checks import c07_distance
    return outcome(c07_distance.replay(case))


if __name__ == "__main__":
    driver.main(sys.modules[__name__])
