"""C15, system side: a sequence of simulated interpreters ("processes")
working on one info-cache file, the crash seams of save_cache, and the oracle
'last successfully renamed document'.

A process is one FileSet(..., info_cache=<file>); a restart discards it and
constructs a new one. typhon.files.fileset.atexit is replaced by a registry
owned by the harness, so that a clean exit (handlers fire) and a kill (they do
not) are both operations of the harness and nothing runs when the harness
process itself ends.
"""
import contextlib
import datetime as dt
import hashlib
import json
import os
import shutil
import warnings

from mc import fault
import typhon.files.fileset as tff
from typhon.files import FileSet
from typhon.files.handlers.common import FileHandler, FileInfo

from checks import c15_model as M

CACHE = "cache.json"
RENAMERS = (("shutil", shutil, "move"), ("os", os, "rename"),
            ("os", os, "replace"))


class ExitRegistry:
    """Stand-in for the atexit module inside typhon.files.fileset."""

    def __init__(self):
        self.handlers = []

    def register(self, func, *args, **kwargs):
        self.handlers.append((func, args, kwargs))
        return func

    @contextlib.contextmanager
    def aside(self):
        """Registrations made inside belong to a throw-away process."""
        saved, self.handlers = self.handlers, []
        try:
            yield
        finally:
            self.handlers = saved


REGISTRY = ExitRegistry()


# --------------------------------------------------------------------------
# observations
# --------------------------------------------------------------------------

def as_entry(info):
    times = list(info.times) if isinstance(info.times, (list, tuple)) \
        else [info.times]
    attrs = tuple(sorted(info.attr.items())) if isinstance(info.attr, dict) \
        else repr(info.attr)
    return (info.path,) + tuple(
        t if isinstance(t, dt.datetime) else repr(t) for t in times) + (attrs,)


def snapshot(fs):
    """The in-memory cache as {key: (path, t0, t1, attrs)}."""
    return {key: as_entry(info) for key, info in fs.info_cache.items()}


def invented(snap):
    """Cached entries that are not file information: times that are not two
    datetimes, or an entry filed under another path."""
    return sorted(
        repr(e) for key, e in snap.items()
        if len(e) != 4 or key != e[0]
        or not all(isinstance(t, dt.datetime) for t in e[1:3]))


def answers(fs):
    out = []
    for start, end in M.QUERIES:
        kwargs = {} if start is None else dict(start=start, end=end)
        try:
            out.append(sorted(as_entry(f) for f in fs.find(**kwargs)))
        except Exception as e:
            out.append("raises " + type(e).__name__)
    return out


def describe(data):
    if data is None:
        return "absent"
    return dict(bytes=len(data), blake2=hashlib.blake2b(
        data, digest_size=8).hexdigest(), head=data[:80].decode("latin-1"))


def years_below_1000(entries):
    return any(isinstance(t, dt.datetime) and t.year < 1000
               for e in entries.values() for t in e[1:3])


def incomplete(data, entries):
    """Why `data` is not a complete document listing `entries` (judged by the
    json module alone: a list with one object per cached path), or None."""
    try:
        rows = json.loads(data)
        paths = sorted(row["path"] for row in rows)
    except (TypeError, KeyError, ValueError) as e:
        return "%s: %s" % (type(e).__name__, e)
    if not isinstance(rows, list) or paths != sorted(entries):
        return "lists %r" % paths
    return None


def difference_key(where, expected, got, warned, before=None):
    """Key for 'a load into the cache `before` did not give `expected`'. The
    only property of the case that enters the key is whether a year < 1000
    was to be restored."""
    if got == (before or {}) and warned:
        return "load/saved-cache-rejected" + (
            "-year-below-1000" if years_below_1000(expected) else "")
    if invented(got):
        return where + "/invented-entry"
    return where + "/restored-info-differs"


# --------------------------------------------------------------------------
# crash seams of save_cache
# --------------------------------------------------------------------------

class Seams:
    """Bindings for the typhon.files.fileset namespace: open for writing,
    every write() of the returned file, its close and every rename primitive
    are points of `plan`. At the fired point `killed` keeps world.disk(),
    what the directory world.store holds at that instant (data still in the
    file object's buffer is not there: what survives if the process dies),
    `killed_written` what had gone through write() per file, `renamed`
    whether a rename had completed."""

    def __init__(self, plan, world):
        self.plan, self.world = plan, world
        self.written = {}
        self.renames = 0
        self.killed = self.killed_written = self.renamed = None

    def point(self, label):
        if len(self.plan.trace) == self.plan.inject_at:
            self.killed = self.world.disk()
            self.killed_written = dict(self.written)
            self.renamed = self.renames > 0
        self.plan.point(label)

    def open(self, file, mode="r", *args, **kwargs):
        if not set(mode) & set("wax+"):
            return open(file, mode, *args, **kwargs)
        self.point("open:before")
        real = open(file, mode, *args, **kwargs)
        path = os.fspath(file)
        self.written[path] = b""
        try:
            self.point("open:after")
        except BaseException:
            real.close()
            raise

        def write(real, data):
            n = real.write(data)
            self.written[path] += data.encode(real.encoding) \
                if isinstance(data, str) else bytes(data)
            self.point("write:after")
            return n
        return Recorder(self, real, write)

    def renamer(self, fn, label):
        def renamed(*args, **kwargs):
            self.point(label + ":before")
            result = fn(*args, **kwargs)
            self.renames += 1
            self.point(label + ":after")
            return result
        return renamed

    def copier(self, label):
        """shutil.copyfile & co. are not atomic: the destination is truncated
        first and filled afterwards. Each stage is a crash point."""
        def copy(src, dst, *args, **kwargs):
            self.point(label + ":before")
            if os.path.isdir(dst):
                dst = os.path.join(dst, os.path.basename(src))
            with open(src, "rb") as f:
                data = f.read()
            with open(dst, "wb") as g:
                self.point(label + ":truncated")
                g.write(data[:len(data) // 2])
                g.flush()
                self.point(label + ":half")
                g.write(data[len(data) // 2:])
            self.point(label + ":after")
            return dst
        return copy

    def bindings(self):
        out = dict(open=self.open)
        for modname, module, attr in RENAMERS:
            proxy = out.setdefault(modname, fault.ModuleProxy(module))
            setattr(proxy, attr, self.renamer(
                getattr(module, attr), "%s.%s" % (modname, attr)))
        for attr in ("copyfile", "copy", "copy2"):
            setattr(out["shutil"], attr, self.copier("shutil." + attr))
        return out


class Recorder(fault.Proxy):
    """fault.Proxy whose close point also takes the instant snapshot."""

    def __init__(self, seams, real, write):
        super().__init__(seams.plan, real, "file", ("close",),
                         {"write": write})
        self.__dict__["_seams"] = seams

    def _close_point(self):
        try:
            self._seams.point("file.close")
        except BaseException:
            try:
                self._real.close()
            except Exception:
                pass
            raise


def crash_states(seams, unwound, died, prefixes=True):
    """Directory contents the fired point can leave behind: 'unwound' (the
    injected exception travelled up through save_cache's with blocks) and, if
    the process `died` there, 'killed' (the directory at that instant) plus -
    at the last point before a written file is closed - every byte prefix of
    what went through write(), which covers every buffering of every earlier
    write point."""
    yield "unwound", unwound
    if not died:
        return
    if seams.killed != unwound:
        yield "killed", seams.killed
    if seams.plan.fired != "file.close" or not prefixes:
        return
    store = seams.world.store
    for path, data in sorted(seams.killed_written.items()):
        if os.path.dirname(path) != store:
            continue
        name = os.path.basename(path)
        for k in range(len(data) + 1):
            state = dict(seams.killed)
            state[name] = data[:k]
            if state != seams.killed and state != unwound:
                yield "flushed:%s:%d" % (name, k), state


# --------------------------------------------------------------------------
# the world
# --------------------------------------------------------------------------

class World:
    """Directories data/ (the fileset's files), store/ (cache file and
    whatever save_cache puts next to it) and scratch/ (throw-away restarts)
    below `root`, the current process `fs`, and the model: `bytes` and
    `entries` of the last completed save."""

    ROOT_LENGTH = 96

    def __init__(self, root, config="plain+sat", population=0):
        tff.atexit = REGISTRY
        # the length of the paths inside a document (hence the number of its
        # byte prefixes) must not depend on the process id in `root`
        assert len(root) < self.ROOT_LENGTH - 1
        self.root = root = os.path.join(
            root, "r" * (self.ROOT_LENGTH - len(root) - 1))
        self.template, self.pool = M.CONFIGS[config]
        self.handled = M.HANDLED.get(config)
        for d in ("data", "store", "scratch"):
            path = os.path.join(root, d)
            shutil.rmtree(path, ignore_errors=True)
            os.makedirs(path)
            setattr(self, d, path)
        self.base = self.data + os.sep
        self.cache = os.path.join(self.store, CACHE)
        for name in self.pool[:population]:
            self.touch(name)
        self.fs = None
        self.bytes, self.entries = None, {}
        self.load_ok = True

    # ---- environment

    def touch(self, name):
        with open(os.path.join(self.data, name), "w"):
            pass

    def disk(self, directory=None):
        directory = directory or self.store
        out = {}
        for name in sorted(os.listdir(directory)):
            path = os.path.join(directory, name)
            if os.path.isdir(path):
                out[name] = "directory"
            else:
                with open(path, "rb") as f:
                    out[name] = f.read()
        return out

    @staticmethod
    def clear(directory):
        for name in os.listdir(directory):
            path = os.path.join(directory, name)
            shutil.rmtree(path) if os.path.isdir(path) else os.unlink(path)

    def forget(self):
        """Empties store/: nothing was ever saved."""
        self.clear(self.store)
        self.bytes, self.entries = None, {}

    def put(self, data):
        """Makes `data` the content of the cache file."""
        with open(self.cache, "wb") as f:
            f.write(data)

    def fileset(self, info_cache=None):
        options = {}
        if self.handled:
            info_via, table = self.handled

            def info(file_info):
                t0, t1, attrs = table[os.path.basename(file_info.path)]
                return FileInfo(file_info.path, [t0, t1], dict(attrs))
            options = dict(info_via=info_via, handler=FileHandler(info=info))
        return FileSet(os.path.join(self.data, self.template), name="c15",
                       info_cache=info_cache, **options)

    def construct(self, cache):
        """-> (exception or None, warning messages, FileSet or None)"""
        with warnings.catch_warnings(record=True) as caught:
            warnings.simplefilter("always")
            try:
                fs, exc = self.fileset(cache), None
            except Exception as e:
                fs, exc = None, e
        return exc, [str(w.message) for w in caught], fs

    def probe(self, state):
        """What a process started on the directory content `state` sees,
        without touching the current process or store/."""
        self.clear(self.scratch)
        for name, data in state.items():
            if data == "directory":
                os.mkdir(os.path.join(self.scratch, name))
            else:
                with open(os.path.join(self.scratch, name), "wb") as f:
                    f.write(data)
        with REGISTRY.aside():
            exc, warned, fs = self.construct(
                os.path.join(self.scratch, CACHE))
        return exc, warned, None if fs is None else snapshot(fs)

    def inject(self, entries):
        """Puts `entries` into the process's cache the way get_info does."""
        self.fs.info_cache = {
            e[0]: FileInfo(e[0], [e[1], e[2]], dict(e[3])) for e in entries}

    # ---- oracle

    def audit(self, state, want_bytes, want_entries, where="crash"):
        """The cache file in `state` is the document `want_bytes` and a
        process started on `state` restores `want_entries`."""
        bad = []
        if state.get(CACHE) != want_bytes:
            bad.append((
                where + "/cache-file-is-not-the-last-completed-save",
                describe(want_bytes), describe(state.get(CACHE)), ""))
        exc, warned, restored = self.probe(state)
        if exc is not None:
            bad.append(("restart/exception/" + type(exc).__name__, None,
                        repr(exc)[:300], ""))
        elif restored != want_entries:
            bad.append((difference_key("restart", want_entries, restored,
                                       warned),
                        want_entries, restored, "; ".join(warned)[:300]))
        return bad

    def committed(self):
        """After an operation that is not a save: store/ still holds the
        last completed save and a restart would restore it."""
        return self.audit(self.disk(), self.bytes, self.entries, "idle")

    # ---- operations of a history (each returns a list of violations)

    def boot(self):
        REGISTRY.handlers = []
        self.was_reset = False
        exc, warned, self.fs = self.construct(self.cache)
        if exc is not None:
            return [("restart/exception/" + type(exc).__name__, None,
                     repr(exc)[:300], "")]
        restored = snapshot(self.fs)
        self.load_ok = restored == self.entries
        if not self.load_ok:
            return [(difference_key("restart", self.entries, restored,
                                    warned),
                     self.entries, restored, "; ".join(warned)[:300])]
        return []

    def find(self):
        got, reference = answers(self.fs), answers(self.fileset())
        if got != reference:
            return [("find/answers-differ-with-cache", reference, got, "")]
        return []

    def save(self, plan):
        """save_cache under the crash seams. -> (seams, raised)"""
        seams = Seams(plan, self)
        raised = None
        try:
            with fault.patched(tff, **seams.bindings()):
                self.fs.save_cache(self.cache)
        except (Exception, fault.Abort) as e:
            raised = e
        return seams, raised

    def save_completely(self, plan=None):
        before = snapshot(self.fs)
        seams, raised = self.save(plan or fault.Plan())
        if raised is not None:
            return [("save_cache/exception/" + type(raised).__name__, None,
                     repr(raised)[:300], "")]
        return self.commit(self.disk().get(CACHE), before)

    def commit(self, data, entries):
        """A save of `entries` completed and left the cache file `data`."""
        self.bytes, self.entries = data, entries
        problem = incomplete(data, entries)
        if problem:
            return [("save_cache/document-is-not-complete", sorted(entries),
                     problem, "")]
        return []

    def load(self):
        before = snapshot(self.fs)
        with warnings.catch_warnings(record=True) as caught:
            warnings.simplefilter("always")
            try:
                self.fs.load_cache(self.cache)
            except Exception as e:
                return [("load_cache/exception/" + type(e).__name__, None,
                         repr(e)[:300], "")]
        want = dict(before)
        want.update(self.entries)
        got = snapshot(self.fs)
        if got != want:
            return [(difference_key("load_cache", want, got, caught, before),
                     want,
                     got, "; ".join(str(w.message) for w in caught)[:300])]
        return []

    def exit(self):
        """A clean interpreter exit (handlers fire, last registered first)
        followed by a restart."""
        bad = []
        handlers, REGISTRY.handlers = REGISTRY.handlers[::-1], []
        before = snapshot(self.fs)
        for func, args, kwargs in handlers:
            try:
                func(*args, **kwargs)
            except Exception as e:
                bad.append(("atexit/handler-raised/" + type(e).__name__,
                            None, repr(e)[:300], ""))
        if handlers:
            bad += self.commit(self.disk().get(CACHE), before)
        elif self.load_ok:
            bad.append(("atexit/cache-not-saved-after-successful-load",
                        "one exit handler saving the cache", "none", ""))
        return bad + self.boot()

    def crash(self, index):
        """save_cache dies at point `index`; the next process starts on what
        the exception path left behind. -> (violations, fired label)"""
        before = snapshot(self.fs)
        seams, raised = self.save(fault.Plan(index, fault.Abort))
        if seams.plan.fired is None:
            return None, None
        unwound = self.disk()
        bad = []
        if seams.renamed:
            bad += self.commit(seams.killed.get(CACHE), before)
        for label, state in crash_states(seams, unwound, True, False):
            bad += self.audit(state, self.bytes, self.entries)
        return bad + self.boot(), seams.plan.fired

    def reset(self):
        """The cache is emptied inside the running process (reset_cache; the
        time_coverage setter does the same)."""
        self.fs.reset_cache()
        self.was_reset = True
        return []

    def add(self):
        present = set(os.listdir(self.data))
        self.touch(next(n for n in self.pool if n not in present))
        return []

    def delete(self):
        present = set(os.listdir(self.data))
        os.unlink(os.path.join(self.data, next(
            n for n in self.pool if n in present)))
        return []

    def canonical(self):
        disk = self.disk()
        data = disk.get(CACHE)
        if data is not None:
            data = hashlib.blake2b(
                data.replace(self.root.encode(), b"<root>"),
                digest_size=8).hexdigest()
        backup = disk.get(CACHE + ".backup")
        if backup:
            try:
                json.loads(backup)
                backup = "complete"
            except ValueError:
                backup = "partial"
        return (data, backup if backup != b"" else "empty",
                tuple(sorted(os.path.basename(k)
                             for k in self.fs.info_cache)),
                tuple(sorted(os.listdir(self.data))),
                len(REGISTRY.handlers),
                # in-memory history that no listing shows: the cache object
                # was replaced since this process started (what was handed to
                # the exit handler at start-up may be another object now)
                getattr(self, "was_reset", False))
