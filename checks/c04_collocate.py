"""C04 - Collocator.collocate finds exactly the point pairs within distance and
interval (DESIGN.md section 3, C04).

Parts (one shard kind each):
  base    every pair of point sequences of length 1..2 over the point
          alphabet, default configuration x shuffle permutation family
  three   sequences of length 3 on at least one side (sub-alphabet)
  dev1/2  one / two deviations from the default configuration
  grid    scan-line x scan-position grids (2 x 2, 2 x 3, 3 x 2; time on the
          scan-line dimension or being it) against grids and sequences
  wide    max_distance 2000 km: the chord is inside, the great circle is not
  long    max_interval 36 h and 48 h with points 12, 36 and 48 h apart
  repr    whole-degree positions stored as float32 / int64 / int32 arrays
  history explicit-state BFS over call histories on one reused Collocator
          (c04_history.py)
  large   temporally pre-binned path: cores inside 1001 x 1000 filler points
          (c04_large.py)
The oracle is the brute force of c04_model.py.
"""
import itertools
import sys

from mc import driver
driver.setup_env()

from checks import c04_history, c04_large, c04_model as model   # noqa: E402

PROP = "C04"
LEVEL = "exploration"
RULE = (
    "Point alphabet of 15 points = 10 positions (3-point meridian cluster "
    "spaced 0.6 max_distance, 2 points across the date line, the pole with "
    "two longitudes, a far point, NaN latitude, NaN longitude) x seconds "
    "{-0.25, 0, 6, 9.25, 10, 12, 1000} with max_distance 5 km, max_interval "
    "10 s (|dt| = 10 s occurs and must be excluded). Datasets carry an id "
    "variable and unique unsorted labels (7, 3, 11) on the point dimension. "
    "base: every ordered pair of sequences (with repetition) of length 1..2 "
    "over the alphabet (quick: over 9 of the 15 points), default "
    "configuration, numpy.random.shuffle replaced by each member of "
    "{identity, reversal, transpositions (0 i)} (quick: reversal). three "
    "(thorough): every pair of sequences of length 1..3 over 5 points with a "
    "3-sequence on at least one side x the 3 family members. dev1: every "
    "single deviation from the default configuration - time itself as the "
    "dimension of the primary / of the secondary, the time of the primary / "
    "of the secondary stored as datetime64[us], [ms] or [s] instead of [ns] "
    "([s]: points on whole seconds), thresholds as unit strings / timedelta "
    "/ 10.5 s, eight start/end windows (between points, closed on points, "
    "excluding everything, start only, end only; datetime or "
    "pandas.Timestamp objects, 'YYYY-MM-DD hh:mm:ss' or date-only strings), "
    "primary and secondary swapped, the datasets passed as (name, dataset) "
    "tuples, leaf_size 1, magnitude_factor 1, bin_factor 2 and 0.5 - on all "
    "pairs of sequences of length 1..2 over 8 points (quick: length 1 over "
    "all 15 points, plus the identity shuffle); dev2 (thorough): every two "
    "simultaneous deviations on sequences of length 1..2 over 4 points. "
    "grid: grids made of two of 6 scan lines (quick 3) x 2 scan positions "
    "with the time on the labelled scan-line dimension (kind G) against "
    "every such grid x 5 family members and x 8 windows; the same pairs of "
    "line sequences as 2 x 3 grids (H), as grids whose scan-line dimension "
    "is the time itself (GT, lines with distinct seconds) and mixed (GT/H, "
    "H/G); 2 x 3 grids against every 3 x 2 grid; 2 x 2 grids against "
    "sequences in both roles. Every grid carries ang(scnpos) and bt(line, "
    "scnpos, channel) whose values in the result must be those of the "
    "point. wide: max_distance 2000 km (2000, '2000 km', '2e6 m') on every "
    "pair of sequences of length 1..2 over 4 points (thorough 5) including "
    "two points 18.0 deg (chord 1995.5 km, arc 2003.7 km) and 18.1 deg from "
    "the cluster. long: max_interval 48 h (172800, '48 h'; thorough also '2 "
    "days', timedelta) and 36 h ('1.5 days'; thorough also '36 hours') on "
    "every pair of "
    "sequences of length 1..2 over 4 points (thorough 5) 0, 12, 36 and 48 h "
    "apart. wide and long, thorough: also every single deviation on the "
    "pairs of single points. repr: 6 points on whole degrees (three 1.94 / "
    "3.88 / 5.82 km apart on latitude 89, lon 180 and -180 on the equator, a "
    "point whose float32 cartesian coordinates are 1.16 m off; seconds 0, "
    "6, 12) whose lat / lon variables are stored as float64, float32, int64 "
    "or int32: every ordered pair of single points and the 2 x 2 (G) and "
    "2 x 3 (H) grids of two scan lines against both orders of the lines, x "
    "every (type of the primary, type of the secondary) out of the 4 x 4; "
    "the sequence of all 6 points against its reversal x {5 km, 1 m} x "
    "{all float64; one dataset float64 and the other with (lat, lon) = "
    "(t, t), (t, float64), (float64, t) for each other type t; every "
    "ordered pair of the other types}. A failure that the same call with "
    "float64 positions does not share is reported under the type's key. "
    + c04_history.RULE + " " + c04_large.RULE +
    " One evaluation = one collocate() call compared with the brute force; "
    "all evaluations are distinct inputs by construction (history calls and "
    "the direct searches after a binned one: distinct call prefixes). "
    "Non-trivial = the brute force expects at least one pair.")
ASSUMPTIONS = [
    "the Earth is the sphere of radius typhon.constants.earth_radius; "
    "'straight-line distance' is the 3-D chord for every max_distance (the "
    "documented switch to the great-circle distance above tunnel_limit is "
    "not what the statement says; tunnel_limit is never passed)",
    "times are whole seconds or quarter seconds; the stored interval has "
    "a resolution of one second: a value less than 1 s from |dt| is "
    "accepted, and it has to be the same value whichever of the two points "
    "is the primary",
    "time is 1-dimensional (on the scan-line dimension of a grid), as the "
    "docstring of collocate() demands; latitudes and longitudes are "
    "float64, in the repr part also float32 / int64 / int32 holding whole "
    "degrees exactly (the values are the same numbers, so the same pairs, "
    "distances and carried positions are demanded)",
    "both max_distance and max_interval are given (spatial-only and "
    "temporal-only searches are other modes)",
    "datasets carry coordinates with unique labels on their point / grid "
    "dimensions; unlabelled dimensions are outside the domain",
    "start / end are datetime objects (pandas.Timestamp included) or "
    "strings, as documented; numpy.datetime64 is not tried",
    "no lattice distance lies within 1e-9 relative of max_distance "
    "(asserted for every case); distances are compared to 1e-6 relative + "
    "1 mm",
    "numpy.random.shuffle is the only randomness below collocate(); it is "
    "replaced by a fixed permutation family, not by all n! permutations "
    "(those are C06's subject)",
    "at most 3 points (6 for grids) per side outside the large part; the "
    "large part has 1011-1013 points per side",
    "a direct search after a binned one is tried for the cores of the large "
    "part only; the BFS over histories consists of direct searches",
]

PALL = "ABCDEFGHIJKLMNO"
PQUICK = "ABCDEFKMN"
PDEV = "ABDFKMNO"
P5 = "ABDKM"
P4 = "ABDK"
# parts with other thresholds: (alphabet quick, alphabet thorough, thresholds
# quick, thresholds thorough)
SPECIAL = {
    "wide": ("AMPQ", "ABMPQ", ("wide-num", "wide-str", "wide-m"),
             ("wide-num", "wide-str", "wide-m")),
    "long": ("ARST", "ACRST", ("2days-num", "48h", "1.5days"),
             ("2days-num", "2days-str", "48h", "2days-timedelta", "36h",
              "1.5days")),
}
GRID_PAIRS = (("H", "H"), ("GT", "GT"), ("GT", "H"), ("H", "G"))
# part repr: points and scan lines on whole degrees, position types
PWHOLE = "UVWXYZ"
LWHOLE = "gh"
F64 = model.F64
POSITION_TYPES = ("float32", "int64", "int32")


def sequences(alphabet, maxlen):
    for n in range(1, maxlen + 1):
        for s in itertools.product(alphabet, repeat=n):
            yield "".join(s)


def grids(lines, n=2):
    return ["".join(g) for g in itertools.product(lines, repeat=n)]


def with_(**changes):
    cfg = dict(model.DEFAULT, kind1="L", kind2="L")
    cfg.update(changes)
    return cfg


def deviations(order, **fixed):
    """Configurations with exactly `order` deviations from the default in
    the dimensions that are not fixed."""
    dims = dict(model.ALTERNATIVES, kind1=["T"], kind2=["T"])
    names = sorted(set(dims) - set(fixed))
    for chosen in itertools.combinations(names, order):
        for values in itertools.product(*(dims[n] for n in chosen)):
            yield with_(**dict(zip(chosen, values)), **fixed)


def uniform_position_cases():
    """(pos1, pos2): one type per dataset, every ordered pair of the 4."""
    return [((t, t), (u, u)) for t, u in itertools.product(
        ("float64",) + POSITION_TYPES, repeat=2)]


def position_cases():
    """(pos1, pos2): all float64, one dataset at a time (lat and lon, lat
    only, lon only), both datasets."""
    one = [s for t in POSITION_TYPES
           for s in ((t, t), (t, "float64"), ("float64", t))]
    return [(F64, F64)] + [(s, F64) for s in one] + [(F64, s) for s in one] \
        + [((t, t), (u, u))
           for t, u in itertools.product(POSITION_TYPES, repeat=2)]


def shards(tier, seed):
    quick = tier == "quick"
    out = [("base", tier, s) for s in sequences(PQUICK if quick else PALL, 2)]
    out += [("dev1", tier, s) for s in sequences(PALL if quick else PDEV,
                                                  1 if quick else 2)]
    out += [("grid", tier, g) for g in grids("abc" if quick else "abcdef")]
    for part, (aq, at, _, _) in SPECIAL.items():
        out += [(part, tier, s) for s in sequences(aq if quick else at, 2)]
    out += [("repr", tier, s) for s in tuple(PWHOLE) + (PWHOLE, LWHOLE)]
    if not quick:
        out += [("three", tier, s) for s in sequences(P5, 3)]
        out += [("dev2", tier, pair)
                for pair in itertools.product(sequences(P4, 2), repeat=2)]
    out += c04_history.shards(tier)
    out += c04_large.shards(tier)
    return out


def cases(part, tier, first):
    """(descriptor 1, descriptor 2, configuration) of one shard (dev2: one
    shard per pair of descriptors); the descriptors still lack the kind for
    the linear parts (cfg has it)."""
    quick = tier == "quick"
    if part == "base":
        for second in sequences(PQUICK if quick else PALL, 2):
            n = max(len(first), len(second))
            for member in (["rev"] if quick else model.shuffle_family(n)):
                yield first, second, with_(shuffle=member)
    elif part == "three":
        for second in sequences(P5, 3):
            if max(len(first), len(second)) == 3:
                for member in model.shuffle_family(3):
                    yield first, second, with_(shuffle=member)
    elif part == "dev1":
        for second in sequences(PALL if quick else PDEV, 1 if quick else 2):
            for cfg in deviations(1):
                yield first, second, cfg
            if quick:
                yield first, second, with_(shuffle="id")
    elif part == "dev2":
        for cfg in deviations(2):
            yield first + (cfg,)
    elif part == "grid":
        lines = "abc" if quick else "abcdef"
        for second in grids(lines):
            for member in model.shuffle_family(4):
                yield first, second, with_(kind1="G", kind2="G",
                                           shuffle=member)
            for window in model.ALTERNATIVES["window"]:
                yield first, second, with_(kind1="G", kind2="G",
                                           window=window)
            for kind1, kind2 in GRID_PAIRS:
                yield first, second, with_(kind1=kind1, kind2=kind2)
        # two lines of three positions against three lines of two positions
        for second in grids(lines, 3):
            yield first, second, with_(kind1="H", kind2="G")
        for second in sequences(PALL if quick else PDEV, 1 if quick else 2):
            for member in ("rev", "id"):
                yield first, second, with_(kind1="G", shuffle=member)
                yield second, first, with_(kind2="G", shuffle=member)
    elif part == "repr":
        if first == PWHOLE:
            for (pos1, pos2), thr in itertools.product(position_cases(),
                                                       ("num", "1m")):
                yield first, first[::-1], with_(pos1=pos1, pos2=pos2, thr=thr)
        elif first == LWHOLE:
            for second, kind, (pos1, pos2) in itertools.product(
                    (first, first[::-1]), "GH", uniform_position_cases()):
                yield first, second, with_(kind1=kind, kind2=kind, pos1=pos1,
                                           pos2=pos2)
        else:
            for second, (pos1, pos2) in itertools.product(
                    PWHOLE, uniform_position_cases()):
                yield first, second, with_(pos1=pos1, pos2=pos2)
    else:
        aq, at, tq, tt = SPECIAL[part]
        for second in sequences(aq if quick else at, 2):
            for thr in (tq if quick else tt):
                yield first, second, with_(thr=thr)
                if not quick and len(first) == len(second) == 1:
                    yield from ((first, second, cfg)
                                for cfg in deviations(1, thr=thr))


def position_verdict(bad, spec1, spec2, cfg):
    """A failure with positions of another type than float64: one that the
    same call with float64 positions shares keeps its key, any other gets
    the key of the type (of two types: of the one that fails alone, if one
    does)."""
    def fails(pos1, pos2):
        return evaluate(spec1, spec2,
                        dict(cfg, pos1=pos1, pos2=pos2))[2] is not None

    if fails(F64, F64):
        return bad
    pos = tuple(cfg["pos1"]), tuple(cfg["pos2"])
    types = sorted(set(pos[0] + pos[1]) - {"float64"})
    if len(types) > 1:
        alone = [t for t in types if fails(*(
            tuple(x if x == t else "float64" for x in side) for side in pos))]
        types = alone[:1] or types
    return ("position-dtype/%s/differs-from-the-same-values-as-float64"
            % "+".join(types), bad[1], bad[2], (bad[0] + " " + bad[3]).strip())


def evaluate(spec1, spec2, cfg):
    """-> (skipped, non-trivial, None or (key, expected, observed, msg))"""
    from typhon.collocations import Collocator
    d1, d2 = (cfg["kind1"], spec1), (cfg["kind2"], spec2)
    if not (model.admissible(d1, cfg["unit1"])
            and model.admissible(d2, cfg["unit2"])):
        return True, False, None
    pos1, pos2 = tuple(cfg["pos1"]), tuple(cfg["pos2"])
    ds1, pts1, extras1 = model.build(d1, 100, "obs", cfg["unit1"], pos1)
    ds2, pts2, extras2 = model.build(d2, 200, "spot", cfg["unit2"], pos2)
    names, extras = model.group_names(cfg), (extras1, extras2)
    _, _, metres, seconds = model.THRESHOLDS[cfg["thr"]]
    exp = model.expected(pts1, pts2, metres, seconds,
                         model.WINDOWS[cfg["window"]][:2])
    if cfg["swap"]:
        ds1, ds2, pts1, pts2 = ds2, ds1, pts2, pts1
        extras = extras[::-1]
        exp = {(j, i): v for (i, j), v in exp.items()}
    obs = model.call(Collocator(), ds1, ds2, cfg)
    bad = model.judge(obs, pts1, pts2, exp, names, extras)
    if bad is None and any(v[0] != int(v[0]) for v in exp.values()):
        # |dt| is not a whole number of seconds: whatever way the stored
        # value is brought to whole seconds, |dt| of a pair does not depend
        # on which of its points is the primary
        back = model.intervals_by_pair(
            model.call(Collocator(), ds2, ds1, cfg), names, transposed=True)
        here = model.intervals_by_pair(obs, names)
        differ = sorted(k for k in here if k in back and here[k] != back[k])
        if differ:
            bad = ("interval/changes-when-primary-and-secondary-are-swapped",
                   [back[k] for k in differ], [here[k] for k in differ],
                   "pairs %r" % (differ,))
    other = model.SAME_THRESHOLDS.get(cfg["thr"])
    if bad is not None and other and model.judge(
            model.call(Collocator(), ds1, ds2, dict(cfg, thr=other)),
            pts1, pts2, exp, names, extras) is None:
        bad = ("thresholds/%s-differs-from-%s" % (cfg["thr"], other),
               bad[1], bad[2], (bad[0] + " " + bad[3]).strip())
    if bad is not None and (pos1, pos2) != (F64, F64):
        bad = position_verdict(bad, spec1, spec2, cfg)
    return False, bool(exp), bad


def run_shard(shard):
    part, tier, first = shard[:3]
    if part == "history":
        return c04_history.run_shard(shard)
    if part == "large":
        return c04_large.run_shard(shard)
    model.install_seam()
    res = driver.ShardResult()
    last = None
    for spec1, spec2, cfg in cases(part, tier, first):
        skipped, nontrivial, bad = evaluate(spec1, spec2, cfg)
        if skipped:
            continue
        res.case(nontrivial=nontrivial)
        res.count("calls_" + part)
        last = dict(part=part, primary=spec1, secondary=spec2, cfg=cfg)
        if bad is not None:
            if evaluate(spec1, spec2, cfg)[2] != bad:
                res.error("NONDETERMINISM in %r" % (last,))
            res.violation(bad[0], last, bad[1], bad[2], bad[3])
    if last:
        res.sample(last)
    return res


def finish(tier, merged):
    return c04_history.finish(tier, merged)


def replay(case):
    if case["part"] == "history":
        return c04_history.replay(case)
    if case["part"] == "large":
        return c04_large.replay(case)
    model.install_seam()
    # (cases recorded before a configuration dimension existed lack its key)
    _, _, bad = evaluate(case["primary"], case["secondary"],
                         with_(**case["cfg"]))
    if bad is None:
        return dict(ok=True)
    return dict(ok=False, key=bad[0], expected=bad[1], observed=bad[2],
                msg=bad[3])


if __name__ == "__main__":
    driver.main(sys.modules[__name__])
