"""C04 - Collocator.collocate finds exactly the point pairs within distance and
interval (DESIGN.md section 3, C04).

Parts (one shard kind each):
  base    every pair of point sequences of length 1..2 over the point
          alphabet, default configuration x shuffle permutation family
  three   sequences of length 3 on at least one side (sub-alphabet)
  dev1/2  one / two deviations from the default configuration
  grid    2 x 2 scan-line x scan-position grids against grids and sequences
  history explicit-state BFS over call histories on one reused Collocator
          (c04_history.py)
  large   temporally pre-binned path: cores inside 1001 x 1000 filler points
          (c04_large.py)
The oracle is the brute force of c04_model.py.
"""
import itertools
import sys

from mc import driver
driver.setup_env()

from checks import c04_history, c04_large, c04_model as model   # noqa: E402

PROP = "C04"
LEVEL = "exploration"
RULE = (
    "Point alphabet of 15 points = 10 positions (3-point meridian cluster "
    "spaced 0.6 max_distance, 2 points across the date line, the pole with "
    "two longitudes, a far point, NaN latitude, NaN longitude) x seconds "
    "{-0.25, 0, 6, 9.25, 10, 12, 1000} with max_distance 5 km, max_interval 10 s (|dt| = "
    "10 s occurs and must be excluded). Datasets carry an id variable and "
    "unique unsorted labels (7, 3, 11) on the point dimension. base: every "
    "ordered pair of sequences (with repetition) of length 1..2 over the "
    "alphabet (quick: over 9 of the 15 points), default configuration, "
    "numpy.random.shuffle replaced by each member of {identity, reversal, "
    "transpositions (0 i)} (quick: reversal). three (thorough): every pair "
    "of sequences of length 1..3 over 5 points with a 3-sequence on at least "
    "one side x the 3 family members. dev1: every single deviation from the "
    "default configuration - time itself as the dimension of the primary / "
    "of the secondary, thresholds as unit strings / timedelta / 10.5 s, "
    "five start/end windows (between points, closed on points, excluding "
    "everything, start only, end only; datetime objects or strings), "
    "primary and secondary swapped, leaf_size 1, magnitude_factor 1, "
    "bin_factor 2 and 0.5 - on all pairs of sequences of length 1..2 over 8 "
    "points (quick: length 1 over all 15 points, plus the identity "
    "shuffle); dev2 (thorough): every two simultaneous deviations on "
    "sequences of length 1..2 over 4 points. grid: 2 x 2 grids made of two "
    "of 6 scan lines (quick 3) against every grid x 5 family members and x 5 "
    "windows, and against sequences in both roles. " + c04_history.RULE +
    " " + c04_large.RULE + " One evaluation = one collocate() call compared "
    "with the brute force; all evaluations are distinct inputs by "
    "construction (history calls: distinct call prefixes). Non-trivial = "
    "the brute force expects at least one pair.")
ASSUMPTIONS = [
    "the Earth is the sphere of radius typhon.constants.earth_radius; "
    "'straight-line distance' is the 3-D chord",
    "times are whole seconds or quarter seconds; the stored interval has "
    "a resolution of one second: a value less than 1 s from |dt| is "
    "accepted, and it has to be the same value whichever of the two points "
    "is the primary",
    "both max_distance and max_interval are given (spatial-only and "
    "temporal-only searches are other modes)",
    "datasets carry coordinates with unique labels on their point / grid "
    "dimensions; unlabelled dimensions are outside the domain",
    "no lattice distance lies within 1e-9 relative of max_distance "
    "(asserted for every case); distances are compared to 1e-6 relative + "
    "1 mm",
    "numpy.random.shuffle is the only randomness below collocate(); it is "
    "replaced by a fixed permutation family, not by all n! permutations "
    "(those are C06's subject)",
    "at most 3 points (4 for grids) per side outside the large part; the "
    "large part has 1000-1003 points per side",
]

PALL = "ABCDEFGHIJKLMNO"
PQUICK = "ABCDEFKMN"
PDEV = "ABDFKMNO"
P5 = "ABDKM"
P4 = "ABDK"


def sequences(alphabet, maxlen):
    for n in range(1, maxlen + 1):
        for s in itertools.product(alphabet, repeat=n):
            yield "".join(s)


def grids(lines):
    return ["".join(g) for g in itertools.product(lines, repeat=2)]


def with_(**changes):
    cfg = dict(model.DEFAULT, kind1="L", kind2="L")
    cfg.update(changes)
    return cfg


def deviations(order):
    """Configurations with exactly `order` deviations from the default."""
    dims = dict(model.ALTERNATIVES, kind1=["T"], kind2=["T"])
    for names in itertools.combinations(sorted(dims), order):
        for values in itertools.product(*(dims[n] for n in names)):
            yield with_(**dict(zip(names, values)))


def shards(tier, seed):
    quick = tier == "quick"
    out = [("base", tier, s) for s in sequences(PQUICK if quick else PALL, 2)]
    out += [("dev1", tier, s) for s in sequences(PALL if quick else PDEV,
                                                  1 if quick else 2)]
    out += [("grid", tier, g) for g in grids("abc" if quick else "abcdef")]
    if not quick:
        out += [("three", tier, s) for s in sequences(P5, 3)]
        out += [("dev2", tier, s) for s in sequences(P4, 2)]
    out += c04_history.shards(tier)
    out += c04_large.shards(tier)
    return out


def cases(part, tier, first):
    """(descriptor 1, descriptor 2, configuration) of one shard; the
    descriptors still lack the kind for the linear parts (cfg has it)."""
    quick = tier == "quick"
    if part == "base":
        for second in sequences(PQUICK if quick else PALL, 2):
            n = max(len(first), len(second))
            for member in (["rev"] if quick else model.shuffle_family(n)):
                yield first, second, with_(shuffle=member)
    elif part == "three":
        for second in sequences(P5, 3):
            if max(len(first), len(second)) == 3:
                for member in model.shuffle_family(3):
                    yield first, second, with_(shuffle=member)
    elif part == "dev1":
        for second in sequences(PALL if quick else PDEV, 1 if quick else 2):
            for cfg in deviations(1):
                yield first, second, cfg
            if quick:
                yield first, second, with_(shuffle="id")
    elif part == "dev2":
        for second in sequences(P4, 2):
            for cfg in deviations(2):
                yield first, second, cfg
    elif part == "grid":
        lines = "abc" if quick else "abcdef"
        for second in grids(lines):
            for member in model.shuffle_family(4):
                yield first, second, with_(kind1="G", kind2="G",
                                           shuffle=member)
            for window in model.ALTERNATIVES["window"]:
                yield first, second, with_(kind1="G", kind2="G",
                                           window=window)
        for second in sequences(PALL if quick else PDEV, 1 if quick else 2):
            for member in ("rev", "id"):
                yield first, second, with_(kind1="G", shuffle=member)
                yield second, first, with_(kind2="G", shuffle=member)


def evaluate(spec1, spec2, cfg):
    """-> (skipped, non-trivial, None or (key, expected, observed, msg))"""
    from typhon.collocations import Collocator
    d1, d2 = (cfg["kind1"], spec1), (cfg["kind2"], spec2)
    if not (model.admissible(d1) and model.admissible(d2)):
        return True, False, None
    ds1, pts1 = model.build(d1, 100, "obs")
    ds2, pts2 = model.build(d2, 200, "spot")
    _, _, metres, seconds = model.THRESHOLDS[cfg["thr"]]
    exp = model.expected(pts1, pts2, metres, seconds,
                         model.WINDOWS[cfg["window"]][:2])
    if cfg["swap"]:
        ds1, ds2, pts1, pts2 = ds2, ds1, pts2, pts1
        exp = {(j, i): v for (i, j), v in exp.items()}
    obs = model.call(Collocator(), ds1, ds2, cfg)
    bad = model.judge(obs, pts1, pts2, exp)
    if bad is None and any(v[0] != int(v[0]) for v in exp.values()):
        # |dt| is not a whole number of seconds: whatever way the stored
        # value is brought to whole seconds, |dt| of a pair does not depend
        # on which of its points is the primary
        back = model.intervals_by_pair(
            model.call(Collocator(), ds2, ds1, cfg), transposed=True)
        here = model.intervals_by_pair(obs)
        differ = sorted(k for k in here if k in back and here[k] != back[k])
        if differ:
            bad = ("interval/changes-when-primary-and-secondary-are-swapped",
                   [back[k] for k in differ], [here[k] for k in differ],
                   "pairs %r" % (differ,))
    other = model.SAME_THRESHOLDS.get(cfg["thr"])
    if bad is not None and other and model.judge(
            model.call(Collocator(), ds1, ds2, dict(cfg, thr=other)),
            pts1, pts2, exp) is None:
        bad = ("thresholds/%s-differs-from-%s" % (cfg["thr"], other),
               bad[1], bad[2], (bad[0] + " " + bad[3]).strip())
    return False, bool(exp), bad


def run_shard(shard):
    part, tier, first = shard[:3]
    if part == "history":
        return c04_history.run_shard(shard)
    if part == "large":
        return c04_large.run_shard(shard)
    model.install_seam()
    res = driver.ShardResult()
    last = None
    for spec1, spec2, cfg in cases(part, tier, first):
        skipped, nontrivial, bad = evaluate(spec1, spec2, cfg)
        if skipped:
            continue
        res.case(nontrivial=nontrivial)
        res.count("calls_" + part)
        last = dict(part=part, primary=spec1, secondary=spec2, cfg=cfg)
        if bad is not None:
            if evaluate(spec1, spec2, cfg)[2] != bad:
                res.error("NONDETERMINISM in %r" % (last,))
            res.violation(bad[0], last, bad[1], bad[2], bad[3])
    if last:
        res.sample(last)
    return res


def finish(tier, merged):
    return c04_history.finish(tier, merged)


def replay(case):
    if case["part"] == "history":
        return c04_history.replay(case)
    if case["part"] == "large":
        return c04_large.replay(case)
    model.install_seam()
    _, _, bad = evaluate(case["primary"], case["secondary"], case["cfg"])
    if bad is None:
        return dict(ok=True)
    return dict(ok=False, key=bad[0], expected=bad[1], observed=bad[2],
                msg=bad[3])


if __name__ == "__main__":
    driver.main(sys.modules[__name__])
