"""C09 - humidity measures and saturation pressures (DESIGN.md section 3, C09).

Part 1 (this file): the six x/w/q converters. Exact pass: the two molar
masses in typhon.constants are replaced by Fraction stand-ins and every path
through the conversion graph is walked on Fraction arguments; each node must
equal the reference Moebius map exactly. Float pass: the same paths on floats
in seven argument containers, conditioning-based tolerance; single converters
also on integer and float32 arguments. Monotonicity on a grid, exactly and in
floats.
Part 2 (c09_saturation.py): saturation pressures on a temperature lattice,
rejection of non-positive temperatures, RH <-> VMR, moist lapse rate - each
with float64, integer and float32 arguments.
"""
import contextlib
import itertools
import math
import sys
from fractions import Fraction as F

from mc import driver
driver.setup_env()

from typhon import constants                                   # noqa: E402

from checks import c09_saturation as sat                       # noqa: E402
from checks.c09_util import (CONTAINERS, DTYPES, PER_VALUE, U,  # noqa: E402
                             atmosphere, containers, evaluate, failure_key,
                             failures, representable, unit)

PROP = "C09"
LEVEL = "exploration"
RULE = (
    "converters: every path of 1..L edges (L=4 quick, 6 thorough) through "
    "the complete directed graph on {x, w, q}, from each start node, for "
    "each start value x0 (7 quick / 22 thorough rationals in [0, 1), mapped "
    "exactly to the start node), walked (a) on Fractions with two pairs of "
    "Fraction molar masses, every node compared with == against the "
    "reference map, (b) on floats in 7 containers (one call per value: "
    "Python float, numpy scalar, 0-d, shape (1,), shape (1,1); one call on "
    "all values: 1-d, 2-d column) with tolerance 8 U per edge / (1 - x0); "
    "the result must have the argument's shape; one case = (pass, "
    "container or stand-in, path, x0), non-trivial = x0 != 0. "
    "Representations: each converter in the same containers (Python number: "
    "int only) on int64 | int32 | int16 | float32 arguments, namely those "
    "start values (as x, w or q; for w also 1, 2, 3) that the dtype holds "
    "exactly, against the reference map with 8 unit round-offs of the "
    "dtype's arithmetic / (1 - x); one case = (dtype, container, "
    "converter, value), non-trivial = value != 0. Monotonicity: "
    "each converter on all adjacent pairs of an N-point grid of its input "
    "measure (N=200/2000), exactly and in floats (every pair non-trivial). "
    "Saturation: T = 100..400 K step 1/4 (1/256) K plus T_t and T_t-23 with "
    "+-1, +-2 ulp, in the 7 containers, all three functions and all "
    "relations at every T; the two array containers hold the whole lattice "
    "and, in further calls, only its part T < T_t-23 | T_t-23 <= T <= T_t | "
    "T > T_t, where every element must get the value (to rounding noise) "
    "it got within the whole lattice; the same for int64 | int32 | int16 "
    "(whole kelvins 100..400) and float32 (step 1/2 (1/16) K) temperatures "
    "in the same containers (one call per value, quick: only multiples of "
    "10 K and what is < 2 K from a branch temperature), where in addition "
    "every value must equal (to rounding noise) the value of the same "
    "temperature within a float64 array and no result may have an integer "
    "dtype; one case = (dtype, container, regime, T), non-trivial = T "
    "within 4 ulp of or between the two branch temperatures; 20 "
    "non-positive arguments (float, int and float32 scalars and arrays) x 3 "
    "functions (all non-trivial). RH<->VMR: 7 saturation functions x 2 "
    "containers x 2 directions x e_eq passed positionally | by keyword x "
    "6 values x p lattice x T lattice, all float64; with e_eq by keyword "
    "also each of int64 | int32 | int16 | float32 for the value | p | T "
    "alone (arrays) and for all three together (scalars - Python int for "
    "int64 - and arrays), each axis reduced to the lattice values the dtype "
    "holds exactly (an axis without any stays float64); non-trivial = "
    "value != 0. Lapse rate: 5 saturation functions x 2 containers x the "
    "same representations of (p, T) x lattice points with e_s < p, "
    "non-trivial = the moist correction 2 b w_s exceeds 2^-52. All cases "
    "are distinct by construction (products of duplicate-free lists).")
ASSUMPTIONS = [
    "the statement ranges over continua; decided on the listed lattices only "
    "(converters: exactly, since a Moebius map is fixed by three points and "
    "each is probed at >= 7)",
    "the converters read constants.molar_mass_water / molar_mass_dry_air at "
    "call time (a converter that returns a non-Fraction in the exact pass is "
    "a harness error, not a violation)",
    "float tolerances: 8 roundings per converter amplified by at most "
    "1/(1-x); saturation-pressure rounding noise 20*68*2^-53 relative",
    "a float32 argument is an exact value, but numpy computes with it in "
    "float32 (and evaluates log, exp and tanh of an int16 argument in "
    "float32): every tolerance then takes 2^-24 as unit round-off (mixed = "
    "ice | liquid value: twice the rounding noise, since numpy may pick "
    "float32 in one of the two evaluations only); "
    "int64/int32 arguments are held to the float64 tolerances",
    "the value a temperature gets must not depend on the representation it "
    "arrives in (the statement speaks of functions of T); the float64 "
    "array result of typhon is the reference for that",
    "saturation relations are those of the statement (positivity, "
    "monotonicity, ordering, branch equality, continuity); the absolute "
    "Murphy-Koop values are not compared with a reference",
    "ice <= liquid below T_t is demanded up to the statement's own 1e-6 "
    "(the two fits cross 4e-6 K below T_t); strict increase is demanded "
    "between temperatures >= 1e-4 K apart, non-decrease up to rounding "
    "noise between ulp neighbours",
    "rejected = any exception; NaN temperatures are not covered",
    "lapse rate only where e_s(T) < p; 'approaching g/cp' is read as "
    "1 - lapse/(g/cp) <= 2 w_s Lv^2/(cp Rv T^2)",
    "2-d arguments are column vectors or of shape (1,1); unsigned, "
    "float16, longdouble and list arguments are not covered; integer "
    "mixing ratios are 0 (x, q) and 0..3 (w) only; paths of several "
    "converters are walked in float64 only",
    "RH <-> VMR is judged by the round trip, as the statement does: a "
    "change made to both directions alike (e.g. both ignoring e_eq) is not "
    "covered; scalars of mixed representations (one argument int, the "
    "others float) and e_eq passed positionally with other dtypes than "
    "float64 are not covered",
    "density() is not part of the statement and not checked",
]

X0_QUICK = [F(0), F(1, 1000), F(1, 50), F(1, 4), F(1, 2), F(9, 10),
            F(99, 100)]
X0_THOROUGH = sorted(set(X0_QUICK) | {F(k, 16) for k in range(1, 16)}
                     | {F(1, 10 ** 9), 1 - F(1, 2 ** 20)})
STANDINS = [(F(1801528, 10 ** 8), F(289645, 10 ** 7)),
            (F(18015, 1000), F(28964, 1000))]
HPA_QUICK = [1, 10, 100, 500, 1000, 1013.25, 1100]
HPA_THOROUGH = sorted(HPA_QUICK + [2, 5, 20, 50, 200, 300, 700, 850, 925,
                                   1050])
TIERS = {
    "quick": dict(maxlen=4, x0=X0_QUICK, mono=200, per_kelvin=4,
                  per_kelvin_other=2, scalar_step_other=10, hpa=HPA_QUICK,
                  t_step=25),
    "thorough": dict(maxlen=6, x0=X0_THOROUGH, mono=2000, per_kelvin=256,
                     per_kelvin_other=16, scalar_step_other=None,
                     hpa=HPA_THOROUGH, t_step=2),
}
# Whole mass mixing ratios (w ranges over [0, inf)) for the integer dtypes.
W_WHOLE = [F(1), F(2), F(3)]
RH_VALUES = {"rh->vmr->rh": [0.0, 1e-3, 0.25, 0.5, 1.0, 1.2],
             "vmr->rh->vmr": [0.0, 1e-6, 0.01, 0.04, 0.5, 0.99]}
LAPSE_E_EQ = ("default", "water", "ice", "mixed", "magnus")

CONVERTER = {
    "xw": "vmr2mixing_ratio", "xq": "vmr2specific_humidity",
    "wx": "mixing_ratio2vmr", "wq": "mixing_ratio2specific_humidity",
    "qx": "specific_humidity2vmr", "qw": "specific_humidity2mixing_ratio",
}
CONVERTER_INPUT = {f: e[0] for e, f in CONVERTER.items()}


# -- reference model ---------------------------------------------------------

def from_x(kind, x, r):
    """Measure `kind` of air with water-vapour volume (= mole) fraction x;
    r = M_w / M_d. w = vapour mass per dry-air mass, q = w / (1 + w)."""
    if kind == "x":
        return x
    w = r * x / (1 - x)
    return w if kind == "w" else w / (1 + w)


def to_x(kind, v, r):
    if kind == "x":
        return v
    w = v if kind == "w" else v / (1 - v)
    return w / (w + r)


def float_ratio():
    return F(constants.molar_mass_water) / F(constants.molar_mass_dry_air)


def paths(maxlen):
    for n in range(1, maxlen + 1):
        for p in itertools.product("xwq", repeat=n + 1):
            if all(a != b for a, b in zip(p, p[1:])):
                yield "".join(p)


def grid_point(kind, n, k):
    """Point k of the n-point grid of the input measure: k/n for x and q; for
    w the mass mixing ratio of the specific humidity k/n."""
    return F(k, n - k) if kind == "w" else F(k, n)


@contextlib.contextmanager
def standins(mw, md):
    """The converters look both molar masses up in the typhon.constants
    module object on every call; no other module-level name is read."""
    consts = atmosphere().constants
    saved = consts.molar_mass_water, consts.molar_mass_dry_air
    consts.molar_mass_water, consts.molar_mass_dry_air = mw, md
    try:
        yield mw / md
    finally:
        consts.molar_mass_water, consts.molar_mass_dry_air = saved


class NotExact(Exception):
    """A converter left the rationals: the exact pass does not apply."""


def exact_call(name, v):
    out = getattr(atmosphere(), name)(v)
    if not isinstance(out, F):
        raise NotExact("%s(%r) returned %r" % (name, v, out))
    return out


# -- converter passes: None or (key, expected, observed, msg) ----------------

def walk_exact(standin, path, x0):
    with standins(*STANDINS[standin]) as r:
        v = from_x(path[0], x0, r)
        for step, (a, b) in enumerate(zip(path, path[1:]), 1):
            name = CONVERTER[a + b]
            try:
                v = exact_call(name, v)
            except NotExact:
                raise
            except Exception as exc:
                return ("exception/%s/%s" % (name, type(exc).__name__),
                        str(from_x(b, x0, r)), repr(exc), "")
            if v != from_x(b, x0, r):
                return ("convert/exact/" + name, str(from_x(b, x0, r)),
                        str(v), "edge %d of %s" % (step, path))
    return None


def walk_float(container, path, x0s):
    """{index into x0s: violation} - the first bad node for each start."""
    r = float_ratio()
    vals = [float(from_x(path[0], x, r)) for x in x0s]
    xe = [to_x(path[0], F(v), r) for v in vals]   # what the rounded start is
    bad = {}
    for step, (a, b) in enumerate(zip(path, path[1:]), 1):
        name = CONVERTER[a + b]
        out = evaluate(getattr(atmosphere(), name), container, vals)
        for i, o in enumerate(out):
            exp = from_x(b, xe[i], r)
            tol = F(8 * step, 2 ** 53) / (1 - xe[i])
            where = "edge %d of %s" % (step, path)
            if isinstance(o, Exception):
                bad.setdefault(i, (failure_key(name, o), None, repr(o)[:200],
                                   where))
            elif i not in bad and not (
                    math.isfinite(o) and abs(F(o) - exp) <= tol * exp):
                bad[i] = ("convert/float/" + name, float(exp), o, where)
            if i in bad:
                out[i] = float(exp)       # let the other elements go on
        vals = out
    return bad


def convert_other(dtype, container, name, values):
    """{index into values: violation} of one converter applied to values of
    its input measure (exactly representable in the dtype), against the
    reference map; 8 roundings in the arithmetic of the dtype."""
    a, b = next(e for e, f in CONVERTER.items() if f == name)
    r = float_ratio()
    out = evaluate(getattr(atmosphere(), name), container,
                   [float(v) for v in values], dtype)
    bad = {}
    for i, (v, o) in enumerate(zip(values, out)):
        xe = to_x(a, v, r)
        exp = from_x(b, xe, r)
        if isinstance(o, Exception):
            bad[i] = (failure_key(name, o), float(exp), repr(o)[:200], "")
        elif not (math.isfinite(o) and abs(F(o) - exp)
                  <= F(8 * unit(dtype)) / (1 - xe) * exp):
            bad[i] = ("convert/%s/%s" % (dtype, name), float(exp), o, "")
    return bad


def other_values(dtype, name, x0s):
    """Arguments of the converter that the dtype holds exactly: the start
    values (and whole numbers, for a mass mixing ratio)."""
    return representable(
        x0s + (W_WHOLE if CONVERTER_INPUT[name] == "w" else []), dtype)


def mono_exact(standin, name, n, k):
    a, b = next(e for e, f in CONVERTER.items() if f == name)
    t0, t1 = grid_point(a, n, k), grid_point(a, n, k + 1)
    with standins(*STANDINS[standin]):
        try:
            v0, v1 = exact_call(name, t0), exact_call(name, t1)
        except NotExact:
            raise
        except Exception as exc:
            return ("exception/%s/%s" % (name, type(exc).__name__), None,
                    repr(exc), "")
    if k == 0 and v0 != 0:
        return ("convert/zero/" + name, "0", str(v0), "")
    if not v1 > v0:
        return ("convert/monotone-exact/" + name, "> %s" % v0, str(v1), "")
    return None


def mono_float(name, n):
    """{k: violation} over the adjacent pairs (k, k+1) of the float grid."""
    a, b = next(e for e, f in CONVERTER.items() if f == name)
    r = float_ratio()
    ts = [float(grid_point(a, n, k)) for k in range(n)]
    ref = [from_x(b, to_x(a, F(t), r), r) for t in ts]
    for t, lo, hi in zip(ts[1:], ref, ref[1:]):
        # no pair may sit in the don't-care band of the float tolerance
        assert hi - lo > 2 * F(8, 2 ** 53) / (1 - to_x(a, F(t), r)) * hi
    out = evaluate(getattr(atmosphere(), name), "1d", ts)
    bad = {0: (key, None, obs, "") for _, key, obs in failures(name, out)}
    if not bad:
        if out[0] != 0:
            bad[0] = ("convert/zero/" + name, 0.0, out[0], "")
        for k in range(n - 1):
            if not out[k + 1] > out[k]:
                bad.setdefault(k, ("convert/monotone/" + name,
                                   "> %r" % out[k], out[k + 1], ""))
    return bad


# -- driver protocol ---------------------------------------------------------

def shards(tier, seed):
    out = [("exact", tier, s) for s in range(len(STANDINS))]
    out += [("mono-exact", tier, s) for s in range(len(STANDINS))]
    out += [("float", tier, c) for c in CONTAINERS]
    out += [("mono-float", tier)]
    out += [("convert-other", tier, d) for d in DTYPES[1:]]
    out += [("sat", tier, c, d) for d in DTYPES for c in containers(d)]
    out += [("reject", tier)]
    out += [("rh", tier, e) for e in sat.saturation_functions()]
    out += [("lapse", tier, e) for e in LAPSE_E_EQ]
    return out


def report(res, bad, case):
    """Record a violation; those the driver keeps (the first few per key)
    are re-executed once before."""
    if res.vio_per_key.get(bad[0], 0) < res.MAX_PER_KEY:
        again = replay(case)
        if again["ok"] or bad[0] not in again["all_keys"]:
            res.error("NONDETERMINISM %r: %r then %r" % (case, bad[0],
                                                         again))
    res.violation(bad[0], case, bad[1], bad[2], bad[3])


def frac(x):
    return "%d/%d" % (x.numerator, x.denominator)


def run_shard(shard):
    part, tier = shard[:2]
    par = TIERS[tier]
    res = driver.ShardResult()
    pascal = [100.0 * h for h in par["hpa"]]
    temps = sat.coarse_temperatures(par["t_step"])
    if part == "exact":
        for path, x0 in itertools.product(paths(par["maxlen"]), par["x0"]):
            res.case(nontrivial=x0 != 0)
            try:
                bad = walk_exact(shard[2], path, x0)
            except NotExact:
                # a converter that leaves the rationals (e.g. converts to
                # float64) can still be right: the float pass judges it
                res.count("exact_pass_not_applicable")
                continue
            case = dict(part=part, standin=shard[2], path=path, x0=frac(x0))
            if bad:
                report(res, bad, case)
        if isinstance(atmosphere().constants.molar_mass_water, F):
            res.error("molar masses were not restored")
    elif part == "float":
        for path in paths(par["maxlen"]):
            bad = walk_float(shard[2], path, par["x0"])
            for i, x0 in enumerate(par["x0"]):
                res.case(nontrivial=x0 != 0)
                # the whole vector is one call: a failure may need the
                # other elements (an exception raised for one of them)
                case = dict(part=part, container=shard[2], path=path,
                            x0=frac(x0), index=i,
                            x0s=[frac(x) for x in par["x0"]])
                if i in bad:
                    report(res, bad[i], case)
    elif part == "mono-exact":
        for name, k in itertools.product(CONVERTER.values(),
                                         range(par["mono"] - 1)):
            res.case(nontrivial=True)
            try:
                bad = mono_exact(shard[2], name, par["mono"], k)
            except NotExact:
                res.count("exact_pass_not_applicable")
                continue
            case = dict(part=part, standin=shard[2], func=name,
                        n=par["mono"], k=k)
            if bad:
                report(res, bad, case)
    elif part == "mono-float":
        for name in CONVERTER.values():
            bad = mono_float(name, par["mono"])
            for k in range(par["mono"] - 1):
                res.case(nontrivial=True)
                case = dict(part=part, func=name, n=par["mono"], k=k)
                if k in bad:
                    report(res, bad[k], case)
    elif part == "convert-other":
        dtype = shard[2]
        for container, name in itertools.product(containers(dtype),
                                                 CONVERTER.values()):
            values = other_values(dtype, name, par["x0"])
            bad = convert_other(dtype, container, name, values)
            for i, v in enumerate(values):
                res.case(nontrivial=v != 0)
                case = dict(part=part, dtype=dtype, container=container,
                            func=name, index=i,
                            values=[frac(v) for v in values])
                if i in bad:
                    report(res, bad[i], case)
    elif part == "sat":
        container, dtype = shard[2:]
        per_kelvin, step = (par["per_kelvin"], None) \
            if dtype == "float64" else (
                par["per_kelvin_other"],
                par["scalar_step_other"] if container in PER_VALUE else None)
        for regime, temps, (key, idx, exp, obs, msg) in \
                sat.lattice_violations(container, per_kelvin, dtype, step):
            # an array call is replayed as a whole: what it does to one
            # element may depend on the others
            case = dict(part=part, container=container, dtype=dtype,
                        temps=[temps[i] for i in idx]) \
                if container in PER_VALUE and "depends-on" not in key else \
                dict(part=part, container=container, dtype=dtype,
                     regime=regime, per_kelvin=per_kelvin, step=step,
                     at=idx and [temps[i] for i in idx])
            report(res, (key, exp, obs, msg), case)
        for regime in sat.regimes(container):
            temps = sat.sublattice(per_kelvin, regime, dtype, step)
            for t in temps:
                res.case(nontrivial=sat.in_blend(t))
            res.count("branch_neighbourhood_temperatures",
                      sum(sat.near(t, sat.TT) or sat.near(t, sat.TB)
                          for t in temps))
        case = dict(part=part, container=container, dtype=dtype,
                    regime=regime, temps=temps[-2:])
    elif part == "reject":
        for name, label in itertools.product(sat.SAT, sat.REJECT):
            res.case(nontrivial=True)
            bad = sat.reject_violation(name, label)
            case = dict(part=part, func=name, arg=label)
            if bad:
                report(res, (bad[0],) + bad[2:], case)
    elif part == "rh":
        for container, direction, form in itertools.product(
                ("float", "array"), sat.RH_FUNCS, sat.E_EQ_FORMS):
            for (values, ps, ts), dtypes in sat.represented(
                    container, (RH_VALUES[direction], pascal, temps), form):
                for v in values:
                    for _ in range(len(ps) * len(ts)):
                        res.case(nontrivial=v != 0)
                for bad in sat.rh_violations(shard[2], container, direction,
                                             form, values, ps, ts, dtypes):
                    report(res, (bad[0],) + bad[2:], bad[1])
        case = sat.rh_case(shard[2], container, direction, form,
                           (values[-1], ps[-1], ts[-1]), dtypes)
    elif part == "lapse":
        for container in ("float", "array"):
            for (ps, ts), dtypes in sat.represented(container,
                                                    (pascal, temps)):
                domain = sat.lapse_domain(shard[2], ps, ts)
                res.count("lapse_points_without_moist_adiabat",
                          len(ps) * len(ts) - len(domain))
                for w, b in domain.values():
                    res.case(nontrivial=2 * b * w > 2 * U)
                for bad in sat.lapse_violations(shard[2], container, ps, ts,
                                                dtypes):
                    report(res, (bad[0],) + bad[2:], bad[1])
        case = sat.lapse_case(shard[2], container,
                              max(domain, default=(ps[-1], ts[-1])), dtypes)
    res.sample(case)
    return res


def replay(case):
    part = case["part"]
    bads = []
    if part == "exact":
        bads = [walk_exact(case["standin"], case["path"], F(case["x0"]))]
    elif part == "float":
        bads = [walk_float(case["container"], case["path"],
                           [F(x) for x in case["x0s"]]).get(case["index"])]
    elif part == "mono-exact":
        bads = [mono_exact(case["standin"], case["func"], case["n"],
                           case["k"])]
    elif part == "mono-float":
        bads = [mono_float(case["func"], case["n"]).get(case["k"])]
    elif part == "convert-other":
        bads = [convert_other(case["dtype"], case["container"], case["func"],
                              [F(v) for v in case["values"]]
                              ).get(case["index"])]
    elif part == "sat":
        if "temps" in case:
            found = sat.sat_violations(case["container"], case["temps"],
                                       case["dtype"])
        else:
            found = [bad for regime, _, bad in sat.lattice_violations(
                case["container"], case["per_kelvin"], case["dtype"],
                case["step"])
                if regime == case["regime"]]
        bads = [(key, exp, obs, msg) for key, _, exp, obs, msg in found]
    elif part == "reject":
        bad = sat.reject_violation(case["func"], case["arg"])
        bads = [bad and (bad[0],) + bad[2:]]
    elif part == "rh":
        bads = [(b[0],) + b[2:] for b in sat.rh_violations(
            case["e_eq"], case["container"], case["direction"],
            case["form"], [case["value"]], [case["p"]], [case["T"]],
            tuple(case["dtypes"]))]
    elif part == "lapse":
        bads = [(b[0],) + b[2:] for b in sat.lapse_violations(
            case["e_eq"], case["container"], [case["p"]], [case["T"]],
            tuple(case["dtypes"]))]
    bads = [b for b in bads if b]
    if not bads:
        return dict(ok=True)
    return dict(ok=False, key=bads[0][0], expected=bads[0][1],
                observed=bads[0][2], msg=bads[0][3],
                all_keys=sorted({b[0] for b in bads}))


if __name__ == "__main__":
    driver.main(sys.modules[__name__])
