"""C09 helpers: argument containers and guarded calls into typhon."""
import numpy as np

U = 2.0 ** -53          # unit round-off of float64

# One call per value: the value as a scalar or as the only element of an array.
PER_VALUE = {"float": float, "float64": np.float64, "0d": np.array,
             "1": lambda v: np.array([v]), "1x1": lambda v: np.array([[v]])}
# One call on all values: "1d" (n,), "2d" (n, 1).
CONTAINERS = tuple(PER_VALUE) + ("1d", "2d")


class ShapeError(Exception):
    """The result does not have the shape of the argument."""


def atmosphere():
    from typhon.physics import atmosphere
    return atmosphere


def call(func, *args):
    """One outcome per element of the broadcast arguments: the float result,
    or the exception the call raised, or a ShapeError."""
    shape = np.broadcast_shapes(*(np.shape(a) for a in args))
    n = int(np.prod(shape))
    try:
        with np.errstate(all="ignore"):
            out = func(*args)
    except Exception as exc:
        return [exc] * n
    if np.shape(out) != shape:
        return [ShapeError("result shape %r for argument shape %r"
                           % (np.shape(out), shape))] * n
    return [float(v) for v in np.ravel(out)]


def evaluate(func, container, values):
    """func applied to every value: one call per value for the PER_VALUE
    containers, one call on the whole list for "1d" / "2d" (column)."""
    if container in PER_VALUE:
        return [call(func, PER_VALUE[container](v))[0] for v in values]
    arg = np.array(values, dtype=float)
    if container == "2d":
        arg = arg.reshape(-1, 1)
    return call(func, arg)


def failure_key(name, outcome):
    if isinstance(outcome, ShapeError):
        return "shape/" + name
    return "exception/%s/%s" % (name, type(outcome).__name__)


def failures(name, outcomes):
    """(index, key, repr) for every distinct failed call among outcomes (an
    array call that failed is one failure, not one per element)."""
    seen = set()
    for i, o in enumerate(outcomes):
        if isinstance(o, Exception) and id(o) not in seen:
            seen.add(id(o))
            yield i, failure_key(name, o), repr(o)[:200]
