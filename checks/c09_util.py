"""C09 helpers: number representations, argument containers and guarded calls
into typhon."""
import numpy as np

U = 2.0 ** -53          # unit round-off of float64
U32 = 2.0 ** -24        # ... of float32

# The representations a caller's numbers arrive in. numpy computes with
# float32 arguments in float32, and evaluates log / exp / tanh of int16
# arguments in float32 as well.
DTYPES = ("float64", "int64", "int32", "int16", "float32")
PYTHON = {"float64": float, "int64": int}

# One call per value: the value as a scalar or as the only element of an array.
PER_VALUE = {
    "python": lambda v, dtype: PYTHON[dtype](v),
    "numpy": lambda v, dtype: np.dtype(dtype).type(v),
    "0d": lambda v, dtype: np.array(v, dtype=dtype),
    "1": lambda v, dtype: np.array([v], dtype=dtype),
    "1x1": lambda v, dtype: np.array([[v]], dtype=dtype),
}
# One call on all values: "1d" (n,), "2d" (n, 1).
CONTAINERS = tuple(PER_VALUE) + ("1d", "2d")


def containers(dtype):
    """Python has no number type of its own for int32, int16 and float32."""
    return tuple(c for c in CONTAINERS if c != "python" or dtype in PYTHON)


def representable(values, dtype):
    """The values (floats or Fractions) that the dtype holds exactly."""
    if dtype == "float64":
        return list(values)
    kind = np.dtype(dtype)
    if kind.kind == "f":
        return [v for v in values if float(np.float32(float(v))) == v]
    top = np.iinfo(kind).max
    return [v for v in values if v == int(v) and abs(v) <= top]


def unit(*dtypes):
    """Unit round-off of the arithmetic numpy does on such arguments."""
    return U32 if "float32" in dtypes else U


class ShapeError(Exception):
    """The result does not have the shape of the argument."""


class IntegerResult(Exception):
    """A quantity that is never a whole number came back in an integer
    dtype."""


def atmosphere():
    from typhon.physics import atmosphere
    return atmosphere


def call(func, *args, real=False):
    """One outcome per element of the broadcast arguments: the float result,
    or the exception the call raised, or a ShapeError, or (real=True: the
    quantity is never whole) an IntegerResult."""
    shape = np.broadcast_shapes(*(np.shape(a) for a in args))
    n = int(np.prod(shape))
    try:
        with np.errstate(all="ignore"):
            out = func(*args)
        if np.shape(out) != shape:
            raise ShapeError("result shape %r for argument shape %r"
                             % (np.shape(out), shape))
        if real and np.asarray(out).dtype.kind in "iub":
            raise IntegerResult("%s result %r"
                                % (np.asarray(out).dtype, np.ravel(out)[:4]))
        return [float(v) for v in np.ravel(out)]
    except Exception as exc:
        return [exc] * n


def evaluate(func, container, values, dtype="float64", real=False):
    """func applied to every value: one call per value for the PER_VALUE
    containers, one call on the whole list for "1d" / "2d" (column)."""
    if container in PER_VALUE:
        return [call(func, PER_VALUE[container](v, dtype), real=real)[0]
                for v in values]
    arg = np.array(values, dtype=float).astype(dtype)
    if container == "2d":
        arg = arg.reshape(-1, 1)
    return call(func, arg, real=real)


def failure_key(name, outcome):
    if isinstance(outcome, ShapeError):
        return "shape/" + name
    if isinstance(outcome, IntegerResult):
        return "integer-result/" + name
    return "exception/%s/%s" % (name, type(outcome).__name__)


def failures(name, outcomes):
    """(index, key, repr) for every distinct failed call among outcomes (an
    array call that failed is one failure, not one per element)."""
    seen = set()
    for i, o in enumerate(outcomes):
        if isinstance(o, Exception) and id(o) not in seen:
            seen.add(id(o))
            yield i, failure_key(name, o), repr(o)[:200]
