"""C08, part "density": the spectral-density converters.

Graph: per Hz <-> per m (wavelength; reverses the grid) and per Hz <-> per 1/m
(wavenumber). Every path of 1..4 edges from every node is executed on a
spectrum given over a grid; the reference moves (grid point, spectrum row)
pairs along the same path in exact rationals with the Jacobian
|df/dlambda| = f^2/c resp. |df/dn| = c. The arrays handed to a converter
must be unchanged after the call (the spectrum in its old form stays valid).
Grid and spectrum are float64 arrays over the POOL frequencies and, in the
other array representations of c08_reps, whole-number grids (c08_units.WHOLE)
and a whole-number / single-precision spectrum.
"""
import itertools
from fractions import Fraction

import numpy as np

from checks import c08_reps as reps
from checks.c08_units import WHOLE, speed_of_light, exact_edge

MAX_PATH = 4
NODES = ("hz", "m", "wn")
UNIT = {"hz": "f", "m": "l", "wn": "n"}
CONVERTER = {
    ("hz", "m"): "perfrequency2perwavelength",
    ("m", "hz"): "perwavelength2perfrequency",
    ("hz", "wn"): "perfrequency2perwavenumber",
    ("wn", "hz"): "perwavenumber2perfrequency",
}
POOL = (1e8, 2.5e9, 9.99e10, 3e12, 5.5e13, 1e15)      # Hz
SCALE = 3.5e-12
TRAILING_SHAPES = ((), (1,), (3,), (2, 2))
# (grid, spectrum) representations: one argument at a time and both together
REP_PAIRS = [(g, None) for g in reps.ARRAY_REPS] + \
    [(None, "int64"), (None, "float32"), ("int64", "int64"),
     ("float32", "float32")]


def exact_step(src, dst, pairs, c):
    """Exact image of [(grid value, [row values])] under one converter."""
    out = []
    for g, row in pairs:
        if "m" in (src, dst):
            jac = g * g / c          # f^2/c and lambda^2/c respectively
        else:
            jac = c if dst == "wn" else 1 / c
        out.append((exact_edge(UNIT[src], UNIT[dst], g, c),
                    [v * jac for v in row]))
    return out


def paths(start):
    for n in range(1, MAX_PATH + 1):
        for path in itertools.product(NODES, repeat=n):
            if all((a, b) in CONVERTER
                   for a, b in zip((start,) + path, path)):
                yield path


def orders(tier):
    """Arrangements of pool frequencies forming the start grid (as indices
    into POOL sorted so that the *start node's* variable has that order)."""
    for n in range(1, 6):
        for sub in itertools.combinations(range(len(POOL)), n):
            yield "ascending", sub
    if tier == "thorough":
        for n in (2, 3):
            for perm in itertools.permutations(range(len(POOL)), n):
                if list(perm) != sorted(perm):
                    yield "permuted", perm
        for n in (4, 5):
            for sub in itertools.combinations(range(len(POOL)), n):
                yield "permuted", sub[::-1]


def shards(tier):
    return [("density", tier, start, n) for start in NODES
            for n in list(range(1, 6)) + ["reps"]]


def rep_cases(start):
    for grep, srep in REP_PAIRS:
        grid = [v for v in WHOLE[UNIT[start]] if reps.representable(v, grep)]
        for trail in TRAILING_SHAPES:
            for path in paths(start):
                yield dict(part="density", start=start, path=list(path),
                           grid=grid, shape=[len(grid)] + list(trail),
                           reps=[grep, srep])


def cases(shard):
    _, tier, start, n = shard
    if n == "reps":
        yield from rep_cases(start)
        return
    c = speed_of_light()
    unit = [float(exact_edge("f", UNIT[start], Fraction(f), c))
            if start != "hz" else f for f in POOL]
    if start == "m":                 # ascending wavelength = descending pool
        unit = unit[::-1]
    for kind, idx in orders(tier):
        if len(idx) != n:
            continue
        grid = [unit[i] for i in idx]
        for trail in TRAILING_SHAPES:
            for path in paths(start):
                yield dict(part="density", start=start, path=list(path),
                           grid=grid, shape=[n] + list(trail),
                           reps=[None, None])


def ascending(grid):
    return all(a < b for a, b in zip(grid, grid[1:]))


def reverses(case):
    return sum("m" in edge for edge in
               zip([case["start"]] + case["path"], case["path"]))


def nontrivial(case):
    return len(case["grid"]) >= 2 and reverses(case) >= 1


def spectrum(shape, rep):
    """Positive, all entries distinct, row i identifies grid point i; whole
    numbers in an integer representation."""
    idx = np.indices(shape)
    weights = [1.0, 0.25, 0.0625]
    base = 1.0 + sum(w * a for w, a in zip(weights, idx))
    scale = 16 if rep == "int64" else SCALE
    return (scale * base).astype(reps.DTYPES[rep])


def check(case):
    bad, judged = convert(case)
    return reps.tagged(bad, *case["reps"]), judged


def convert(case):
    from typhon.physics import em
    c = speed_of_light()
    shape = tuple(case["shape"])
    n = shape[0]
    grep, srep = case["reps"]
    vals = spectrum(shape, srep)
    grid = reps.array(case["grid"], grep)
    pairs = [(Fraction(g), [Fraction(float(v)) for v in row.ravel()])
             for g, row in zip(case["grid"], vals)]
    src = case["start"]
    for dst in case["path"]:
        name = CONVERTER[src, dst]
        given = (vals, grid)
        before = (np.array(vals), np.array(grid))
        try:
            with np.errstate(all="ignore"):
                vals, grid = getattr(em, name)(vals, grid)
        except Exception as e:
            return [("exception/%s/%s" % (name, type(e).__name__), None,
                     repr(e)[:200], "")], 0
        for what, now, was in zip(("spectrum", "grid"), given, before):
            if not np.array_equal(now, was):
                return [("density/%s-argument-modified" % what, was, now,
                         name)], 0
        pairs = exact_step(src, dst, pairs, c)
        src = dst
    if np.shape(vals) != shape or np.shape(grid) != (n,):
        return [("density/shape", [list(shape), [n]],
                 [list(np.shape(vals)), list(np.shape(grid))], name)], 0
    judged = int(np.size(vals)) + n
    grid = [float(g) for g in grid]
    if ascending(case["grid"]) and not ascending(grid):
        return [("density/grid-not-ascending", "ascending", grid,
                 "ascending input grid")], judged
    nedge = len(case["path"])
    # per edge: <= 3 roundings of the values plus twice the error the grid
    # may carry (4 ulp per earlier edge)  ->  16 * nedge^2 ulp is an upper
    # bound for nedge <= 4
    ulp = Fraction(reps.eps(grep, srep))
    tol_grid = 4 * nedge * ulp
    tol_vals = 16 * nedge * nedge * ulp
    pairs.sort(key=lambda p: p[0])
    order = sorted(range(n), key=lambda i: grid[i])
    rows = [[float(v) for v in np.asarray(vals[i], dtype=float).ravel()]
            for i in order]

    def rows_match(rows):
        return all(np.isfinite(v) and abs(Fraction(v) - e) <= tol_vals * e
                   for (_, exp), row in zip(pairs, rows)
                   for e, v in zip(exp, row))
    for (eg, _), i in zip(pairs, order):
        if not np.isfinite(grid[i]) or \
                abs(Fraction(grid[i]) - eg) > tol_grid * eg:
            return [("density/grid-value", float(eg), grid[i],
                     "->".join([case["start"]] + case["path"]))], judged
    if not rows_match(rows):
        key = "density/values-not-paired-with-grid" \
            if n > 1 and rows_match(rows[::-1]) else "density/value"
        return [(key, [[float(e) for e in exp] for _, exp in pairs], rows,
                 "rows in order of ascending grid; " +
                 "->".join([case["start"]] + case["path"]))], judged
    return [], judged
