"""C20 - SRTM30 mosaics (DESIGN.md section 3, C20).

Part "grids":  get_native_grids and get_tiles for every rectangle whose four
               edges lie on a quarter-cell lattice around a border situation.
Part "elev":   SRTM30.elevation for a cross-shaped subset of those rectangles
               and for whole-degree rectangles given as ints, with
               SRTM30.get_tile replaced by synthetic tiles whose pixel value
               is 43200 * global_row + global_col.
Part "big":    get_native_grids and get_tiles for every rectangle whose edges
               are tile borders or tile centres (up to the whole data set),
               each passed as Python float, Python int and numpy scalars.
Part "tilegrid": get_grids / get_native_grids of the 27 tiles' own bounds.
Part "cache":  request histories against the tile cache (c20_cache.py).

The reference model (c20_model.py) works in exact cell units on the float
that is actually passed.
"""
import itertools
import sys

from mc import driver
driver.setup_env()

from checks.c20_model import (CELLS, N_COLS, SUB, TILE_COLS, TILE_ROWS, TILES,
                              cell_indices, check_elevation_values,
                              check_grids, check_tiles, coord,
                              tiles_intersecting)

PROP = "C20"
LEVEL = "exploration"
JOBS = 8            # a worker holds up to 4 synthetic tiles of 115 MB each
RULE = ("grids: per (lat situation, lon situation) every rectangle with "
        "lat_min < lat_max and lon_min < lon_max on the lattice B + k/480 deg "
        "(quarter cells; thorough k in -9..9, quick 9 of these values "
        "covering all four cell phases on both sides of B; one-sided at "
        "90 N, 60 S, 180 W, 180 E), B = interior cell border / tile border / "
        "outer edge; elev: the same lattice restricted to (all lat intervals "
        "x core lon intervals) + (core lat intervals x all lon intervals) "
        "passed as floats, plus the whole-degree rectangles B-1..B+1 (one-"
        "sided at the outer edges; thorough also B-1..B and B..B+1 on both "
        "axes) passed as Python ints; big: every rectangle with lat edges in "
        "{-60, -35, ..., 90} and lon edges in {-180, -160, ..., 180} (tile "
        "borders and tile centres, 1 to 27 tiles) x argument form {float, "
        "int, numpy int64, float64, float32}, get_tiles and get_native_grids "
        "only; tilegrid: the 27 tiles; cache: every request sequence of "
        "length <= 3 over 3 rectangles touching 1, 2, 4 tiles, every request "
        "from another working directory, in 3 environments: TYPHON_DATA_PATH "
        "set (from every (quick: 4) subset of the 4 tiles being present "
        "initially), only XDG_CACHE_HOME set, neither set (both from an empty "
        "cache; warm states arise within the history). Cases are distinct "
        "by construction. Non-trivial = some edge is not on a cell border or "
        "the rectangle touches or crosses a tile border / outer edge (grids, "
        "elev, big); every tile (tilegrid); a needed tile is already present "
        "before the request (cache).")
ASSUMPTIONS = [
    "rectangles have positive extent in both directions (>= 1/4 cell), "
    "lon_min < lon_max within [-180, 180]; rectangles wrapping the "
    "antimeridian and longitudes given in 0..360 are outside the domain",
    "an edge whose float value is not exactly a cell border but within 1e-6 "
    "cell of one (e.g. 40 + 4/480.0) may be treated as on either side of it; "
    "edges that are exactly representable cell borders (all tile borders, "
    "15.0, 0.0) are decided strictly; all other lattice edges are >= 0.2 "
    "cell away from any border (asserted)",
    "returned coordinates are accepted as cell centres within 1e-6 cell",
    "unaligned edges are enumerated within 9/4 cells of the listed borders "
    "only; larger rectangles have whole-degree edges (elev: 1 or 2 degrees; "
    "big: multiples of 25 / 20 degrees, without elevation()), so an index "
    "error that needs a large unaligned rectangle is not seen",
    "numpy scalars and ints are passed for whole-degree edges only (exactly "
    "representable in every form); elevation() gets floats and ints",
    "the synthetic tiles are int32 instead of big-endian int16; decoding of "
    "the .DEM bytes is not part of the statement",
    "cache part: a history starts in a fresh process state (module global "
    "_data_path reset; HOME and the one variable of the environment point "
    "into a fresh tmpfs directory, the other two are unset; no [environment] "
    "section in typhon's config file); the downloader is replaced by one "
    "that creates a sparse .DEM file of the real size in "
    "typhon.topography._get_data_path(), where the real one extracts it; "
    "'the cache directory' is modelled as the set of .DEM files below the "
    "scratch root, which must stay in one directory; tiles present "
    "initially are placed in $TYPHON_DATA_PATH/topography only",
]

# name -> (B, k_lo, k_hi)
LAT_SITS = {"interior15": (15, -9, 9), "border40": (40, -9, 9),
            "border-10": (-10, -9, 9), "top90": (90, -9, 0),
            "bottom-60": (-60, 0, 9)}
LON_SITS = {"interior0": (0, -9, 9), "border-140": (-140, -9, 9),
            "border20": (20, -9, 9), "west-180": (-180, 0, 9),
            "east180": (180, -9, 0)}
K_QUICK = (-7, -6, -4, -1, 0, 1, 3, 4, 6)
# core intervals by k-range of the situation (both sides / below / above B)
CORE = {"quick": {(-9, 9): [(-3, 2), (-4, 0)],
                  (-9, 0): [(-4, 0)],
                  (0, 9): [(0, 1)]},
        "thorough": {(-9, 9): [(-5, -2), (-4, 0), (-3, 2), (-4, 4), (0, 1),
                               (2, 7)],
                     (-9, 0): [(-5, -2), (-4, 0)],
                     (0, 9): [(0, 1), (2, 7)]}}
CHUNK = {"quick": 60, "thorough": 300}     # elevation cases per shard
# whole-degree intervals around B (k = 480 is one degree) for the elevation
# requests with integer arguments, by k-range of the situation
DEGREE = {"quick": {(-9, 9): [(-480, 480)],
                    (-9, 0): [(-480, 0)],
                    (0, 9): [(0, 480)]},
          "thorough": {(-9, 9): [(-480, 0), (0, 480), (-480, 480)],
                       (-9, 0): [(-480, 0)],
                       (0, 9): [(0, 480)]}}
BIG_LATS = (-60, -35, -10, 15, 40, 65, 90)
BIG_LONS = tuple(range(-180, 181, 20))
# how the four numbers of a rectangle are passed (Python or numpy scalars)
FORMS = ("float", "int", "int64", "float64", "float32")


# --------------------------------------------------------------------------
# synthetic tiles
# --------------------------------------------------------------------------

_tile_cache = {}      # per worker process, at most 4 entries


def synthetic_tile(name):
    import numpy as np
    if name not in _tile_cache:
        lat_min, lon_min, lat_max, lon_max = TILES[name]
        row0 = (90 - lat_max) * CELLS
        col0 = (lon_min + 180) * CELLS
        rows = N_COLS * (row0 + np.arange(TILE_ROWS, dtype=np.int32))
        cols = col0 + np.arange(TILE_COLS, dtype=np.int32)
        while len(_tile_cache) >= 4:
            _tile_cache.pop(next(iter(_tile_cache)))
        _tile_cache[name] = rows[:, None] + cols[None, :]
    return _tile_cache[name]


class synthetic_tiles:
    """Context manager: SRTM30.get_tile serves synthetic tiles; nothing may
    be downloaded."""

    def __enter__(self):
        from typhon.topography import SRTM30
        self.saved = (SRTM30.__dict__["get_tile"],
                      SRTM30.__dict__["download_tile"])

        def no_download(name):
            raise AssertionError("download_tile(%r) in the mosaic part" % name)
        SRTM30.get_tile = staticmethod(synthetic_tile)
        SRTM30.download_tile = staticmethod(no_download)

    def __exit__(self, *exc):
        from typhon.topography import SRTM30
        SRTM30.get_tile, SRTM30.download_tile = self.saved


# --------------------------------------------------------------------------
# enumeration
# --------------------------------------------------------------------------

def intervals(sit, tier):
    _, lo, hi = sit
    ks = [k for k in (range(-9, 10) if tier == "thorough" else K_QUICK)
          if lo <= k <= hi]
    return list(itertools.combinations(ks, 2))


def core_intervals(sit, tier):
    return CORE[tier][sit[1:]]


def elevation_cases(lat_sit, lon_sit, tier):
    """-> [(klat, klon, form)]: the cross of lattice rectangles as floats,
    then the whole-degree rectangles as ints."""
    la, lo = LAT_SITS[lat_sit], LON_SITS[lon_sit]
    cases = set(itertools.product(intervals(la, tier),
                                  core_intervals(lo, tier)))
    cases |= set(itertools.product(core_intervals(la, tier),
                                   intervals(lo, tier)))
    degrees = itertools.product(DEGREE[tier][la[1:]], DEGREE[tier][lo[1:]])
    return [c + ("float",) for c in sorted(cases)] + \
        [c + ("int",) for c in degrees]


def shards(tier, seed):
    from checks import c20_cache
    out = [("tilegrid",)]
    out.extend(("big", lats) for lats in itertools.combinations(BIG_LATS, 2))
    for lat_sit, lon_sit in itertools.product(LAT_SITS, LON_SITS):
        out.append(("grids", tier, lat_sit, lon_sit))
        n = len(elevation_cases(lat_sit, lon_sit, tier))
        for start in range(0, n, CHUNK[tier]):
            out.append(("elev", tier, lat_sit, lon_sit, start))
    return out + c20_cache.shards(tier, seed)


def rectangle(lat_sit, lon_sit, klat, klon):
    bla, blo = LAT_SITS[lat_sit][0], LON_SITS[lon_sit][0]
    return (coord(bla, klat[0]), coord(blo, klon[0]),
            coord(bla, klat[1]), coord(blo, klon[1]))


def as_form(rect, form):
    """The rectangle as typhon receives it."""
    import numpy as np
    convert = {"float": float, "int": int}.get(form) or getattr(np, form)
    out = tuple(convert(v) for v in rect)
    assert all(a == b for a, b in zip(out, rect)), "form changes a value"
    return out


def nontrivial(rect, ks=()):
    if any(k % SUB for k in ks):
        return True
    tiles = tiles_intersecting(*rect)
    return len(tiles) > 1 or any(a == b for a, b in zip(rect, TILES[tiles[0]]))


def native_grid_violations(rect, form):
    from typhon.topography import SRTM30
    try:
        lats, lons = SRTM30.get_native_grids(*as_form(rect, form))
    except Exception as e:
        return [("exception/get_native_grids/" + type(e).__name__, None,
                 repr(e), "")]
    return check_grids(rect, lats, lons)[0]


def run_grids_case(rect, form="float"):
    """get_native_grids + get_tiles of one rectangle -> list of violations."""
    from typhon.topography import SRTM30
    bad = native_grid_violations(rect, form)
    try:
        names = SRTM30.get_tiles(*as_form(rect, form))
    except Exception as e:
        return bad + [("exception/get_tiles/" + type(e).__name__, None,
                       repr(e), "")]
    return bad + check_tiles(rect, names)


def run_big_case(rect, form):
    """A failure that the same rectangle does not show when it is passed as
    Python floats is filed under the argument type."""
    bad = run_grids_case(rect, form)
    if bad and form != "float" and not run_grids_case(rect):
        return [("big/wrong-only-for-%s-arguments" % form,) + bad[0][1:3]
                + ("; ".join(b[0] for b in bad),)]
    return bad


def run_elev_case(rect, form="float"):
    from typhon.topography import SRTM30
    with synthetic_tiles():
        try:
            lats, lons, elev = SRTM30.elevation(*as_form(rect, form))
        except Exception as e:
            # a crash that follows from a wrong native grid is filed under
            # the key of the grid defect
            return [(key, exp, obs, "elevation raised %r" % e)
                    for key, exp, obs, _ in
                    native_grid_violations(rect, form)] \
                or [("exception/elevation/" + type(e).__name__, None,
                     repr(e), "")]
    bad, rows, cols = check_grids(rect, lats, lons)
    if rows is not None and cols is not None:
        bad += check_elevation_values(rows, cols, elev)
    return bad


def run_tilegrid_case(name):
    import numpy as np
    from typhon.topography import SRTM30
    lat_min, lon_min, lat_max, lon_max = TILES[name]
    row0 = (90 - lat_max) * CELLS
    col0 = (lon_min + 180) * CELLS
    try:
        lats, lons = SRTM30.get_grids(name)
        nlats, nlons = SRTM30.get_native_grids(*TILES[name])
    except Exception as e:
        return [("exception/tilegrid/" + type(e).__name__, None, repr(e), "")]
    bad = []
    for what, la, lo in (("get_grids", lats, lons),
                         ("native-grids-of-tile-bounds", nlats, nlons)):
        rows, cols = cell_indices(la, "lat"), cell_indices(lo, "lon")
        want = ((row0, row0 + TILE_ROWS - 1), (col0, col0 + TILE_COLS - 1))
        got = tuple(None if i is None else (int(i[0]), int(i[-1]))
                    for i in (rows, cols))
        if got != want:
            bad.append(("tilegrid/%s-wrong" % what, want, got, name))
    if not bad and not (np.allclose(lats, nlats, rtol=0, atol=1e-8)
                        and np.allclose(lons, nlons, rtol=0, atol=1e-8)):
        bad.append(("tilegrid/native-differs-from-get_grids", None, None,
                    name))
    return bad


RUNNERS = {"grids": run_grids_case, "elev": run_elev_case}


def run_checked(res, runner, args, case):
    bad = runner(*args)
    if bad:
        again = runner(*args)
        if [b[0] for b in again] != [b[0] for b in bad]:
            res.error("NONDETERMINISM in %r" % (case,))
        for key, exp, obs, msg in bad:
            res.violation(key, case, exp, obs, msg)


def run_shard(shard):
    part = shard[0]
    if part == "cache":
        from checks import c20_cache
        return c20_cache.run_shard(shard)
    res = driver.ShardResult()
    if part == "tilegrid":
        for name in sorted(TILES):
            res.case(nontrivial=True)
            run_checked(res, run_tilegrid_case, (name,),
                        dict(part=part, tile=name))
        res.sample(dict(part=part, tiles=len(TILES)))
        return res
    case = None
    if part == "big":
        lats = shard[1]
        for lons, form in itertools.product(
                itertools.combinations(BIG_LONS, 2), FORMS):
            rect = (lats[0], lons[0], lats[1], lons[1])
            case = dict(part=part, rect=rect, form=form)
            res.case(nontrivial=nontrivial(rect))
            res.count("big_cases")
            res.maximum("tiles_of_one_rectangle",
                        len(tiles_intersecting(*rect)))
            run_checked(res, run_big_case, (rect, form), case)
        res.sample(case)
        return res
    _, tier, lat_sit, lon_sit = shard[:4]
    if part == "grids":
        todo = [k + ("float",) for k in itertools.product(
            intervals(LAT_SITS[lat_sit], tier),
            intervals(LON_SITS[lon_sit], tier))]
    else:
        todo = elevation_cases(lat_sit, lon_sit, tier)[
            shard[4]:shard[4] + CHUNK[tier]]
    for klat, klon, form in todo:
        rect = rectangle(lat_sit, lon_sit, klat, klon)
        case = dict(part=part, lat_sit=lat_sit, lon_sit=lon_sit, klat=klat,
                    klon=klon, rect=rect, form=form)
        res.case(nontrivial=nontrivial(rect, klat + klon))
        res.count(part + "_cases")
        if part == "elev":
            res.count("elev_tiles_touched", len(tiles_intersecting(*rect)))
            res.count("elev_int_argument_cases", int(form == "int"))
        run_checked(res, RUNNERS[part], (rect, form), case)
    res.sample(case)
    return res


def replay(case):
    part = case["part"]
    if part == "cache":
        from checks import c20_cache
        return c20_cache.replay(case)
    if part == "tilegrid":
        bad = run_tilegrid_case(case["tile"])
    elif part == "big":
        bad = run_big_case(tuple(case["rect"]), case["form"])
    else:
        rect = rectangle(case["lat_sit"], case["lon_sit"],
                         tuple(case["klat"]), tuple(case["klon"]))
        assert list(rect) == list(case["rect"])
        bad = RUNNERS[part](rect, case["form"])
    if not bad:
        return dict(ok=True)
    return dict(ok=False, violations=[
        dict(key=k, expected=driver.jsonable(e), observed=driver.jsonable(o),
             msg=m) for k, e, o, m in bad])


if __name__ == "__main__":
    driver.main(sys.modules[__name__])
