"""C10, group D: FileSet.align over two controlled loader pools (driven from
c10_parallel.py).

Primary i covers hour i, secondary j the hour starting at shift + j + 0.5
(shift 0: it overlaps primaries j and j+1; shift 10: it overlaps nothing).
Route "matches": the relation is handed over as matches= (the coverage is
irrelevant). Route "period": align(start, end, max_interval) finds it."""
import datetime
import itertools
import os
import warnings

from mc import driver, explorer, fsbuild, pool
from checks import c10_parallel as P

INDEX = {}             # path -> file index (primaries 0.., secondaries 10..)
MIN = datetime.timedelta(minutes=1)
WHOLE = (P.T0 - P.H, P.T0 + 30 * P.H)
# (shift, start, end, max_interval in minutes or None)
PERIODS = [(0,) + WHOLE + (None,),
           (0,) + WHOLE + (40,),
           (0, P.T0 + 96 * MIN, P.T0 + 114 * MIN, None),
           (10,) + WHOLE + (None,)]


def reader(file_info, fail=()):
    k = INDEX[os.fspath(file_info.path)]
    P.READ_LOG.append(k)
    if k in fail:
        raise P.ReadError("cannot read %d" % k)
    return {"id": k}


def ident(x):
    """"c<k>" for the content of file k, "i<k>" for its FileInfo."""
    if isinstance(x, dict):
        return "c%s" % x.get("id")
    if hasattr(x, "path"):
        return "i%s" % INDEX.get(os.fspath(x.path))
    return repr(x)


def relations(p, s):
    """Every match relation: each primary gets a non-empty, time-ordered
    subset of the secondaries."""
    subsets = [c for r in range(1, s + 1)
               for c in itertools.combinations(range(s), r)]
    return [tuple(enumerate(rel))
            for rel in itertools.product(subsets, repeat=p)]


def coverage(p, s, shift):
    a = [(P.T0 + i * P.H, P.T0 + (i + 1) * P.H) for i in range(p)]
    b = [(P.T0 + (shift + j) * P.H + 30 * MIN,
          P.T0 + (shift + j + 1) * P.H + 30 * MIN) for j in range(s)]
    return a, b


def overlap(x, y):
    assert all(abs(u - v) >= 5 * MIN for u in x for v in y), (x, y)
    return x[0] < y[1] and y[0] < x[1]


def coverage_relation(p, s, period):
    """The matches align(start, end, max_interval) has to find, or None if
    one side has no file in the period at all."""
    shift, start, end, mi = period
    mi = (mi or 0) * MIN
    a, b = coverage(p, s, shift)
    window = (start - mi, end + mi)
    sel_a = [i for i in range(p) if overlap(a[i], window)]
    sel_b = [j for j in range(s) if overlap(b[j], window)]
    if not sel_a or not sel_b:
        return None
    rel = [(i, tuple(j for j in sel_b
                     if overlap(a[i], (b[j][0] - mi, b[j][1] + mi))))
           for i in sel_a]
    return tuple((i, secs) for i, secs in rel if secs)


def shards(tier, seed):
    out = []
    # (primaries, secondaries, with faults). Three primaries are the smallest
    # shape in which a secondary is shared by non-consecutive primaries; quick
    # runs it without the fault dimension.
    shapes = [(1, 1, True), (1, 3, True), (2, 2, True), (2, 3, True),
              (3, 2, False)] if tier == "quick" else \
        [(1, 1, True), (1, 3, True), (2, 2, True), (2, 3, True),
         (3, 2, True), (3, 3, True)]
    for p, s, faults in shapes:
        rels = relations(p, s)
        if (p, s) == (1, 1):
            rels = [()] + rels           # nothing matched
        n = 1 if len(rels) < 20 else (12 if tier == "quick" else 48)
        for i in range(n):
            if rels[i::n]:
                out.append(("align", tier, p, s, rels[i::n], faults))
        out.append(("align-period", tier, p, s))
    return out


def build(root, p, s, threads, shift):
    from typhon.files import FileSet, FileHandler
    a, b = coverage(p, s, shift)
    fa = fsbuild.populate(os.path.join(root, "A"), P.TEMPLATE,
                          [(t0, t1, None) for t0, t1 in a])
    fb = fsbuild.populate(os.path.join(root, "B"), P.TEMPLATE,
                          [(t0, t1, None) for t0, t1 in b])
    INDEX.update({f.path: i for i, f in enumerate(fa)})
    INDEX.update({f.path: 10 + j for j, f in enumerate(fb)})
    A = FileSet(os.path.join(root, "A", P.TEMPLATE), name="A",
                handler=FileHandler(reader=reader), max_threads=threads)
    B = FileSet(os.path.join(root, "B", P.TEMPLATE), name="B",
                handler=FileHandler(reader=reader), max_threads=threads)
    return A, B, fa, fb


def expected(rel, fault, skip):
    """-> (pairs, error) with pairs = [(i, 10+j), ...]"""
    pairs = []
    for i, secs in rel:
        if fault == ("A", i) and not skip:
            return pairs, "ReadError"
        for j in secs:
            if fault == ("B", j) and not skip:
                return pairs, "ReadError"
            if fault in (("A", i), ("B", j)):
                continue
            pairs.append((i, 10 + j))
    return pairs, None


def execute(A, B, fa, fb, case):
    """case: dict(rel, period, fault, skip, info) - period None = the
    relation is passed as matches=."""
    from typhon.files.handlers import FileInfo
    fault, info = case["fault"], case["info"]
    if case["period"] is None:
        ia = [FileInfo(f.path, [f.t0, f.t1], {}) for f in fa]
        ib = [FileInfo(f.path, [f.t0, f.t1], {}) for f in fb]
        kwargs = dict(matches=[(ia[i], [ib[j] for j in secs])
                               for i, secs in case["rel"]])
    else:
        _, start, end, mi = case["period"]
        kwargs = dict(start=start, end=end)
        if mi is not None:
            kwargs["max_interval"] = "%d min" % mi
    if not info:
        kwargs["return_info"] = False
    del P.READ_LOG[:]
    A.read_args = {}
    B.read_args = {}
    if fault is not None:
        if fault[0] == "A":
            A.read_args = {"fail": (fault[1],)}
        else:
            B.read_args = {"fail": (10 + fault[1],)}
    got = []
    err = None
    with warnings.catch_warnings():
        warnings.simplefilter("ignore")
        try:
            for prim, sec in A.align(B, skip_errors=case["skip"], **kwargs):
                got.append(tuple(ident(x) for x in (*prim, *sec)) if info
                           else (ident(prim), ident(sec)))
        except P.ReadError as exc:
            err = "ReadError"
            P.release_frames(exc)
        except pool.Deadlock as exc:
            err = "Deadlock: %s" % exc
            P.release_frames(exc)
        except Exception as exc:
            P.reraise_watchdog(exc)
            err = "%s: %s" % (type(exc).__name__, str(exc)[:100])
            P.release_frames(exc)
    return got, err, tuple(sorted(P.READ_LOG))


def judge(case, obs):
    got, err, reads = obs
    rel = case["rel"]
    exp_pairs, exp_err = expected(rel, case["fault"], case["skip"])
    if case["info"]:
        exp = [("i%d" % i, "c%d" % i, "i%d" % j, "c%d" % j)
               for i, j in exp_pairs]
    else:
        exp = [("c%d" % i, "c%d" % j) for i, j in exp_pairs]
    if err != exp_err:
        what = "nothing-matched" if not rel else "exception-lost-or-unexpected"
        return ("align/" + what, (exp, exp_err), (got, err))
    if got != exp:
        if sorted(got) == sorted(exp):
            return ("align/order", exp, got)
        return ("align/wrong-pairs", exp, got)
    if len(set(reads)) != len(reads):
        return ("align/file-read-twice", "once", reads)
    if exp_err is None:
        need = {i for i, _ in rel} | {10 + j for _, secs in rel for j in secs}
        if set(reads) != need:
            return ("align/file-not-read-or-unneeded-read", sorted(need),
                    reads)
    return None


def run_case(res, root, p, s, case, cache):
    from typhon.files import fileset as fsmod
    shift = 0 if case["period"] is None else case["period"][0]
    key = (p, s, case["threads"], shift)
    if key not in cache:
        cache[key] = build(os.path.join(root, "p%ds%dt%dh%d" % key), *key)
    A, B, fa, fb = cache[key]
    stats = explorer.Stats()

    def run(ctx):
        world = pool.World(ctx, state_fn=lambda: len(P.READ_LOG))
        saved = (fsmod.ThreadPoolExecutor, fsmod.ProcessPoolExecutor,
                 fsmod.gc)
        fsmod.ThreadPoolExecutor = world.executor_class("thread")
        fsmod.ProcessPoolExecutor = world.executor_class("process")
        fsmod.gc = P.NoGC
        restore = world.install_waiters((fsmod,))
        try:
            A.info_cache.clear()
            B.info_cache.clear()
            return world, execute(A, B, fa, fb, case)
        finally:
            world.close()
            restore()
            (fsmod.ThreadPoolExecutor, fsmod.ProcessPoolExecutor,
             fsmod.gc) = saved

    import gc
    gc.disable()
    try:
        explore_loop(res, run, stats, p, s, case)
    finally:
        gc.enable()
    res.count("states", len(stats.states))
    res.count("transitions", len(stats.transitions))
    res.count("pruned_executions", stats.pruned)
    res.count("configurations")


def explore_loop(res, run, stats, p, s, case):
    for ctx, (world, obs) in explorer.explore(run, bound=0, prune=True,
                                              stats=stats):
        fin = [(pi, t) for k, pi, t in world.log if k == "finish"]
        ooo = any(a[0] == b[0] and a[1] > b[1]
                  for a, b in zip(fin, fin[1:]))
        res.case(nontrivial=ooo or case["fault"] is not None)
        bad = judge(case, obs)
        if bad is not None:
            again = run(explorer.Ctx(tuple(ctx.choices)))[1]
            if repr(again) != repr(obs):
                res.error("NONDETERMINISM align %r" % (case,))
                continue
            res.violation(bad[0], dict(case, group="align", p=p, s=s,
                                       choices=ctx.choices),
                          bad[1], bad[2])


def run_shard(shard):
    res = driver.ShardResult()
    root = driver.fresh_dir("c10a")
    cache = {}
    case = None
    if shard[0] == "align-period":
        _, tier, p, s = shard
        for period in PERIODS:
            rel = coverage_relation(p, s, period)
            if rel is None:
                continue
            for threads in (1, 2):
                for info in (True, False):
                    case = dict(rel=rel, period=period, fault=None,
                                skip=False, info=info, threads=threads)
                    run_case(res, root, p, s, case, cache)
    else:
        _, tier, p, s, rels, with_faults = shard
        import gc
        for rel in rels:
            gc.collect()
            base = dict(rel=rel, period=None, fault=None, skip=False,
                        info=True, threads=2)
            for threads in (1, 2):
                for info in (True, False):
                    # contents only: the schedules of two loader threads
                    # are left to thorough
                    if tier == "quick" and threads == 2 and not info:
                        continue
                    case = dict(base, threads=threads, info=info)
                    run_case(res, root, p, s, case, cache)
            if not with_faults:
                continue
            for fault in [("A", i) for i, _ in rel] + \
                    [("B", j) for j in range(s)]:
                for skip in (True, False):
                    case = dict(base, fault=fault, skip=skip)
                    run_case(res, root, p, s, case, cache)
    if case is not None:
        res.sample(dict(case, group="align", primaries=p, secondaries=s))
    return res


def case_of(recorded):
    """The case dict of a replay artefact (JSON lists back to tuples)."""
    period = recorded["period"]
    if period is not None:
        period = (period[0], datetime.datetime.fromisoformat(period[1]),
                  datetime.datetime.fromisoformat(period[2]), period[3])
    return dict(rel=tuple((i, tuple(secs)) for i, secs in recorded["rel"]),
                period=period,
                fault=tuple(recorded["fault"]) if recorded["fault"] else None,
                skip=recorded["skip"], info=recorded["info"],
                threads=recorded["threads"])


def replay(recorded):
    from typhon.files import fileset as fsmod
    root = driver.fresh_dir("c10ar")
    case = case_of(recorded)
    A, B, fa, fb = build(root, recorded["p"], recorded["s"], case["threads"],
                         0 if case["period"] is None else case["period"][0])
    ctx = explorer.Ctx(tuple(tuple(x) for x in recorded["choices"]))
    world = pool.World(ctx, state_fn=lambda: len(P.READ_LOG))
    saved = (fsmod.ThreadPoolExecutor, fsmod.ProcessPoolExecutor)
    fsmod.ThreadPoolExecutor = world.executor_class("thread")
    fsmod.ProcessPoolExecutor = world.executor_class("process")
    try:
        obs = execute(A, B, fa, fb, case)
    finally:
        fsmod.ThreadPoolExecutor, fsmod.ProcessPoolExecutor = saved
    bad = judge(case, obs)
    if bad is None:
        return dict(ok=True, observed=obs)
    return dict(ok=False, key=bad[0], expected=bad[1], observed=bad[2])
