"""C10, group D: FileSet.align over two controlled loader pools (driven from
c10_parallel.py)."""
import itertools
import os
import warnings

from mc import driver, explorer, fsbuild, pool
from checks import c10_parallel as P


def relations(p, s):
    """Every match relation: each primary gets a non-empty, time-ordered
    subset of the secondaries."""
    subsets = [c for r in range(1, s + 1)
               for c in itertools.combinations(range(s), r)]
    return itertools.product(subsets, repeat=p)


def shards(tier, seed):
    out = []
    # (primaries, secondaries, with faults). Three primaries are the smallest
    # shape in which a secondary is shared by non-consecutive primaries; quick
    # runs it without the fault dimension.
    shapes = [(1, 1, True), (1, 3, True), (2, 2, True), (2, 3, True),
              (3, 2, False)] if tier == "quick" else \
        [(1, 1, True), (1, 3, True), (2, 2, True), (2, 3, True),
         (3, 2, True), (3, 3, True)]
    for p, s, faults in shapes:
        rels = list(relations(p, s))
        n = 1 if len(rels) < 20 else (12 if tier == "quick" else 48)
        for i in range(n):
            if rels[i::n]:
                out.append(("align", tier, p, s, rels[i::n], faults))
    return out


def build(root, p, s, threads):
    from typhon.files import FileSet, FileHandler
    fa = fsbuild.populate(os.path.join(root, "A"), P.TEMPLATE, [
        (P.T0 + k * P.H, P.T0 + (k + 1) * P.H, None) for k in range(p)])
    fb = fsbuild.populate(os.path.join(root, "B"), P.TEMPLATE, [
        (P.T0 + (10 + k) * P.H, P.T0 + (11 + k) * P.H, None)
        for k in range(s)])
    A = FileSet(os.path.join(root, "A", P.TEMPLATE), name="A",
                handler=FileHandler(reader=P.reader), max_threads=threads)
    B = FileSet(os.path.join(root, "B", P.TEMPLATE), name="B",
                handler=FileHandler(reader=P.reader), max_threads=threads)
    return A, B, fa, fb


def expected(rel, fault, skip):
    """-> (pairs, error) with pairs = [(i, 10+j), ...]"""
    pairs = []
    for i, secs in enumerate(rel):
        if fault == ("A", i) and not skip:
            return pairs, "ReadError"
        for j in secs:
            if fault == ("B", j) and not skip:
                return pairs, "ReadError"
            if fault in (("A", i), ("B", j)):
                continue
            pairs.append((i, 10 + j))
    return pairs, None


def execute(A, B, fa, fb, rel, fault, skip):
    from typhon.files.handlers import FileInfo
    ia = [FileInfo(f.path, [f.t0, f.t1], {}) for f in fa]
    ib = [FileInfo(f.path, [f.t0, f.t1], {}) for f in fb]
    matches = [(ia[i], [ib[j] for j in secs]) for i, secs in enumerate(rel)]
    del P.READ_LOG[:]
    A.read_args = {}
    B.read_args = {}
    if fault is not None:
        if fault[0] == "A":
            A.read_args = {"fail": (fault[1],)}
        else:
            B.read_args = {"fail": (10 + fault[1],)}
    got = []
    err = None
    with warnings.catch_warnings():
        warnings.simplefilter("ignore")
        try:
            for prim, sec in A.align(B, matches=matches, skip_errors=skip):
                got.append((P.summarise(prim[0]), P.summarise(prim[1]),
                            P.summarise(sec[0]), P.summarise(sec[1])))
        except P.ReadError as exc:
            err = "ReadError"
            P.release_frames(exc)
        except pool.Deadlock as exc:
            err = "Deadlock: %s" % exc
            P.release_frames(exc)
        except Exception as exc:
            err = "%s: %s" % (type(exc).__name__, str(exc)[:100])
            P.release_frames(exc)
    return got, err, tuple(sorted(P.READ_LOG))


def judge(rel, fault, skip, obs):
    got, err, reads = obs
    exp_pairs, exp_err = expected(rel, fault, skip)
    exp = [(i, i, j, j) for i, j in exp_pairs]
    if err != exp_err:
        return ("align/exception-lost-or-unexpected", (exp, exp_err),
                (got, err))
    if got != exp:
        if sorted(got) == sorted(exp):
            return ("align/order", exp, got)
        return ("align/wrong-pairs", exp, got)
    if len(set(reads)) != len(reads):
        return ("align/file-read-twice", "once", reads)
    if exp_err is None:
        need = set(range(len(rel))) | {10 + j for secs in rel for j in secs}
        if set(reads) != need:
            return ("align/file-not-read-or-unneeded-read", sorted(need),
                    reads)
    return None


def run_case(res, root, p, s, rel, fault, skip, threads, cache):
    from typhon.files import fileset as fsmod
    key = (p, s, threads)
    if key not in cache:
        cache[key] = build(os.path.join(root, "p%ds%dt%d" % key), p, s,
                           threads)
    A, B, fa, fb = cache[key]
    stats = explorer.Stats()

    def run(ctx):
        consumed = []
        world = pool.World(ctx, state_fn=lambda: len(P.READ_LOG))
        saved = (fsmod.ThreadPoolExecutor, fsmod.ProcessPoolExecutor,
                 fsmod.gc)
        fsmod.ThreadPoolExecutor = world.executor_class("thread")
        fsmod.ProcessPoolExecutor = world.executor_class("process")
        fsmod.gc = P.NoGC
        restore = world.install_waiters()
        try:
            A.info_cache.clear()
            B.info_cache.clear()
            return world, execute(A, B, fa, fb, rel, fault, skip)
        finally:
            world.close()
            restore()
            (fsmod.ThreadPoolExecutor, fsmod.ProcessPoolExecutor,
             fsmod.gc) = saved

    import gc
    gc.disable()
    try:
        explore_loop(res, run, stats, p, s, rel, fault, skip, threads)
    finally:
        gc.enable()
    res.count("states", len(stats.states))
    res.count("transitions", len(stats.transitions))
    res.count("pruned_executions", stats.pruned)
    res.count("configurations")


def explore_loop(res, run, stats, p, s, rel, fault, skip, threads):
    for ctx, (world, obs) in explorer.explore(run, bound=0, prune=True,
                                              stats=stats):
        fin = [(pi, t) for k, pi, t in world.log if k == "finish"]
        ooo = any(a[0] == b[0] and a[1] > b[1]
                  for a, b in zip(fin, fin[1:]))
        res.case(nontrivial=ooo or fault is not None)
        bad = judge(rel, fault, skip, obs)
        if bad is not None:
            again = run(explorer.Ctx(tuple(ctx.choices)))[1]
            if repr(again) != repr(obs):
                res.error("NONDETERMINISM align %r" % (rel,))
                continue
            res.violation(bad[0], dict(group="align", p=p, s=s, rel=rel,
                                       fault=fault, skip=skip,
                                       threads=threads, choices=ctx.choices),
                          bad[1], bad[2])


def run_shard(shard):
    _, tier, p, s, rels, with_faults = shard
    res = driver.ShardResult()
    root = driver.fresh_dir("c10a")
    cache = {}
    import gc
    for rel in rels:
        gc.collect()
        for threads in (1, 2):
            run_case(res, root, p, s, rel, None, False, threads, cache)
        faults = [("A", i) for i in range(p)] + [("B", j) for j in range(s)]
        if not with_faults:
            faults = []
        for fault in faults:
            for skip in (True, False):
                run_case(res, root, p, s, rel, fault, skip, 2, cache)
    res.sample(dict(group="align", primaries=p, secondaries=s,
                    relation=rels[-1]))
    return res


def replay(case):
    from typhon.files import fileset as fsmod
    root = driver.fresh_dir("c10ar")
    rel = tuple(tuple(x) for x in case["rel"])
    fault = tuple(case["fault"]) if case["fault"] else None
    A, B, fa, fb = build(root, case["p"], case["s"], case["threads"])
    ctx = explorer.Ctx(tuple(tuple(x) for x in case["choices"]))
    world = pool.World(ctx, state_fn=lambda: len(P.READ_LOG))
    saved = (fsmod.ThreadPoolExecutor, fsmod.ProcessPoolExecutor)
    fsmod.ThreadPoolExecutor = world.executor_class("thread")
    fsmod.ProcessPoolExecutor = world.executor_class("process")
    try:
        obs = execute(A, B, fa, fb, rel, fault, case["skip"])
    finally:
        fsmod.ThreadPoolExecutor, fsmod.ProcessPoolExecutor = saved
    bad = judge(rel, fault, case["skip"], obs)
    if bad is None:
        return dict(ok=True, observed=obs)
    return dict(ok=False, key=bad[0], expected=bad[1], observed=bad[2])
