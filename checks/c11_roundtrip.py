"""C11 part 2 - what is stored through a FileSet with a default handler reads
back equal: NetCDF4 (.nc/.h5) and CSV (.csv/.txt/.asc) data sets, every
compression suffix, read_args / write_args / post_reader.

The oracle is a plain comparison written here (names, dimensions, dtype kind,
exact values; half a quantisation step for packed variables; for NetCDF also
the global and the variables' attributes); it does not use xarray's or
typhon's notion of equality.
"""
import datetime as dt
import multiprocessing
import os
import shutil
import traceback

from mc import driver, fsbuild
from checks.c11_env import controlled

ASSUMPTIONS = [
    "round trips: a dimension used inside a pseudo group is either defined "
    "by a variable of the root group, or has a name no ancestor group uses, "
    "or differs in size from the ancestors' dimension of that name "
    "(otherwise the mapping of group dimensions to names is ambiguous); "
    "write_args encodings only for data sets without groups (xarray rejects "
    "encodings of variables a group does not hold)",
    "CSV strings are non-empty and not numeric; CSV floats have short "
    "decimal representations (pandas' fast parser is not part of typhon)",
    "NetCDF cases run in a child process of the shard worker; no threads",
    "attributes: only keys that neither CF decoding nor the netCDF4 library "
    "interprets (no units of time variables, valid_*, _FillValue, "
    "scale_factor ...); arrays have more than one element; CSV files hold no "
    "attributes",
    "compress=False is only combined with decompress=False; only the round "
    "trip is demanded of such a fileset, not what the stored bytes are",
]

T0, T1 = dt.datetime(2020, 2, 29, 6, 0), dt.datetime(2020, 2, 29, 12, 0)
REL = "rt/{year}/{month}/{day}/{hour}{minute}-{end_hour}{end_minute}."
COMPRESSIONS = ["", "gz", "bz2", "zip", "xz"]
MAGIC = {"gz": b"\x1f\x8b", "bz2": b"BZh", "zip": b"PK\x03\x04",
         "xz": b"\xfd7zXZ\x00"}
HANDLER = {"nc": "NetCDF4", "h5": "NetCDF4", "csv": "CSV", "txt": "CSV",
           "asc": "CSV"}
PACKING = dict(dtype="int16", scale_factor=0.01, add_offset=10.0,
               _FillValue=-32768)
NC_CASES_PER_SHARD = 60


# ---------------------------------------------------------------------------
# enumeration
# ---------------------------------------------------------------------------

def suffixes(bases):
    return [b + ("." + c if c else "") for b in bases for c in COMPRESSIONS]


def nc_specs():
    """Principal variable: dtype x number of dimensions x NaN x placement
    (root / pseudo group on root dimensions / nested group / group with its
    own dimensions / group with own, longer dimensions named like those of
    the root / group with coordinates / a data set without any root variable)
    x order of the variables (the handler writes the groups in the order of
    their first variable) x packing (encoding of the variable / write_args of
    the fileset / per-call arguments of write())."""
    out = []

    def orders(place):
        # only one group to write: no order of groups
        return ("var-first",) if place in ("root", "grouponly") else \
            ("var-first", "ref-first")
    for dtype in ("i2", "i4", "i8", "f4", "f8", "bool", "str", "M8", "m8"):
        for ndim in (0, 1, 2):
            for nan in ((False, True) if dtype in ("f4", "f8") else (False,)):
                for place in ("root", "group", "nested", "owndim",
                              "samename", "groupcoords", "grouponly"):
                    if place in ("owndim", "samename", "groupcoords") \
                            and ndim == 0:
                        continue
                    for order in orders(place):
                        out.append(dict(dtype=dtype, ndim=ndim, nan=nan,
                                        place=place, order=order,
                                        packed=None))
    for dtype in ("f4", "f8"):
        for ndim in (0, 1, 2):
            for nan in (False, True):
                for place, packed in (("root", "encoding"),
                                      ("group", "encoding"),
                                      ("root", "write_args"),
                                      ("root", "write_call")):
                    for order in orders(place):
                        out.append(dict(dtype=dtype, ndim=ndim, nan=nan,
                                        place=place, order=order,
                                        packed=packed))
    return out


OPTION_SPEC = dict(dtype="f8", ndim=1, nan=True, place="group", packed=None)
NC_OPTIONS = ("fields", "mapping", "post_reader", "call_fields")


PLAIN_SPEC = dict(dtype="f8", ndim=1, nan=True, place="group",
                  order="var-first", packed=None)


def nc_cases(tier):
    """over: the period already holds another data set (`previous`);
    transparent=False: a FileSet with compress=False, decompress=False."""
    every = suffixes(["nc"]) + ["h5"]
    out = []
    for spec in nc_specs():
        plain = spec["place"] == "root" and spec["ndim"] == 1
        for suffix in (every if tier == "thorough" or plain else ["nc"]):
            for over in (False, True):
                out.append(dict(kind="nc", suffix=suffix, option=None,
                                over=over, transparent=True, **spec))
    for option in NC_OPTIONS:
        for order in ("var-first", "ref-first"):
            for suffix in (every if tier == "thorough" else ["nc", "nc.gz"]):
                out.append(dict(kind="nc", suffix=suffix, option=option,
                                order=order, over=False, transparent=True,
                                **OPTION_SPEC))
    for suffix in suffixes(["nc"])[1:]:
        for over in (False, True):
            out.append(dict(kind="nc", suffix=suffix, option=None, over=over,
                            transparent=False, **PLAIN_SPEC))
    return out


CSV_TABLES = (("int",), ("float",), ("floatnan",), ("str",),
              ("int", "floatnan", "str"))
CSV_OPTIONS = ("index_col", "no_index", "sep", "fields", "post_reader")


def csv_cases(tier):
    out = [dict(kind="csv", suffix=suffix, option=option, table=list(table),
                over=over, transparent=True)
           for table in CSV_TABLES for option in CSV_OPTIONS
           for suffix in suffixes(["csv", "txt", "asc"])
           for over in (False, True)]
    for suffix in suffixes(["csv"])[1:]:
        for over in (False, True):
            out.append(dict(kind="csv", suffix=suffix, option="index_col",
                            table=list(CSV_TABLES[-1]), over=over,
                            transparent=False))
    return out


def shards(tier):
    nc = nc_cases(tier)
    out = [("rt", "nc", nc[i:i + NC_CASES_PER_SHARD])
           for i in range(0, len(nc), NC_CASES_PER_SHARD)]
    out.append(("rt", "csv", csv_cases(tier)))
    return out


# ---------------------------------------------------------------------------
# data sets
# ---------------------------------------------------------------------------

def values(dtype, nan):
    import numpy as np
    if dtype in ("i2", "i4", "i8"):
        bits = 8 * int(dtype[1])
        # the middle value of i8 is not representable as a float64
        return np.array([-2 ** (bits - 1), 2 ** 53 + 1 if bits == 64 else 7,
                         2 ** (bits - 1) - 1], dtype)
    if dtype in ("f4", "f8"):
        v = np.array([1.5, -0.1, 3e38 if dtype == "f4" else 1e300], dtype)
        if nan:
            v[1] = np.nan
        return v
    if dtype == "bool":
        return np.array([True, False, True])
    if dtype == "str":
        return np.array(["a", "bc d", "é"], dtype=object)
    if dtype == "M8":
        return np.array(["2019-12-31T22:00:00", "2020-02-29T06:00:01",
                         "2020-03-01T00:00:00"], dtype="M8[ns]")
    return np.array([-1, 0, 90061], "m8[s]").astype("m8[ns]")


def packed_values(dtype, nan):
    import numpy as np
    v = np.array([9.5, 10.25, 12.0], dtype)
    if nan:
        v[1] = np.nan
    return v


def shaped(v, ndim, nan, longer=False):
    import numpy as np
    if ndim == 0:
        return np.array(v[1] if nan else v[0], dtype=v.dtype)
    if longer:
        v = np.concatenate([v, v[:1]])
    if ndim == 1:
        return v
    return np.stack([v, v[::-1]] + ([v] if longer else []))


def nc_dataset(spec):
    """-> (data set to store, name of the principal variable). Every data set
    has global attributes (text, integer, float, array) and attributes of
    variables and coordinates in the root and in groups; none of them is a
    key that CF decoding consumes."""
    import numpy as np
    import xarray as xr
    v = packed_values(spec["dtype"], spec["nan"]) if spec["packed"] else \
        values(spec["dtype"], spec["nan"])
    place = spec["place"]
    name = {"root": "v", "nested": "a/b/v",
            "groupcoords": "grp/v"}.get(place, "g/v")
    dims = [(), ("n",), ("m", "n")][spec["ndim"]]
    if place in ("owndim", "grouponly"):
        dims = [(), ("g/k",), ("g/j", "g/k")][spec["ndim"]]
    elif place == "samename":
        dims = [None, ("g/n",), ("g/m", "g/n")][spec["ndim"]]
    elif place == "groupcoords":
        dims = [None, ("grp/x",), ("grp/y", "grp/x")][spec["ndim"]]
    attrs = {"long_name": "principal variable", "level": 7}
    if spec["dtype"] not in ("M8", "m8"):
        attrs["units"] = "K"
    principal = (name, (dims, shaped(v, spec["ndim"], spec["nan"],
                                     longer=place == "samename"), attrs))
    if place == "grouponly":
        variables = [principal, ("g/ref", ("g/k", np.array([0.0, 1.0, 2.0]),
                                           {"units": "metre", "weight": 0.5}))]
        coords = {}
    else:
        variables = [principal,
                     ("ref", ("n", np.array([0.0, 1.0, 2.0]),
                              {"units": "metre", "weight": 0.5})),
                     ("ref2", ("m", np.array([0.0, 1.0])))]
        coords = {"n": ("n", np.array([10, 20, 30], "i4"), {"axis": "X"})}
    if spec["order"] == "ref-first":
        variables = variables[1:] + variables[:1]
    if place == "groupcoords":
        # dimension coordinate and an auxiliary coordinate that live in a
        # group with a name of several characters
        coords["grp/x"] = ("grp/x", np.array([5, 6, 7], "i4"), {"axis": "X"})
        coords["grp/lat"] = ("grp/x", np.array([0.5, 1.5, 2.5]),
                             {"units": "degrees_north"})
    ds = xr.Dataset(dict(variables), coords=coords,
                    attrs={"title": "round trip", "count": 3, "factor": 1.5,
                           "levels": np.array([1, 2, 3], "i4")})
    if spec["packed"] == "encoding":
        ds[name].encoding = dict(PACKING)
    return ds, name


def previous(fmt):
    """What the period holds before an overwrite: other variables, other
    groups, a longer dimension of the same name, another global attribute
    (NetCDF); more rows and other columns (CSV)."""
    import numpy as np
    import xarray as xr
    if fmt == "csv":
        return xr.Dataset({"extra": ("i", np.arange(5)),
                           "more": ("i", np.arange(5) + 0.5)},
                          coords={"i": ("i", np.arange(5))})
    return xr.Dataset({"stale": ("n", np.arange(5.0), {"units": "s"}),
                       "g/old": ("g/k", np.array([1, 2])),
                       "zz/deep/w": ("n", np.arange(5.0))},
                      coords={"n": ("n", np.arange(5))}, attrs={"old": 1})


def csv_dataset(table, dim):
    import numpy as np
    import xarray as xr
    columns = {
        "int": np.array([1, -2, 2 ** 40]),
        "float": np.array([0.5, -1.25e10, 3.0]),
        "floatnan": np.array([0.5, np.nan, 3.0]),
        "str": np.array(["x", "y,z", "w w"], dtype=object),
    }
    return xr.Dataset({c: (dim, columns[c]) for c in table},
                      coords={dim: (dim, np.array([0, 1, 2]))})


def tag_reader(file_info, data):
    """post_reader of the option cases."""
    return os.path.basename(file_info.path), data


# ---------------------------------------------------------------------------
# oracle
# ---------------------------------------------------------------------------

def kind_of(arr):
    k = arr.dtype.kind
    return "str" if k in "OUST" else k


def cells(arr):
    k = arr.dtype.kind
    if k == "M":
        return arr.astype("M8[ns]").astype("i8").reshape(-1).tolist()
    if k == "m":
        return arr.astype("m8[ns]").astype("i8").reshape(-1).tolist()
    return arr.reshape(-1).tolist()


def attrs_differ(expected, got):
    """Same keys; same kind, shape and cells of every value."""
    import numpy as np
    if sorted(expected) != sorted(got):
        return True
    for key, e in expected.items():
        e, g = np.asarray(e), np.asarray(got[key])
        if kind_of(e) != kind_of(g) or e.shape != g.shape \
                or cells(e) != cells(g):
            return True
    return False


def differ(fmt, expected, got, packed_name=None):
    """None or (key, expected, observed)."""
    import numpy as np
    if not hasattr(got, "variables"):
        return (fmt + "/not-a-dataset", "xarray.Dataset", repr(type(got)))
    en, gn = sorted(expected.variables), sorted(got.variables)
    if en != gn:
        return (fmt + "/variables-differ", en, gn)
    # a CSV file cannot hold attributes
    if fmt == "netcdf":
        if attrs_differ(expected.attrs, got.attrs):
            rootless = all("/" in name for name in en)
            return ("netcdf/global-attributes-differ" +
                    ("[no-variable-in-the-root-group]" if rootless else ""),
                    dict(expected.attrs), dict(got.attrs))
        for name in en:
            if attrs_differ(expected[name].attrs, got[name].attrs):
                return ("netcdf/variable-attributes-differ",
                        [name, dict(expected[name].attrs)],
                        [name, dict(got[name].attrs)])
    for name in en:
        e, g = expected[name], got[name]
        if tuple(e.dims) != tuple(g.dims) or e.shape != g.shape:
            return (fmt + "/dimensions-differ",
                    [name, list(e.dims), list(e.shape)],
                    [name, list(g.dims), list(g.shape)])
        ev, gv = np.asarray(e.values), np.asarray(g.values)
        ek, gk = kind_of(ev), kind_of(gv)
        if ek != gk:
            key = "/integer-read-as-float" if (ek, gk) == ("i", "f") else \
                "/dtype-kind-changed"
            return (fmt + key, [name, str(ev.dtype)], [name, str(gv.dtype)])
        ec, gc = cells(ev), cells(gv)
        for a, b in zip(ec, gc):
            if ek == "f" and (a != a or b != b):
                ok = a != a and b != b
            elif name == packed_name:
                ok = abs(a - b) <= PACKING["scale_factor"] / 2 + \
                    8 * float(np.finfo(ev.dtype).eps) * \
                    max(abs(a), abs(PACKING["add_offset"]))
            else:
                ok = a == b and type(a) is type(b)
            if not ok:
                return (fmt + "/values-differ", [name, ec], [name, gc])
    return None


# ---------------------------------------------------------------------------
# one case
# ---------------------------------------------------------------------------

def nc_setup(case):
    """-> (stored data set, FileSet kwargs, expected result of a read,
    per-call read arguments, per-call write arguments, principal variable)"""
    ds, name = nc_dataset(case)
    kwargs, call_args, write_call, expected = {}, {}, {}, ds
    if case["packed"] == "write_args":
        kwargs["write_args"] = {"encoding": {name: dict(PACKING)}}
    elif case["packed"] == "write_call":
        write_call = {"encoding": {name: dict(PACKING)}}
    option = case["option"]
    if option == "fields":
        kwargs["read_args"] = {"fields": ["ref", name]}
        expected = ds[["ref", name]].drop_vars("n")
    elif option == "call_fields":
        call_args = {"fields": ["ref", name]}
        expected = ds[["ref", name]].drop_vars("n")
    elif option == "mapping":
        kwargs["read_args"] = {"mapping": {"ref": "renamed", "absent": "x"}}
        expected = ds.rename({"ref": "renamed"})
    elif option == "post_reader":
        kwargs["post_reader"] = tag_reader
    return ds, kwargs, expected, call_args, write_call, name


def csv_setup(case):
    option = case["option"]
    ds = csv_dataset(case["table"], "i")
    kwargs, expected = {"read_args": {"index_col": 0}}, ds
    if option == "no_index":
        kwargs = {"write_args": {"index": False}}
        expected = csv_dataset(case["table"], "index")
    elif option == "sep":
        kwargs = {"write_args": {"sep": ";"},
                  "read_args": {"sep": ";", "index_col": "i"}}
    elif option == "fields":
        kwargs["read_args"]["fields"] = [case["table"][0]]
        expected = ds[[case["table"][0]]]
    elif option == "post_reader":
        kwargs["post_reader"] = tag_reader
    return ds, kwargs, expected, {}, {}, None


def check_case(case, top):
    """None or (key, expected, observed, msg)."""
    from typhon.files import FileSet
    fmt = {"nc": "netcdf", "csv": "csv"}[case["kind"]]
    root, tmp = os.path.join(top, "tree"), os.path.join(top, "tmp")
    for d in (root, tmp):
        shutil.rmtree(d, ignore_errors=True)
        os.makedirs(d)
    ds, kwargs, expected, call_args, write_call, name = \
        (nc_setup if fmt == "netcdf" else csv_setup)(case)
    template = REL + case["suffix"]
    parts = case["suffix"].split(".")
    # (replay files recorded before these two keys existed lack them)
    over, transparent = case.get("over", False), case.get("transparent", True)
    if not transparent:
        kwargs.update(compress=False, decompress=False)
    fs = FileSet(os.path.join(root, template), temp_dir=tmp, **kwargs)
    if type(fs.handler).__name__ != HANDLER[parts[0]]:
        return ("handler/wrong-default-for-suffix", HANDLER[parts[0]],
                type(fs.handler).__name__, "")
    rel = fsbuild.render(template, T0, T1)
    path = os.path.join(root, rel)
    try:
        with controlled():
            if over:
                # stored by a fileset without the options of the case (they
                # name variables that `previous` does not have)
                FileSet(fs.path, temp_dir=tmp)[T0:T1] = previous(fmt)
            if write_call:
                fs.write(ds, path, **write_call)
            else:
                fs[T0:T1] = ds
    except Exception as exc:
        return ("exception/%s-write/%s" % (fmt, type(exc).__name__), None,
                repr(exc)[:300], traceback.format_exc()[-300:])
    stored = sorted(os.path.relpath(os.path.join(d, n), root)
                    for d, _, names in os.walk(root) for n in names)
    if stored != [rel]:
        return (fmt + "/not-stored-under-the-period-name", [rel], stored, "")
    with open(path, "rb") as fh:
        head = fh.read(8)
    compressed = len(parts) == 2 and head.startswith(MAGIC[parts[1]])
    if len(parts) == 2 and transparent and not compressed:
        return (fmt + "/suffix-but-not-compressed", parts[1], repr(head), "")
    if case.get("packed") and not compressed:
        import netCDF4
        with netCDF4.Dataset(path) as nc:
            stored_dtype = str(nc[name].dtype)
        if stored_dtype != "int16":
            return ("netcdf/encoding-not-applied[%s]" % case["packed"],
                    "int16", stored_dtype, "")
    readers = [("read", lambda: fs.read(path, **call_args))]
    if not call_args:
        readers.append(("getitem-slice", lambda: fs[T0:T1]))
        readers.append(("getitem-time", lambda: fs[T0]))
    for api, call in readers:
        try:
            with controlled():
                got = call()
        except Exception as exc:
            if compressed and not transparent:
                # the statement asks for the round trip only; the stored
                # bytes name the cause
                return (fmt + "/compressed-although-compress-is-false",
                        "readable with decompress=False", repr(exc)[:300],
                        api)
            return ("exception/%s-read/%s" % (fmt, type(exc).__name__),
                    None, repr(exc)[:300],
                    api + " " + traceback.format_exc()[-300:])
        if api == "getitem-slice":
            if not isinstance(got, list) or len(got) != 1:
                return (fmt + "/period-not-found-again", "one data set",
                        repr(got)[:200], api)
            got = got[0]
        if case["option"] == "post_reader":
            if not isinstance(got, tuple) or got[0] != os.path.basename(rel):
                return (fmt + "/post-reader-not-applied",
                        os.path.basename(rel), repr(got)[:200], api)
            got = got[1]
        bad = differ(fmt, expected, got,
                     name if case.get("packed") else None)
        if bad:
            return bad + (api,)
    return None


def nontrivial(case):
    if case["kind"] == "csv":
        return True
    return case["ndim"] > 0 or case["place"] != "root"


def run_cases(cases):
    res = driver.ShardResult()
    top = driver.fresh_dir("c11rt")
    for case in cases:
        res.case(nontrivial=nontrivial(case))
        res.count("round_trips_" + case["kind"])
        bad = check_case(case, top)
        if bad is not None:
            again = check_case(case, top)
            if again is None or again[0] != bad[0]:
                res.error("NONDETERMINISM in %r" % (case,))
            res.violation(bad[0], case, bad[1], bad[2], bad[3])
    res.sample(dict(part="roundtrip", **cases[-1]))
    shutil.rmtree(top, ignore_errors=True)
    return res


def _child(conn, cases):
    try:
        conn.send(run_cases(cases))
    except BaseException:
        res = driver.ShardResult()
        res.error("round-trip child crashed:\n" + traceback.format_exc())
        conn.send(res)
    finally:
        conn.close()


def run_shard(shard):
    _, kind, cases = shard
    if kind == "csv":
        return run_cases(cases)
    # netCDF4/HDF5 can take the interpreter down: keep it out of the worker
    # (which imports typhon once, so that the forked children need not)
    import typhon.files  # noqa: F401
    ctx = multiprocessing.get_context("fork")
    parent, child = ctx.Pipe(duplex=False)
    proc = ctx.Process(target=_child, args=(child, cases))
    proc.start()
    child.close()
    try:
        res = parent.recv()
    except EOFError:
        res = driver.ShardResult()
        res.error("NetCDF child died without a result (exit code pending) "
                  "on a shard starting with %r" % (cases[0],))
    proc.join()
    return res


def replay(case):
    top = driver.fresh_dir("c11rt")
    bad = check_case(case, top)
    if bad is None:
        return dict(ok=True)
    return dict(ok=False, key=bad[0], expected=bad[1], observed=bad[2],
                msg=bad[3])
