"""C06, part "large": regular grids of 200 and 5000 build points with the
structured permutation family - one permutation per short-cut visible in
GeoIndex.query (driven from c06_geoindex.py)."""
import itertools

import numpy as np

from checks import c06_model as model

RULE = ("Large part: a 10x20 polar-cap grid (200 points, across the date "
        "line) and a 50x100 global grid (5000 points) x the 9 "
        "metric/tree/leaf configurations x every query sequence of length 1 "
        "(thorough: 1..2) over 5 query points (two grid nodes, "
        "the pole, a point at the date line, an off-grid point) x 3-4 radii "
        "(1 m, about one and five grid steps, 200 points: diameter + 0.1 "
        "km) x the permutation family {shuffle off, identity, reversal, "
        "cyclic shifts 1..7, the transposition (0 i) for EVERY build index i "
        "expected to pair with the first query point} - the last one puts "
        "each of these points on tree position 0. Every index is queried with and without "
        "distances.")

SHIFTS = range(1, 8)


def grid(lat0, dlat, nlat, lon0, dlon, nlon):
    lat = lat0 + dlat * np.arange(nlat)
    lon = lon0 + dlon * np.arange(nlon)
    return np.repeat(lat, nlon), np.tile(lon, nlat)


class Grid:
    def __init__(self, latlon, nodes, free_points, radii):
        self.lat, self.lon = latlon
        self.n = len(self.lat)
        # query points: grid nodes taken from the build arrays, then others
        self.qlat = np.array([self.lat[i] for i in nodes]
                             + [p[0] for p in free_points])
        self.qlon = np.array([self.lon[i] for i in nodes]
                             + [p[1] for p in free_points])
        self.radii = radii
        self.dist = model.distance_matrices(self.lat, self.lon, self.qlat,
                                            self.qlon)

    def expected(self, metric, qseq, r):
        d, rk = self.dist[metric], model.radius_km(r)
        return {(int(i), j): float(d[i, q]) for j, q in enumerate(qseq)
                for i in np.nonzero(d[:, q] <= rk)[0]}

    def permutation(self, desc):
        """desc -> None (shuffle off) or the permutation as an array."""
        kind, arg = desc
        ident = np.arange(self.n)
        if kind == "off":
            return None
        if kind == "identity":
            return ident
        if kind == "reversal":
            return ident[::-1].copy()
        if kind == "shift":
            return np.roll(ident, arg)
        if kind == "swap0":
            ident[0], ident[arg] = arg, 0
            return ident
        raise ValueError(desc)


def family(expected):
    """The emptiness short-cut concerns tree position 0 and the first query
    point: every build point that pairs with it is put there once."""
    fixed = [("off", 0), ("identity", 0), ("reversal", 0)] + \
        [("shift", s) for s in SHIFTS]
    return fixed + [("swap0", i) for i in sorted(
        {i for i, j in expected if j == 0} - {0})]


_grids = {}


def get_grid(name):
    if name not in _grids:
        if name == "g200":
            _grids[name] = Grid(
                grid(62.5, 3.0, 10, -171.0, 18.0, 20), [0, 137],
                [(90.0, 33.0), (70.1, 179.5), (-30.0, 10.0)],
                [0.001, 150.3, 1203.7, model.DIAMETER_KM + 0.1])
        else:
            _grids[name] = Grid(
                grid(-88.2, 3.6, 50, -178.2, 3.6, 100), [0, 2537],
                [(90.0, 0.0), (0.7, 179.9), (45.3, 10.1)],
                [0.001, 230.7, 2003.1])
    return _grids[name]


def lattice_errors():
    errors = []
    for name in ("g200", "g5000"):
        g = get_grid(name)
        for metric, d in g.dist.items():
            for r in g.radii:
                if model.in_band(d, model.radius_km(r)):
                    errors.append("distance in the don't-care band: %s %s "
                                  "r=%r" % (name, metric, r))
    return errors


def shards(tier, seed):
    out = []
    qmax = 1 if tier == "quick" else 2
    for name in ("g200", "g5000"):
        nq = len(get_grid(name).qlat)
        out += [("large", name, cfg, q0, qmax)
                for cfg in model.CONFIGURATIONS for q0 in range(nq)]
    return out


def query_sequences(grid_, q0, qmax):
    """The query sequences of length <= qmax that start with q0."""
    return [(q0,) + rest for n in range(qmax)
            for rest in itertools.product(range(len(grid_.qlat)), repeat=n)]


def run_case(seam, g, cfg, desc, qseq, r, exp):
    """One index, queried with and without distances -> [(None or violation
    tuple, whether the only expected pair sits at tree position 0 and query
    0)] for return_distance True, False."""
    metric, tree, leaf = cfg
    perm = g.permutation(desc)
    index = model.make_index(seam, g.lat, g.lon, perm, metric, tree, leaf)
    return [model.evaluate(index, perm, exp, metric or "minkowski",
                           g.qlat[list(qseq)], g.qlon[list(qseq)], r,
                           with_distances)
            for with_distances in (True, False)]


def run(res, seam, shard, replay):
    _, name, cfg, q0, qmax = shard
    g = get_grid(name)
    for qseq in query_sequences(g, q0, qmax):
        for r in g.radii:
            exp = g.expected(cfg[0] or "minkowski", qseq, r)
            for desc in family(exp):
                case = dict(part="large", grid=name, metric=cfg[0],
                            tree=cfg[1], leaf=cfg[2], perm=desc, query=qseq,
                            r=r)
                try:
                    verdicts = run_case(seam, g, cfg, desc, qseq, r, exp)
                except model.SeamNotHit as e:
                    res.error(str(e))
                    return
                except Exception as e:
                    model.reraise_watchdog(e)
                    res.violation("build/exception/" + type(e).__name__,
                                  case, None, repr(e)[:200])
                    continue
                res.count("indexes_built")
                res.count("permutations_imposed", int(desc[0] != "off"))
                res.maximum("pairs_in_one_result", len(exp))
                for (bad, at_00), with_distances in zip(verdicts,
                                                        (True, False)):
                    res.case(nontrivial=bool(exp))
                    res.count("only_pair_is_tree0_query0", int(at_00))
                    if bad is not None:
                        model.report(res, replay, bad, dict(
                            case, return_distance=with_distances))
    res.sample(dict(case, points=g.n, expected_pairs=len(exp)))


def replay(seam, case):
    g = get_grid(case["grid"])
    qseq, r = tuple(case["query"]), case["r"]
    exp = g.expected(case["metric"] or "minkowski", qseq, r)
    verdicts = run_case(seam, g, (case["metric"], case["tree"], case["leaf"]),
                        tuple(case["perm"]), qseq, r, exp)
    return verdicts[0 if case["return_distance"] else 1][0]
