"""C15: one real interpreter (started by checks/c15_cache.py, part
'process'). `python -m checks.c15_proc '<json>'` constructs
FileSet(path, info_cache=cache), asks find() and ends normally, so that the
exit handler registered by typhon saves the cache; with die_at=k the
interpreter calls os._exit(9) at crash point k of that save. The last line
printed is 'C15PROC <json report>'."""
import atexit
import json
import os
import sys
import types
import warnings

from mc import driver
driver.setup_env()

from mc import fault                                    # noqa: E402
import typhon.files.fileset as tff                      # noqa: E402
from typhon.files import FileSet                        # noqa: E402
from checks.c15_world import Seams, answers, snapshot   # noqa: E402


class KillPlan(fault.Plan):
    def point(self, label):
        if len(self.trace) == self.inject_at:
            sys.stdout.flush()
            os._exit(9)
        super().point(label)


def main(spec):
    report = {}
    plan = KillPlan(spec["die_at"])

    def tell():
        report["points"] = plan.trace
        print("C15PROC " + json.dumps(driver.jsonable(report)))
    atexit.register(tell)      # registered first: runs after typhon's handler
    with warnings.catch_warnings(record=True) as caught:
        warnings.simplefilter("always")
        fs = FileSet(spec["path"], name="c15", info_cache=spec["cache"])
    report["warnings"] = [str(w.message) for w in caught]
    report["loaded"] = sorted(snapshot(fs).values())
    report["answers"] = answers(fs)
    report["cache"] = sorted(snapshot(fs).values())
    store = os.path.dirname(spec["cache"] or spec["path"])
    seams = Seams(plan, types.SimpleNamespace(disk=dict, store=store))
    for name, value in seams.bindings().items():
        setattr(tff, name, value)


if __name__ == "__main__":
    main(json.loads(sys.argv[1]))
