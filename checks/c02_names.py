"""C02 - generated names parse back (DESIGN.md section 3, C02).

Enumerates a template grammar (date spelling x time tail x end spelling x
directory split x user placeholder x separator), a boundary lattice of periods
per template and every single-character edit of generated names.  Oracle: the
harness' own generator and backtracking parser (mc/fsbuild.py)."""
import datetime as dt
import itertools
import os
import sys

from mc import driver, fsbuild
driver.setup_env()

PROP = "C02"
LEVEL = "exploration"
RULE = ("template grammar: date {ymd,y2md,yj,y2j} x tail {-,h,hm,hms,hms+ms} "
        "x end {none, none+time_coverage, full, h, hm, hms, m, ms, s, "
        "doy+tail, day+tail} x split {flat, date dir, year repeated in dir "
        "and file, one dir per date field} x user {none, default regex, "
        "custom regex with braces, value list} x separator {'', -, _, ., T}; "
        "thorough = all valid combinations, quick = greedy pairwise covering "
        "array of the six dimensions. Periods: 8 boundary dates (+ years "
        "1000/9999 for {year}) x 3 times of day x 9 durations, projected on "
        "what the template can spell. Per (template, period): get_filename, "
        "get_info, parse_filename, all info_via modes on one period; per "
        "template 3 names x every single-character edit (delete, insert/"
        "substitute one of '0 9 a . / -'). Non-trivial = the period crosses a "
        "unit boundary of the end spelling (roll-over), is a leap day / doy "
        "366 / year2 pivot, or the case is an edit; cases are distinct by "
        "construction.")
ASSUMPTIONS = [
    "template characters that typhon documents as regular-expression syntax "
    "(+ ( [ | ? $ ^) are not used as literals",
    "edits that yield a syntactically matching name whose meaning the "
    "statement leaves open are skipped: day-of-year 000 or beyond the year's "
    "length, a fully spelled end before the start, partial ends coarser than "
    "hour that would need a roll-over",
    "years 1965-2064 for year2 templates, 1000-9999 for year templates",
]

DATES = {"ymd": ["year", "month", "day"], "y2md": ["year2", "month", "day"],
         "yj": ["year", "doy"], "y2j": ["year2", "doy"]}
TAILS = {"-": [], "h": ["hour"], "hm": ["hour", "minute"],
         "hms": ["hour", "minute", "second"],
         "hmsu": ["hour", "minute", "second", "millisecond"]}
ENDS = ["none", "none_tc", "full", "h", "hm", "hms", "m", "ms", "s", "jt",
        "dt"]
END_FIELDS = {"h": ["hour"], "hm": ["hour", "minute"],
              "hms": ["hour", "minute", "second"], "m": ["minute"],
              "ms": ["minute", "second"], "s": ["second"]}
SPLITS = ["flat", "datedir", "yeardir", "fielddirs", "satdir"]
USERS = ["none", "default", "regex", "list"]
SEPS = ["", "-", "_", ".", "T"]
DIMS = [list(DATES), list(TAILS), ENDS, SPLITS, USERS, SEPS]

ROLL = {"hour": dt.timedelta(days=1), "minute": dt.timedelta(hours=1),
        "second": dt.timedelta(minutes=1)}


def end_fields(date, tail, end):
    d, t = DATES[date], TAILS[tail]
    if end in ("none", "none_tc"):
        return []
    if end == "full":
        return d + t
    if end in END_FIELDS:
        f = END_FIELDS[end]
        return f if all(x in t for x in f) else None
    if end == "jt":
        return ["doy"] + t if "doy" in d else None
    if end == "dt":
        return ["day"] + t if "day" in d else None
    raise ValueError(end)


def valid(combo):
    date, tail, end, split, user, sep = combo
    if end_fields(date, tail, end) is None:
        return False
    if split == "satdir" and user == "none":
        return False         # repeats the user placeholder in dir and file
    return True


def build_template(combo):
    """-> (relative template, user spec or None)"""
    date, tail, end, split, user, sep = combo
    d, t = DATES[date], TAILS[tail]
    ef = end_fields(date, tail, end)
    ph = lambda names, pre="": "".join("{%s%s}" % (pre, n) for n in names)
    upart = ("{sat}" + sep) if user != "none" else ""
    estr = (sep + ph(ef, "end_")) if ef else ""
    tstr = (sep + ph(t)) if t else ""
    if split == "flat":
        rel = "p" + sep + upart + ph(d) + tstr + estr + ".dat"
    elif split == "datedir":
        rel = ph(d) + "/p" + sep + upart + ph(t) + estr + ".dat"
    elif split == "yeardir":
        rel = "{%s}/p" % d[0] + sep + upart + ph(d) + tstr + estr + ".dat"
    elif split == "satdir":
        rel = "{sat}/p" + sep + upart + ph(d) + tstr + estr + ".dat"
    else:
        rel = "/".join("{%s}" % x for x in d) + "/p" + sep + upart + \
            ph(t) + estr + ".dat"
    return rel


def user_spec(user):
    if user == "none":
        return None, None, [None]
    if user == "default":
        return None, fsbuild.UserPH(
            ["A", "N18"], accepts=lambda s: len(s) > 0 and "\n" not in s,
            maxlen=200), ["A", "N18"]
    if user == "regex":
        def acc(s):
            return len(s) == 3 and s[0] in "AB" and s[1:].isdigit() \
                and s.isascii()
        return {"sat": r"[AB]\d{2}"}, fsbuild.UserPH(
            ["A07", "B99"], accepts=acc, maxlen=3), ["A07", "B99"]
    if user == "list":
        return {"sat": ["A1", "B22"]}, fsbuild.UserPH(
            ["A1", "B22"], maxlen=3), ["A1", "B22"]


def all_combos():
    return [c for c in itertools.product(*DIMS) if valid(c)]


def covering(combos):
    """Greedy pairwise covering array over the valid combinations."""
    need = set()
    for c in combos:
        for i, j in itertools.combinations(range(len(c)), 2):
            need.add((i, c[i], j, c[j]))
    chosen = []
    remaining = list(combos)
    while need:
        best, gain = None, -1
        for c in remaining:
            g = sum(1 for i, j in itertools.combinations(range(len(c)), 2)
                    if (i, c[i], j, c[j]) in need)
            if g > gain:
                best, gain = c, g
        chosen.append(best)
        for i, j in itertools.combinations(range(len(best)), 2):
            need.discard((i, best[i], j, best[j]))
        remaining.remove(best)
    return chosen


START_DATES = [(1965, 1, 1), (1999, 12, 31), (2000, 2, 29), (2000, 12, 31),
               (2019, 12, 31), (2020, 2, 28), (2020, 3, 1), (2064, 12, 31)]
START_TIMES = [(0, 0, 0, 0), (12, 30, 15, 250000), (23, 59, 59, 999000)]
DELTAS = [dt.timedelta(0), dt.timedelta(milliseconds=1),
          dt.timedelta(seconds=1), dt.timedelta(minutes=59),
          dt.timedelta(hours=1), dt.timedelta(hours=23, minutes=59),
          dt.timedelta(hours=24), dt.timedelta(days=31),
          dt.timedelta(days=366)]
TIME_UNITS = ["hour", "minute", "second", "millisecond"]


def trunc(t, tail):
    f = TAILS[tail]
    return t.replace(
        hour=t.hour if "hour" in f else 0,
        minute=t.minute if "minute" in f else 0,
        second=t.second if "second" in f else 0,
        microsecond=(t.microsecond // 1000 * 1000)
        if "millisecond" in f else 0)


def periods(combo):
    """Yields (s, e, nontrivial) with e what the reference expects back."""
    date, tail, end, split, user, sep = combo
    ef = end_fields(date, tail, end)
    year2 = "year2" in DATES[date]
    starts = list(START_DATES)
    if not year2:
        starts += [(1000, 1, 1), (9999, 12, 30)]
    seen = set()
    for d in starts:
        for tm in START_TIMES:
            s = trunc(dt.datetime(d[0], d[1], d[2], tm[0], tm[1], tm[2],
                                  tm[3]), tail)
            for delta in DELTAS:
                try:
                    e = trunc(s + delta, tail)
                except OverflowError:
                    continue
                if year2 and not 1965 <= e.year <= 2064:
                    continue
                if end in ("none", "none_tc"):
                    e2 = s + dt.timedelta(hours=1) if end == "none_tc" else s
                    if e2.year > 9999:
                        continue
                elif end == "full":
                    e2 = e
                elif end in END_FIELDS:
                    f = END_FIELDS[end]
                    rep = {}
                    for u in ("hour", "minute", "second"):
                        if u in f:
                            rep[u] = getattr(e, u)
                    cand = s.replace(**rep)
                    unit = ROLL[f[0]]
                    if cand < s:
                        cand += unit
                    # the rule determines the end uniquely only within one
                    # roll-over unit; otherwise the period is not expressible
                    if not (s <= cand and cand - s < unit):
                        continue
                    if cand.year > 9999:
                        continue
                    e2 = cand
                elif end == "jt":
                    if e.year != s.year:
                        continue
                    e2 = e
                elif end == "dt":
                    if (e.year, e.month) != (s.year, s.month):
                        continue
                    e2 = e
                if (s, e2) in seen:
                    continue
                seen.add((s, e2))
                nt = (e2.date() != s.date() or (s.month, s.day) == (2, 29)
                      or s.timetuple().tm_yday == 366
                      or s.year in (1965, 2064) or e2.hour != s.hour)
                yield s, e2, nt


def expected_fields(rel, s, e, sat):
    out = {}
    for tok in fsbuild.tokenize(rel):
        if tok[0] == "ph":
            n = tok[1]
            if n == "sat":
                out[n] = sat
            elif n.startswith("end_"):
                out[n] = fsbuild.field(n[4:], e)
            else:
                out[n] = fsbuild.field(n, s)
    return out


def shards(tier, seed):
    combos = all_combos()
    if tier == "quick":
        combos = covering(combos)
    n = 64
    return [("t", tier, combos[i::n]) for i in range(n) if combos[i::n]]


class Stub:
    """Handler stub for info_via tests."""
    T = [dt.datetime(2001, 2, 3, 4, 5, 6), dt.datetime(2001, 2, 3, 7, 8, 9)]


def make_fileset(base, rel, combo, **kw):
    from typhon.files import FileSet
    placeholder, _, _ = user_spec(combo[4])
    if combo[2] == "none_tc":
        kw["time_coverage"] = "1 hour"
    return FileSet(os.path.join(base, rel), placeholder=placeholder, **kw)


def check_roundtrip(fs, base, rel, combo, s, e, sat):
    """None or (key, expected, observed, msg)."""
    fill = {"sat": sat} if sat is not None else None
    ref_name = os.path.join(base, fsbuild.render(rel, s, e, fill))
    try:
        name = fs.get_filename((s, e), fill=fill)
    except Exception as exc:
        return ("get_filename/exception/" + type(exc).__name__, ref_name,
                repr(exc)[:200], "")
    if name != ref_name:
        return ("get_filename/differs-from-reference-generator", ref_name,
                name, "")
    try:
        info = fs.get_info(name)
    except Exception as exc:
        return ("get_info/exception/" + type(exc).__name__,
                [s, e], repr(exc)[:200], name)
    if info.times[0] != s:
        return ("get_info/start", s, info.times[0], name)
    if info.times[1] != e:
        kind = combo[2]
        return ("get_info/end-%s" % kind, e, info.times[1], name)
    exp_attr = {"sat": sat} if sat is not None else {}
    if dict(info.attr) != exp_attr:
        return ("get_info/attr", exp_attr, dict(info.attr), name)
    try:
        parsed = fs.parse_filename(name)
    except Exception as exc:
        return ("parse_filename/exception/" + type(exc).__name__, None,
                repr(exc)[:200], name)
    exp = expected_fields(rel, s, e, sat)
    if parsed != exp:
        return ("parse_filename/fields", exp, parsed, name)
    return None


def check_info_via(base, rel, combo, s, e, sat):
    from typhon.files import FileSet
    from typhon.files.handlers import FileHandler, FileInfo
    fill = {"sat": sat} if sat is not None else None
    name = os.path.join(base, fsbuild.render(rel, s, e, fill))
    exp_attr = {"sat": sat} if sat is not None else {}
    variants = [
        ("both", Stub.T, {"sat": "H", "extra": "1"}, Stub.T,
         {**exp_attr, "sat": "H", "extra": "1"}),
        ("both", [None, None], {}, [s, e], exp_attr),
        # no end from the handler: the name's end stays; a template without
        # end fields defaults the end from the (handler's) start afterwards
        ("both", [Stub.T[0], None], {"extra": "1"},
         [Stub.T[0], e if combo[2] not in ("none", "none_tc") else
          Stub.T[0] + (dt.timedelta(hours=1) if combo[2] == "none_tc"
                       else dt.timedelta(0))],
         {**exp_attr, "extra": "1"}),
        ("handler", Stub.T, {"k": "v"}, Stub.T, {"k": "v"}),
    ]
    for via, htimes, hattr, exp_times, exp_a in variants:
        def info(file_info, htimes=htimes, hattr=hattr):
            return FileInfo(file_info.path, list(htimes), dict(hattr))
        fs = make_fileset(base, rel, combo, handler=FileHandler(info=info),
                          info_via=via)
        try:
            got = fs.get_info(name)
        except Exception as exc:
            return ("info_via/%s/exception/%s" % (via, type(exc).__name__),
                    exp_times, repr(exc)[:200], name)
        if list(got.times) != list(exp_times):
            return ("info_via/%s/times" % via, exp_times, got.times, name)
        if dict(got.attr) != exp_a:
            return ("info_via/%s/attr" % via, exp_a, dict(got.attr), name)
    return None


EDIT_CHARS = "09a./-"


def edits(relname):
    for i in range(len(relname)):
        yield relname[:i] + relname[i + 1:]
        for ch in EDIT_CHARS:
            if ch != relname[i]:
                yield relname[:i] + ch + relname[i + 1:]
    for i in range(len(relname) + 1):
        for ch in EDIT_CHARS:
            yield relname[:i] + ch + relname[i:]


def doy_out_of_range(env):
    import calendar
    for pre in ("", "end_"):
        if pre + "doy" not in env:
            continue
        doy = int(env[pre + "doy"])
        if pre + "year" in env:
            year = int(env[pre + "year"])
        elif pre + "year2" in env:
            y2 = int(env[pre + "year2"])
            year = (2000 if y2 < fsbuild.YEAR2_THRESHOLD else 1900) + y2
        elif "year" in env:
            year = int(env["year"])
        else:
            y2 = int(env["year2"])
            year = (2000 if y2 < fsbuild.YEAR2_THRESHOLD else 1900) + y2
        if year < 1 or not 1 <= doy <= (366 if calendar.isleap(year) else 365):
            return True
    return False


def reference_reading(rel, relname, users, tc):
    """-> ("reject",) | ("skip",) | ("ok", [(t0, t1, attrs, env), ...])"""
    envs = fsbuild.parse(rel, relname, users)
    if not envs:
        return ("reject",)
    outs = []
    for env in envs:
        # day-of-year outside the year: statement silent
        if doy_out_of_range(env):
            return ("skip",)
        try:
            t0, t1 = fsbuild.times_from_fields(env, tc)
        except (ValueError, OverflowError):
            outs.append(None)       # impossible date: must be rejected
            continue
        if t1 is None or t1 < t0:
            return ("skip",)
        outs.append((t0, t1, {k: v for k, v in env.items() if k == "sat"},
                     env))
    if all(o is None for o in outs):
        return ("reject",)
    if any(o is None for o in outs):
        return ("skip",)
    return ("ok", outs)


def check_edit(fs, base, rel, relname, users, tc):
    ref = reference_reading(rel, relname, users, tc)
    if ref[0] == "skip":
        return "skip"
    name = base + "/" + relname      # (join would drop base for '/x')
    try:
        info = fs.get_info(name)
        got = ("ok", info.times[0], info.times[1], dict(info.attr))
    except ValueError:
        got = ("reject",)
    except Exception as exc:
        return ("edit/exception/" + type(exc).__name__, ref[0],
                repr(exc)[:200], relname)
    fs.info_cache.clear()
    if ref[0] == "reject":
        if got[0] != "reject":
            return ("edit/misparsed-instead-of-rejected", "ValueError",
                    got[1:], relname)
        return None
    if got[0] == "reject":
        return ("edit/legal-name-rejected",
                [(o[0], o[1], o[2]) for o in ref[1]], "ValueError", relname)
    for t0, t1, attrs, env in ref[1]:
        if (got[1], got[2], got[3]) == (t0, t1, attrs):
            return None
    return ("edit/legal-name-misparsed",
            [(o[0], o[1], o[2]) for o in ref[1]], got[1:], relname)


def run_template(res, combo, tier):
    base = "/data/v"
    rel = build_template(combo)
    placeholder, uph, sats = user_spec(combo[4])
    users = {"sat": uph} if uph else {}
    tc = dt.timedelta(hours=1) if combo[2] == "none_tc" else None
    fs = make_fileset(base, rel, combo)
    first = True
    names = []
    plist = list(periods(combo))
    for k, (s, e, nt) in enumerate(plist):
        sat = sats[k % len(sats)]
        res.case(nontrivial=nt)
        bad = check_roundtrip(fs, base, rel, combo, s, e, sat)
        if bad is None and first:
            bad = check_info_via(base, rel, combo, s, e, sat)
            res.count("info_via_cases", 4)
            first = False
        if bad is not None:
            res.violation(bad[0], dict(kind="roundtrip", combo=combo,
                                       template=rel, s=s, e=e, sat=sat),
                          bad[1], bad[2], bad[3])
        if k in (0, len(plist) // 2, len(plist) - 1):
            names.append(fsbuild.render(rel, s, e, {"sat": sat}))
    # errors for unknown / unfilled placeholders
    bad = check_placeholder_errors(fs, combo)
    if bad is not None:
        res.violation(bad[0], dict(kind="errors", combo=combo, template=rel),
                      bad[1], bad[2], bad[3])
    # rejection of near misses
    for relname in dict.fromkeys(names):
        for ed in edits(relname):
            out = check_edit(fs, base, rel, ed, users, tc)
            if out == "skip":
                res.count("edits_skipped_statement_silent")
                continue
            res.case(nontrivial=True)
            res.count("edits")
            if out is not None:
                res.violation(out[0], dict(kind="edit", combo=combo,
                                           template=rel, name=ed),
                              out[1], out[2], out[3])
    return rel, plist[-1] if plist else None


def check_placeholder_errors(fs, combo):
    from typhon.files import fileset as fsmod
    s = dt.datetime(2020, 1, 2, 3, 4, 5)
    try:
        fs.get_filename((s, s), template="x{bogus_field}.dat",
                        fill={"sat": "A1"})
        return ("errors/unknown-placeholder-accepted",
                "UnknownPlaceholderError", "no exception", "get_filename")
    except fsmod.UnknownPlaceholderError:
        pass
    except Exception as exc:
        return ("errors/unknown-placeholder-wrong-exception",
                "UnknownPlaceholderError", repr(exc)[:200], "get_filename")
    try:
        fs.parse_filename("x1.dat", template="x{bogus_field}.dat")
        return ("errors/unknown-placeholder-accepted",
                "UnknownPlaceholderError", "no exception", "parse_filename")
    except fsmod.UnknownPlaceholderError:
        pass
    except Exception as exc:
        return ("errors/unknown-placeholder-wrong-exception",
                "UnknownPlaceholderError", repr(exc)[:200], "parse_filename")
    if combo[4] == "default":
        try:
            name = fs.get_filename((s, s))
            return ("errors/unfilled-placeholder-accepted",
                    "UnfilledPlaceholderError", name, "get_filename")
        except fsmod.UnfilledPlaceholderError:
            pass
        except Exception as exc:
            return ("errors/unfilled-placeholder-wrong-exception",
                    "UnfilledPlaceholderError", repr(exc)[:200],
                    "get_filename")
    return None


def run_shard(shard):
    _, tier, combos = shard
    res = driver.ShardResult()
    last = None
    for combo in combos:
        res.count("templates")
        last = run_template(res, combo, tier)
    if last:
        res.sample(dict(template=last[0], period=last[1]))
    return res


def replay(case):
    combo = tuple(case["combo"])
    base = "/data/v"
    rel = build_template(combo)
    placeholder, uph, sats = user_spec(combo[4])
    users = {"sat": uph} if uph else {}
    tc = dt.timedelta(hours=1) if combo[2] == "none_tc" else None
    fs = make_fileset(base, rel, combo)
    if case["kind"] == "roundtrip":
        s = dt.datetime.fromisoformat(case["s"])
        e = dt.datetime.fromisoformat(case["e"])
        bad = check_roundtrip(fs, base, rel, combo, s, e, case["sat"])
        if bad is None:
            bad = check_info_via(base, rel, combo, s, e, case["sat"])
    elif case["kind"] == "edit":
        bad = check_edit(fs, base, rel, case["name"], users, tc)
        if bad == "skip":
            bad = None
    else:
        bad = check_placeholder_errors(fs, combo)
    if bad is None:
        return dict(ok=True)
    return dict(ok=False, key=bad[0], expected=bad[1], observed=bad[2],
                msg=bad[3], template=rel)


if __name__ == "__main__":
    driver.main(sys.modules[__name__])
