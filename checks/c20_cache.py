"""C20, cache part: request histories against the tile cache directory
(driven from c20_srtm.py).

A history = an environment that decides where the cache directory is, an
initial set of tiles present in it (as sparse files named like the extracted
archive members) and up to three SRTM30.elevation requests, each issued from
another working directory. SRTM30.get_tile is the real one; download_tile is
replaced by a recorder that materialises the sparse file where the real one
stores it (typhon.topography._get_data_path()). The cache directory is not
named by the statement, so the model is: the .DEM files below the scratch
root, which must all be in one directory.
Every sequence of length <= 3 is a prefix of a sequence of length 3, so the
27 maximal sequences per initial state are executed from a fresh state and
every step is checked; a prefix is counted as a case once.
"""
import itertools
import os
import shutil

from mc import driver
from checks.c20_model import tiles_intersecting

CORNER = ("w020n90", "e020n90", "w020n40", "e020n40")
REQUESTS = {"one": (38.0, 18.0, 39.0, 19.0),     # w020n40
            "two": (39.0, 18.0, 41.0, 19.0),     # + w020n90
            "four": (39.0, 19.0, 41.0, 21.0)}    # all of CORNER
QUICK_INITIAL = [(), ("w020n40",), ("w020n90", "e020n40"), CORNER]
DEM_BYTES = 6000 * 4800 * 2
DEPTH = 3
# environment -> the one variable (besides HOME) that is set, and where the
# harness may put tiles beforehand (only TYPHON_DATA_PATH has a documented
# layout; the other caches are warmed by earlier requests of the history)
ENVS = {"data_path": ("TYPHON_DATA_PATH", os.path.join("data", "topography")),
        "xdg": ("XDG_CACHE_HOME", None),
        "home": (None, None)}
VARIABLES = ("TYPHON_DATA_PATH", "XDG_CACHE_HOME", "HOME")


def shards(tier, seed):
    if tier == "quick":
        initial = QUICK_INITIAL
    else:
        initial = [c for n in range(len(CORNER) + 1)
                   for c in itertools.combinations(CORNER, n)]
    return [("cache", env, init, first) for env in ENVS
            for init in (initial if ENVS[env][1] else [()])
            for first in REQUESTS]


def materialise(cache_dir, tile):
    os.makedirs(cache_dir, exist_ok=True)
    with open(os.path.join(cache_dir, tile.upper() + ".DEM"), "wb") as f:
        f.truncate(DEM_BYTES)


def listing(root):
    """-> (sorted tile names present, sorted directories holding them, sorted
    other files), everything below root."""
    tiles, dirs, stray = set(), set(), []
    for path, _, names in os.walk(root):
        for n in names:
            if n.endswith(".DEM"):
                tiles.add(n[:-4].lower())
                dirs.add(os.path.relpath(path, root))
            else:
                stray.append(os.path.relpath(os.path.join(path, n), root))
    return sorted(tiles), sorted(dirs), sorted(stray)


def run_history(env, initial, sequence):
    """Executes the requests from a fresh state; one record per request."""
    from typhon import topography
    from typhon.topography import SRTM30
    root = driver.fresh_dir("c20-cache")
    variable, initial_dir = ENVS[env]
    for tile in initial:
        materialise(os.path.join(root, initial_dir), tile)
    downloads = []

    def recording_download(name):
        downloads.append(name)
        materialise(topography._get_data_path(), name)

    saved_env = {v: os.environ.get(v) for v in VARIABLES}
    saved_cwd = os.getcwd()
    saved_download = SRTM30.__dict__["download_tile"]
    for v in VARIABLES:
        os.environ.pop(v, None)
    os.environ["HOME"] = os.path.join(root, "home")
    os.makedirs(os.environ["HOME"])
    if variable:
        os.environ[variable] = os.path.join(root, "data")
        os.makedirs(os.environ[variable], exist_ok=True)
    topography._data_path = None
    SRTM30.download_tile = staticmethod(recording_download)
    steps = []
    try:
        for number, request in enumerate(sequence):
            cwd = os.path.join(root, "cwd", str(number))
            os.makedirs(cwd)
            os.chdir(cwd)
            before = listing(root)[0]
            del downloads[:]
            error = None
            try:
                SRTM30.elevation(*REQUESTS[request])
            except Exception as e:
                error = e
            after, dirs, stray = listing(root)
            steps.append(dict(request=request, before=before,
                              downloads=list(downloads), after=after,
                              dirs=dirs, stray=stray, error=error))
    finally:
        os.chdir(saved_cwd)
        SRTM30.download_tile = saved_download
        topography._data_path = None
        for v, value in saved_env.items():
            if value is None:
                os.environ.pop(v, None)
            else:
                os.environ[v] = value
        shutil.rmtree(root, ignore_errors=True)
    return steps


def check_step(step):
    """All tiles are in one directory; a tile is downloaded iff the request
    needs it and it was absent before the request, once; nothing disappears
    from the cache directory."""
    needed = set(tiles_intersecting(*REQUESTS[step["request"]]))
    before = set(step["before"])
    want = sorted(needed - before)
    got = step["downloads"]
    info = "request %s, present before: %s" % (step["request"],
                                               step["before"])
    if len(step["dirs"]) > 1:
        return ("cache/several-cache-directories", "one directory",
                step["dirs"], info + "; downloaded: %s" % got)
    if any(t in before for t in got):
        return ("cache/downloaded-although-present", want, got, info)
    if len(set(got)) < len(got):
        return ("cache/downloaded-twice", want, got, info)
    if set(got) - needed:
        return ("cache/unneeded-tile-downloaded", want, got, info)
    if step["error"] is not None:
        return ("exception/cache-elevation/" + type(step["error"]).__name__,
                want, repr(step["error"]), info)
    if sorted(got) != want:
        return ("cache/needed-tile-not-downloaded", want, got, info)
    if step["after"] != sorted(before | set(got)) or step["stray"]:
        return ("cache/directory-content-wrong", sorted(before | set(got)),
                step["after"] + step["stray"], info)
    return None


def signature(step):
    return (step["before"], step["downloads"], step["after"], step["dirs"],
            step["stray"], repr(step["error"]))


def run_shard(shard):
    _, env, initial, first = shard
    res = driver.ShardResult()
    seen = {}
    for rest in itertools.product(REQUESTS, repeat=DEPTH - 1):
        sequence = (first,) + rest
        steps = run_history(env, initial, sequence)
        res.count("cache_requests_executed", len(steps))
        for depth, step in enumerate(steps, 1):
            prefix = sequence[:depth]
            if prefix in seen:
                if seen[prefix] != signature(step):
                    res.error("NONDETERMINISM in history %r %r %r"
                              % (env, initial, prefix))
                continue
            seen[prefix] = signature(step)
            needed = tiles_intersecting(*REQUESTS[step["request"]])
            res.case(nontrivial=bool(set(needed) & set(step["before"])))
            res.count("cache_cases")
            res.add("cache_states", (env,) + tuple(step["before"]))
            bad = check_step(step)
            if bad is not None:
                res.violation(bad[0], dict(part="cache", env=env,
                                           initial=initial, sequence=prefix),
                              *bad[1:])
    res.sample(dict(part="cache", env=env, initial=initial, sequence=sequence,
                    downloads=[s["downloads"] for s in steps]))
    return res


def replay(case):
    steps = run_history(case["env"], tuple(case["initial"]),
                        tuple(case["sequence"]))
    bad = check_step(steps[-1])
    if bad is None:
        return dict(ok=True)
    return dict(ok=False, key=bad[0], expected=bad[1], observed=bad[2],
                msg=bad[3])
