"""C08, part "planck": Planck / Rayleigh-Jeans radiances, both brightness
temperature inversions and the wavelength / wavenumber forms over a lattice of
frequencies f and x = h f / (k T), x in [1e-6, 600], called with every
scalar / array combination of (f, T) listed in MODES. The shards "reps" feed
whole-number frequencies, wavenumbers, wavelengths and temperatures in every
other representation of c08_reps that holds them exactly, one argument at a
time and both together, in the forms of REP_LAYOUTS.

Reference: B = 2 h f^3 / c^2 / expm1(x) in numpy.longdouble (64-bit mantissa),
which has no cancellation at small x. Tolerances are conditioning-based: a
double-precision evaluation of any algebraic form of the Planck law (with
exp(x) - 1 or with expm1) has a relative error of a few eps * (1 + x + 1/x).
"""
import numpy as np

from checks import c08_reps as reps
from checks.c08_units import frequencies

LD = np.longdouble
EPS = reps.EPS64
K = 16                       # rounding steps allowed per evaluated formula
X_MIN, X_MAX = 1e-6, 600.0
T_MIN, T_MAX = 2.0, 1e4
OUTER_T = (2.0, 10.0, 77.0, 300.0, 1000.0, 5800.0, 1e4)
REP_SCALAR_T = {"quick": (2.0, 300.0, 1e4), "thorough": OUTER_T}
# whole frequencies [Hz]; the powers of two are exact in single precision
WHOLE_F = sorted({m * 10 ** e for e in range(6, 13) for m in (100, 250, 999)}
                 | {2 ** k for k in (27, 30, 33, 36, 40, 43, 46, 49)}
                 | {10 ** 15})
WHOLE_N = (1, 100, 500, 1000, 1500, 10 ** 5, 10 ** 6, 3 * 10 ** 6)   # [1/m]
EXACT_L = (2, 1, 2.0 ** -4, 2.0 ** -10, 2.0 ** -14, 2.0 ** -17, 2.0 ** -20)
# (representation of f, of T): None = float64 baseline
REP_PAIRS = [(r, None) for r in ("int", "int64", "int32", "float32")] + \
    [(None, r) for r in ("int64", "int32", "int16", "float32")] + \
    [(r, r) for r in ("int", "int64", "int32", "float32")]
# form of (f, T) in the call
REP_LAYOUTS = {"scalar": (None, None), "f-array": ("row", None),
               "column": (None, "row"), "outer": ("col", "row")}
SPECTRAL = {"f": "planck", "n": "planck_wavenumber", "l": "planck_wavelength"}


def consts():
    from typhon import constants
    return (LD(constants.planck), LD(constants.boltzmann),
            LD(constants.speed_of_light))


def x_of(f, T):
    h, k, _ = consts()
    return h * LD(f) / (k * LD(T))


def in_domain(f, T):
    return (1e8 <= f <= 1e15 and T_MIN <= T <= T_MAX
            and X_MIN <= x_of(f, T) <= X_MAX)


def x_lattice(tier):
    if tier == "quick":
        return [10.0 ** e for e in range(-6, 3)] + [X_MAX]
    steps = [10.0 ** (e / 32) for e in range(-192, 90)]     # .. 10^2.78
    return [x for x in steps if x < X_MAX] + [X_MAX]


def temperature(f, x):
    """T (double) with h f / (k T) = x up to rounding, moved by single ulps so
    that the realised x stays inside [X_MIN, X_MAX]; None if T is outside the
    stated temperature range."""
    h, k, _ = consts()
    T = float(h * LD(f) / (k * LD(x)))
    while x_of(f, T) < X_MIN:
        T = float(np.nextafter(T, 0.0))
    while x_of(f, T) > X_MAX:
        T = float(np.nextafter(T, np.inf))
    return T if T_MIN <= T <= T_MAX else None


def lattice(tier):
    """{f: [T ascending]}"""
    out = {}
    for f in frequencies(tier):
        Ts = sorted({T for T in (temperature(f, x) for x in x_lattice(tier))
                     if T is not None})
        if Ts:
            out[f] = Ts
    return out


MODES = ("float", "float64", "int-T", "column", "row", "outer", "f-array",
         "f-array-int-T")


def shards(tier):
    return [("planck", tier, mode) for mode in MODES] + \
        [("planck", tier, "reps", var) for var in SPECTRAL]


def frequency(var, v):
    """Frequency [Hz] of the value v of a spectral variable."""
    c = float(consts()[2])
    return {"f": float(v), "n": c * v, "l": c / v}[var]


def rep_cases(tier, var):
    values = {"f": WHOLE_F, "n": WHOLE_N, "l": EXACT_L}[var]
    for layout, (vform, tform) in REP_LAYOUTS.items():
        for vrep, trep in REP_PAIRS:
            if (vrep == "int" and vform) or (trep == "int" and tform):
                continue            # a list of Python ints is an int64 array
            held = [v for v in values if reps.representable(v, vrep)]
            for vs in ([held] if vform else [[v] for v in held]):
                for Ts in ([list(OUTER_T)] if tform else
                           [[T] for T in REP_SCALAR_T[tier]]):
                    if any(in_domain(frequency(var, v), T)
                           for v in vs for T in Ts):
                        yield dict(part="planck", mode="reps", var=var,
                                   layout=layout, reps=[vrep, trep], f=vs,
                                   T=Ts)


def cases(shard):
    _, tier, mode = shard[:3]
    if mode == "reps":
        yield from rep_cases(tier, shard[3])
        return
    lat = lattice(tier)
    if mode in ("float", "float64"):
        for f, Ts in lat.items():
            for T in Ts:
                yield dict(part="planck", mode=mode, f=[f], T=[T])
    elif mode == "int-T":            # Python int temperature
        for f in lat:
            for T in OUTER_T:
                if in_domain(f, T):
                    yield dict(part="planck", mode=mode, f=[f], T=[T])
    elif mode in ("f-array", "f-array-int-T"):
        # the whole (descending) frequency grid at one scalar temperature
        for T in OUTER_T:
            yield dict(part="planck", mode=mode, f=list(lat)[::-1], T=[T])
    elif mode == "column":           # scalar f, all its temperatures
        for f, Ts in lat.items():
            yield dict(part="planck", mode=mode, f=[f], T=Ts)
    elif mode == "row":              # f and T arrays of equal shape
        for x in x_lattice(tier):
            pts = [(f, temperature(f, x)) for f in lat]
            pts = [p for p in pts if p[1] is not None]
            if pts:
                yield dict(part="planck", mode=mode, f=[p[0] for p in pts],
                           T=[p[1] for p in pts])
    else:                            # f[:, None] x T[None, :]
        fs = list(lat)
        for i in range(0, len(fs), 6):
            yield dict(part="planck", mode=mode, f=fs[i:i + 6],
                       T=list(OUTER_T))


def points(case):
    f, T = case["f"], case["T"]
    if case["mode"] == "row":
        pts = list(zip(f, T))
    else:
        pts = [(a, b) for a in f for b in T]
    return pts


def nontrivial(case):
    """contains a lattice point in a regime where exp(x) - 1 / log(1 + y)
    cancel (x <= 1e-3) or where exp(x) is huge (x >= 100)"""
    var = case.get("var", "f")
    xs = [x_of(frequency(var, v), T) for v, T in points(case)
          if in_domain(frequency(var, v), T)]
    return any(x <= 1e-3 or x >= 100 for x in xs)


def as_int(T):
    assert T == int(T)
    return int(T)


def represented(values, rep, form):
    if form is None:
        return reps.scalar(values[0], rep)
    arr = reps.array(values, rep)
    return arr if form == "row" else arr[:, None]


def arguments(case):
    mode = case["mode"]
    if mode == "reps":
        return tuple(represented(case[name], rep, form) for name, rep, form
                     in zip("fT", case["reps"], REP_LAYOUTS[case["layout"]]))
    if mode == "float":
        return float(case["f"][0]), float(case["T"][0])
    if mode == "float64":
        return np.float64(case["f"][0]), np.float64(case["T"][0])
    if mode == "int-T":
        return float(case["f"][0]), as_int(case["T"][0])
    f, T = np.array(case["f"], dtype=float), np.array(case["T"], dtype=float)
    if mode == "f-array":
        return f, float(T[0])
    if mode == "f-array-int-T":
        return f, as_int(T[0])
    if mode == "column":
        return float(f[0]), T
    if mode == "row":
        return f, T
    return f[:, None], T[None, :]


def evaluate(case):
    """Calls typhon; -> dict name -> flat float array over points(case), or
    (key, ...) violation for an exception / wrong shape."""
    from typhon import constants
    from typhon.physics import em
    f, T = arguments(case)
    c = constants.speed_of_light
    # c / f and f / c are the harness' own arithmetic: in double precision
    wide = np.asarray(f, dtype=float)[()] if case["mode"] == "reps" else f
    shape = np.broadcast(f, T).shape
    out = {}
    with np.errstate(all="ignore"):
        calls = [
            ("planck", lambda: em.planck(f, T)),
            ("rayleighjeans", lambda: em.rayleighjeans(f, T)),
            ("radiance2planckTb",
             lambda: em.radiance2planckTb(f, out["planck"])),
            ("radiance2rayleighjeansTb",
             lambda: em.radiance2rayleighjeansTb(f, out["rayleighjeans"])),
            ("planck_wavelength", lambda: em.planck_wavelength(c / wide, T)),
            ("planck_wavenumber", lambda: em.planck_wavenumber(wide / c, T)),
        ]
        for name, call in calls:
            try:
                out[name] = call()
            except Exception as e:
                return ("exception/%s/%s" % (name, type(e).__name__), None,
                        repr(e)[:200], "")
            if np.shape(out[name]) != shape:
                return ("planck/shape", list(shape),
                        list(np.shape(out[name])), name)
    return {n: np.asarray(v, dtype=float).ravel() for n, v in out.items()}


def judge(f, T, r):
    """All statement clauses at one lattice point; r: name -> double. A
    clause that relates two results is only judged when the results it starts
    from are right themselves."""
    h, k, c = consts()
    fl, Tl = LD(f), LD(T)
    x = h * fl / (k * Tl)
    B = 2 * h * fl ** 3 / c ** 2 / np.expm1(x)
    RJ = 2 * fl ** 2 * k * Tl / c ** 2
    tol = LD(K * EPS) * (1 + x + 1 / x)
    where = "f=%r T=%r x=%.6g" % (f, T, float(x))
    bad = []

    def rel(got, ref):
        return abs(LD(got) - ref) / ref

    got = {n: LD(v) for n, v in r.items()}
    if not (np.isfinite(r["planck"]) and r["planck"] > 0):
        bad.append(("planck/not-positive", "> 0", r["planck"], where))
        return bad
    planck_ok = bool(rel(r["planck"], B) <= tol)
    rj_ok = bool(rel(r["rayleighjeans"], RJ) <= K * EPS)
    if not planck_ok:
        bad.append(("planck/value", float(B), r["planck"], where))
    if not rj_ok:
        bad.append(("rayleighjeans/value", float(RJ), r["rayleighjeans"],
                    where))
    # 1 - x/2 < B/RJ = x / expm1(x) < 1 for every x > 0: "never exceeds" and
    # "approaches as x -> 0" in one two-sided bound
    deficit = 1 - got["planck"] / got["rayleighjeans"]
    if planck_ok and rj_ok and not deficit >= -tol:
        bad.append(("planck/exceeds-rayleighjeans", "<= %r"
                    % r["rayleighjeans"], r["planck"], where))
    if planck_ok and rj_ok and not deficit <= x / 2 + tol:
        bad.append(("planck/rayleighjeans-limit", "1 - B/RJ <= x/2",
                    float(deficit), where))
    # T = (h f / k) / log1p(1 / y): the error of B enters with factor
    # (1 - exp(-x)) / x <= 1, the logarithm adds eps / x
    tol_tb = LD(K * EPS) * (1 + 1 / x)
    if planck_ok and not rel(r["radiance2planckTb"], Tl) <= tol_tb:
        bad.append(("planckTb/not-inverse-of-planck", T,
                    r["radiance2planckTb"], where))
    if rj_ok and not rel(r["radiance2rayleighjeansTb"], Tl) <= K * EPS:
        bad.append(("rayleighjeansTb/not-inverse-of-rayleighjeans", T,
                    r["radiance2rayleighjeansTb"], where))
    # both sides of the stated identities carry their own rounding
    if not planck_ok:
        return bad
    if not rel(r["planck_wavelength"], got["planck"] * fl ** 2 / c) <= 2 * tol:
        bad.append(("planck_wavelength/not-planck-times-f2-over-c",
                    float(got["planck"] * fl ** 2 / c),
                    r["planck_wavelength"], where))
    if not rel(r["planck_wavenumber"], got["planck"] * c) <= 2 * tol:
        bad.append(("planck_wavenumber/not-c-times-planck",
                    float(got["planck"] * c), r["planck_wavenumber"], where))
    return bad


def judge_form(var, v, T, got):
    """planck_wavenumber / planck_wavelength called directly at v: the stated
    image c B resp. B f^2 / c of the reference B at f = c v resp. c / v."""
    h, k, c = consts()
    fl = c * LD(v) if var == "n" else c / LD(v)
    x = h * fl / (k * LD(T))
    B = 2 * h * fl ** 3 / c ** 2 / np.expm1(x)
    ref = B * c if var == "n" else B * fl ** 2 / c
    if np.isfinite(got) and abs(LD(got) - ref) <= \
            LD(K * EPS) * (1 + x + 1 / x) * ref:
        return []
    return [(SPECTRAL[var] + "/value", float(ref), got,
             "%s=%r T=%r x=%.6g" % (var, v, T, float(x)))]


def check_form(case):
    from typhon.physics import em
    var, name = case["var"], SPECTRAL[case["var"]]
    v, T = arguments(case)
    try:
        with np.errstate(all="ignore"):
            out = getattr(em, name)(v, T)
    except Exception as e:
        return [("exception/%s/%s" % (name, type(e).__name__), None,
                 repr(e)[:200], "")], 0
    shape = np.broadcast(v, T).shape
    if np.shape(out) != shape:
        return [("planck/shape", list(shape), list(np.shape(out)), name)], 0
    out = np.asarray(out, dtype=float).ravel()
    bad, judged = {}, 0
    for (v, T), got in zip(points(case), out):
        if in_domain(frequency(var, v), T):
            judged += 1
            for b in judge_form(var, v, T, float(got)):
                bad.setdefault(b[0], b)
    return list(bad.values()), judged


def check(case):
    case_reps = case.get("reps", ())
    if case.get("var", "f") != "f":
        bad, judged = check_form(case)
    else:
        bad, judged = check_frequency(case)
    return reps.tagged(bad, *case_reps), judged


def check_frequency(case):
    r = evaluate(case)
    if isinstance(r, tuple):
        return [r], 0
    pts = points(case)
    judged = [i for i, (f, T) in enumerate(pts) if in_domain(f, T)]
    bad = {}
    for i in judged:
        f, T = pts[i]
        for v in judge(f, T, {n: float(a[i]) for n, a in r.items()}):
            bad.setdefault(v[0], v)
    by_f = {}
    for i in judged:
        by_f.setdefault(pts[i][0], []).append((pts[i][1], r["planck"][i]))
    for f, col in by_f.items():
        col.sort()
        for (T0, B0), (T1, B1) in zip(col, col[1:]):
            if not B1 > B0:
                bad.setdefault("planck/not-increasing-in-T", (
                    "planck/not-increasing-in-T", "B(%r) < B(%r)" % (T0, T1),
                    [float(B0), float(B1)], "f=%r" % f))
    return list(bad.values()), len(judged)
