"""C09, part 2: saturation pressures, RH <-> VMR and the moist lapse rate
(driven from c09_humidity.py). Every generator yields violations as
(key, case, expected, observed, msg)."""
import itertools
import math

import numpy as np

from typhon import constants

from checks.c09_util import (DTYPES, PER_VALUE, PYTHON, U, U32, atmosphere,
                              call, evaluate, failures, representable, unit)

TT = constants.triple_point_water
TB = TT - 23.0        # lower branch temperature (exact, see lattice)
SAT = ("e_eq_ice_mk", "e_eq_water_mk", "e_eq_mixed_mk")


def precision(dtype):
    """Unit round-off numpy evaluates a saturation pressure with: float32
    for float32 and (log, exp, tanh of) int16 arguments."""
    return U32 if dtype in ("float32", "int16") else U


def noise(dtype):
    """Rounding noise of a saturation pressure exp(sum of terms): at most 20
    roundings of terms of magnitude <= 6763.22/100 in the exponent, each an
    absolute error of the exponent and hence a relative error of the
    result."""
    return 20 * 68 * precision(dtype)


# Lattice neighbours are either <= 4 ulp apart (relations hold up to noise) or
# >= COARSE kelvin apart (the true change, > 1e-6 relative, dwarfs the noise).
COARSE = 1e-4
# Bounds for d ln e_s / dT of both fits on 100..400 K (true values: 0.036 / K
# at 400 K; <= 0.13 / K above 250 K).
MIN_SLOPE = 0.03
LIPSCHITZ = 0.2


def near(t, tb):
    return abs(t - tb) <= 4 * math.ulp(tb)


def lattice(per_kelvin):
    """100..400 K in steps of 1/per_kelvin (a power of two: exact) plus both
    branch temperatures with their +-1 and +-2 ulp neighbours."""
    assert per_kelvin & (per_kelvin - 1) == 0
    assert TT - TB == 23.0 and TB + 23.0 == TT     # TT - 23 is exact
    pts = {100.0 + k / per_kelvin for k in range(300 * per_kelvin + 1)}
    for tb in (TT, TB):
        pts.add(tb)
        for towards in (0.0, 1000.0):
            t = tb
            for _ in range(2):
                t = math.nextafter(t, towards)
                pts.add(t)
    pts = sorted(pts)
    for a, b in zip(pts, pts[1:]):
        assert b - a <= 4 * math.ulp(b) or b - a >= COARSE, (a, b)
    return pts


def in_blend(t):
    return TB - 4 * math.ulp(TB) <= t <= TT + 4 * math.ulp(TT)


REGIMES = {"all": lambda t: True, "ice": lambda t: t < TB,
           "blend": lambda t: TB <= t <= TT, "liquid": lambda t: t > TT}


def sublattice(per_kelvin, regime, dtype="float64", step=None):
    """The lattice temperatures of the regime that the dtype holds exactly;
    step: only the multiples of step kelvin and what is less than 2 K from a
    branch temperature."""
    pts = [t for t in representable(lattice(per_kelvin), dtype)
           if not step or t % step == 0 or min(abs(t - TT), abs(t - TB)) < 2]
    for a, b in zip(pts, pts[1:]):
        # no pair may sit in the don't-care band of the noise
        assert b - a <= 4 * math.ulp(b) or \
            (b - a) * MIN_SLOPE > 4 * noise(dtype), (a, b)
    return [t for t in pts if REGIMES[regime](t)]


def regimes(container):
    """An array container holds the whole lattice and, in further calls, only
    the part of it within one branch of the mixed-phase formula; for one
    value per call that would repeat the same calls."""
    return ("all",) if container in PER_VALUE else tuple(REGIMES)


def lattice_violations(container, per_kelvin, dtype="float64", step=None):
    """The relations within the array(s) of each regime; every element of a
    part must get the value it got within the whole lattice, and the value
    the same temperature gets as a float64 array element (to 2 noise: numpy
    may evaluate exp differently for other array lengths and dtypes). Yields
    (regime, temps, violation)."""
    whole = {}
    float64 = {}
    if dtype != "float64":
        temps = sublattice(per_kelvin, "all", dtype, step)
        for name in SAT:
            float64.update(zip(((name, t) for t in temps), evaluate(
                getattr(atmosphere(), name), "1d", temps, real=True)))
    for regime in regimes(container):
        temps = sublattice(per_kelvin, regime, dtype, step)
        out = sat_outcomes(container, temps, dtype)
        for bad in relations(container, temps, out, dtype):
            yield regime, temps, bad
        for name in SAT:
            for i, (t, e) in enumerate(zip(temps, out[name])):
                for ref, what, msg in (
                        (whole.setdefault((name, t), e),
                         "other-elements", "array of the %s temperatures "
                         "only" % regime),
                        (float64.get((name, t)), "representation",
                         "%s versus float64 array" % dtype)):
                    if isinstance(e, float) and isinstance(ref, float) and \
                            not abs(e - ref) <= 2 * noise(dtype) * ref:
                        yield regime, temps, (
                            "sat/%s/depends-on-%s" % (name, what), [i], ref,
                            e, msg)


def sat_outcomes(container, temps, dtype):
    return {name: evaluate(getattr(atmosphere(), name), container, temps,
                           dtype, real=True) for name in SAT}


def sat_violations(container, temps, dtype="float64"):
    """All relations of the statement on the sorted temperatures `temps`,
    evaluated in one container. case = indices into temps (None: the whole
    array call failed)."""
    return relations(container, temps, sat_outcomes(container, temps, dtype),
                     dtype)


def relations(container, temps, out, dtype):
    eps = noise(dtype)
    # mixed = ice | liquid: the same formula on the same number - to 4 U in
    # float64; where numpy picks float32 for some steps only, to the noise
    same = 4 * U if precision(dtype) == U else 2 * eps
    for name in SAT:
        for i, key, obs in failures(name, out[name]):
            yield (key, [i] if container in PER_VALUE else None,
                   "a positive pressure", obs, "")
    ice, liq, mix = (out[name] for name in SAT)

    def ok(*vals):
        return all(isinstance(v, float) for v in vals)

    for i, t in enumerate(temps):
        for name, e in (("e_eq_ice_mk", ice), ("e_eq_water_mk", liq)):
            if not ok(e[i]):
                continue
            if not 0 < e[i] < math.inf:
                yield ("sat/%s/not-positive" % name, [i], "> 0", e[i], "")
            if i and ok(e[i - 1]):
                if t - temps[i - 1] >= COARSE:
                    if not e[i] > e[i - 1]:
                        yield ("sat/%s/not-increasing" % name, [i - 1, i],
                               "> %r" % e[i - 1], e[i], "")
                elif not e[i] >= e[i - 1] * (1 - 2 * eps):
                    yield ("sat/%s/decreasing-across-ulp" % name,
                           [i - 1, i], ">= %r - noise" % e[i - 1], e[i], "")
        if ok(ice[i], liq[i]):
            if near(t, TT) and not abs(ice[i] - liq[i]) <= 1e-6 * liq[i]:
                yield ("sat/triple-point-mismatch", [i],
                       "ice = liquid to 1e-6", [ice[i], liq[i]], "")
            elif t < TT and not ice[i] <= liq[i] * (1 + 1e-6):
                yield ("sat/ice-above-liquid", [i], "ice <= liquid",
                       [ice[i], liq[i]], "")
        if not ok(ice[i], liq[i], mix[i]):
            continue
        if t < TB:
            if not abs(mix[i] - ice[i]) <= same * ice[i]:
                yield ("sat/mixed/not-ice-below-lower-branch", [i], ice[i],
                       mix[i], "")
        elif t > TT:
            if not abs(mix[i] - liq[i]) <= same * liq[i]:
                yield ("sat/mixed/not-liquid-above-triple-point", [i],
                       liq[i], mix[i], "")
        else:
            lo, hi = sorted((ice[i], liq[i]))
            if not lo * (1 - 2 * same) <= mix[i] <= hi * (1 + 2 * same):
                yield ("sat/mixed/outside-ice-liquid", [i], [lo, hi], mix[i],
                       "")
        if i and ok(mix[i - 1]) and in_blend(temps[i - 1]) and in_blend(t):
            bound = (2 * eps + LIPSCHITZ * (t - temps[i - 1])) * mix[i]
            if not abs(mix[i] - mix[i - 1]) <= bound:
                yield ("sat/mixed/jump", [i - 1, i],
                       "%r +- %.3g" % (mix[i - 1], bound), mix[i], "")


# -- rejection of non-positive temperatures ---------------------------------

REJECT = {
    "int 0": 0, "int -1": -1, "0.0": 0.0, "-0.0": -0.0, "-273.15": -273.15,
    "float64 0": np.float64(0.0), "0-d 0": np.array(0.0),
    "0-d -1": np.array(-1.0), "1-d with 0": np.array([300.0, 0.0, 250.0]),
    "1-d with -5": np.array([-5.0, 300.0]),
    "2-d with 0": np.array([[300.0, 250.0], [0.0, 200.0]]),
    "1-d all 0": np.zeros(3),
    "int64 0-d 0": np.array(0), "int16 scalar -1": np.int16(-1),
    "float32 scalar 0": np.float32(0.0),
    "int64 1-d with 0": np.array([300, 0, 250]),
    "int32 1-d with -5": np.array([-5, 300], dtype=np.int32),
    "int16 2-d with 0": np.array([[300, 250], [0, 200]], dtype=np.int16),
    "float32 1-d with 0": np.array([300.0, 0.0, 250.0], dtype=np.float32),
    "float32 1-d with -0.5": np.array([260.0, -0.5], dtype=np.float32),
}


def reject_violation(name, label):
    try:
        with np.errstate(all="ignore"):
            out = getattr(atmosphere(), name)(REJECT[label])
    except Exception:
        return None
    return ("sat/%s/non-positive-temperature-accepted" % name,
            dict(part="reject", func=name, arg=label), "an exception",
            repr(out)[:200], "")


# -- lattices for RH <-> VMR and the lapse rate ------------------------------

def coarse_temperatures(step):
    pts = {float(t) for t in range(100, 401, step)}
    for tb in (TT, TB):
        pts |= {tb, math.nextafter(tb, 0.0), math.nextafter(tb, 1000.0)}
    return sorted(pts)


def saturation_functions():
    """Name -> e_eq argument. The last three are harness functions (the
    statement says: any saturation function)."""
    atm = atmosphere()
    return {
        "default": None, "water": atm.e_eq_water_mk, "ice": atm.e_eq_ice_mk,
        "mixed": atm.e_eq_mixed_mk,
        "constant": lambda T: 1000.0 + 0.0 * T,
        "linear": lambda T: 2.5 * T,
        "magnus": lambda T: 610.94 * np.exp(17.625 * (T - 273.15)
                                            / (T - 30.11)),
    }


def representations(nargs):
    """The dtypes of the arguments of one call: all float64; each other
    dtype for one argument at a time and for all arguments together."""
    yield ("float64",) * nargs
    for dtype in DTYPES[1:]:
        for j in range(nargs):
            yield tuple(dtype if k == j else "float64" for k in range(nargs))
        yield (dtype,) * nargs


def represented(container, axes, form="keyword"):
    """(axes, dtypes) of every representation of the lattice: each axis keeps
    the values its dtype holds exactly; an axis without any (pressures as
    int16) stays float64, and what then coincides with another combination
    is dropped. Scalars differ from float64 only all together; how e_eq is
    handed over is varied for float64 only."""
    for dtypes in representations(len(axes)):
        if len(set(dtypes)) > 1 and container == "float" or \
                dtypes[0] != "float64" and form != "keyword":
            continue
        kept = [representable(a, d) for a, d in zip(axes, dtypes)]
        actual = tuple(d if k else "float64" for k, d in zip(kept, dtypes))
        if actual == dtypes or actual not in representations(len(axes)):
            yield [k or a for k, a in zip(kept, axes)], actual


def keyed(key, dtypes):
    """Violations that need another representation than float64 name it."""
    other = sorted(set(dtypes) - {"float64"})
    return key + "/" + other[0] if other else key


def grids(container, axes, dtypes):
    """The lattice axes as call arguments: scalars one point at a time
    (Python numbers for float64 and int64, else numpy scalars), or one
    broadcasting array call (axis j varies along dimension j, so the
    ravelled result is in itertools.product order). Yields (arguments,
    points)."""
    points = list(itertools.product(*axes))
    if container == "float":
        scalar = [PYTHON.get(d, np.dtype(d).type) for d in dtypes]
        for point in points:
            yield [s(v) for s, v in zip(scalar, point)], [point]
    else:
        n = len(axes)
        yield [np.array(a, dtype=float).astype(d).reshape(
            [-1 if k == j else 1 for k in range(n)])
            for j, (a, d) in enumerate(zip(axes, dtypes))], points


# -- RH <-> VMR --------------------------------------------------------------

# How the saturation function is handed over: (args, kwargs) after v, p, T.
E_EQ_FORMS = {"positional": lambda e_eq: ((e_eq,), {}),
              "keyword": lambda e_eq: ((), {"e_eq": e_eq})}
RH_FUNCS = {"rh->vmr->rh": ("relative_humidity2vmr", "vmr2relative_humidity"),
            "vmr->rh->vmr": ("vmr2relative_humidity", "relative_humidity2vmr")}


def rh_violations(ename, container, direction, form, values, ps, ts,
                  dtypes=("float64",) * 3):
    """Round trip of every value at every (p, T): two roundings per
    conversion, so the value must come back to 8 unit round-offs relative."""
    atm = atmosphere()
    first, second = (getattr(atm, n) for n in RH_FUNCS[direction])
    args, kwargs = E_EQ_FORMS[form](saturation_functions()[ename])

    def round_trip(v, p, t):
        return second(first(v, p, t, *args, **kwargs), p, t, *args, **kwargs)

    for arrays, points in grids(container, (values, ps, ts), dtypes):
        back = call(round_trip, *arrays)
        for i, key, obs in failures(direction, back):
            yield (key, rh_case(ename, container, direction, form, points[i],
                                dtypes), "a number", obs, "")
        for point, got in zip(points, back):
            if isinstance(got, float) and \
                    not abs(got - point[0]) <= 8 * unit(*dtypes) * point[0]:
                yield (keyed("rh/not-inverse/" + direction, dtypes),
                       rh_case(ename, container, direction, form, point,
                               dtypes), point[0], got, "")


def rh_case(ename, container, direction, form, point, dtypes):
    return dict(part="rh", e_eq=ename, container=container,
                direction=direction, form=form, value=point[0], p=point[1],
                T=point[2], dtypes=list(dtypes))


# -- moist lapse rate --------------------------------------------------------

def lapse_domain(ename, ps, ts):
    """{(p, T): (w_s, b)} for the lattice points at which the saturation VMR
    e_s/p is a mixing ratio in [0, 1) (elsewhere no moist adiabat exists).
    e_s comes from the saturation function handed to typhon; b = Lv^2 /
    (cp Rv T^2) is the group that scales the moist correction."""
    e_eq = saturation_functions()[ename] or atmosphere().e_eq_water_mk
    r = constants.molar_mass_water / constants.molar_mass_dry_air
    # a failure is reported by the 'sat' part
    e_s = dict(zip(ts, call(e_eq, np.array(ts, dtype=float))))
    out = {}
    for p, t in itertools.product(ps, ts):
        e = e_s[t]
        if not isinstance(e, float):
            continue
        x = e / p
        if 0 <= x < 1:
            b = constants.heat_of_vaporization ** 2 / (
                constants.isobaric_mass_heat_capacity
                * constants.gas_constant_water_vapor * t * t)
            out[(p, t)] = (r * x / (1 - x), b)
    return out


def lapse_violations(ename, container, ps, ts, dtypes=("float64",) * 2):
    """0 < lapse <= g/cp, and 1 - lapse / (g/cp) <= 2 b w_s (Bohren &
    Albrecht give (b - a) w / (1 + b w) <= b w; the factor 2 leaves room for
    other formulations)."""
    u = unit(*dtypes)
    atm = atmosphere()
    e_eq = saturation_functions()[ename]
    dry = constants.earth_standard_gravity / \
        constants.isobaric_mass_heat_capacity
    domain = lapse_domain(ename, ps, ts)
    for args, points in grids(container, (ps, ts), dtypes):
        got = call(lambda p, t: atm.moist_lapse_rate(p, t, e_eq), *args)
        for i, key, obs in failures("moist_lapse_rate", got):
            yield (key, lapse_case(ename, container, points[i], dtypes),
                   "a number", obs, "")
        for point, g in zip(points, got):
            if point not in domain or not isinstance(g, float):
                continue
            w, b = domain[point]
            case = lapse_case(ename, container, point, dtypes)
            if not 0 < g <= dry * (1 + 4 * u):
                yield (keyed("lapse/outside-0-dry", dtypes), case,
                       "(0, %r]" % dry, g, "")
            elif not 1 - g / dry <= 2 * b * w + 8 * u:
                yield (keyed("lapse/not-approaching-dry", dtypes), case,
                       "1 - lapse/dry <= %.3g" % (2 * b * w), 1 - g / dry,
                       "w_s = %.3g" % w)


def lapse_case(ename, container, point, dtypes):
    return dict(part="lapse", e_eq=ename, container=container, p=point[0],
                T=point[1], dtypes=list(dtypes))
