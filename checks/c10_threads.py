"""C10, part "threads": line-level interleavings of the real worker threads.

mc/pool.py runs a task body atomically at its finish event ("task bodies are
independent of each other").  That is an assumption about the code, and it is
exactly what a scratch variable hoisted to the FileSet object, a shared
handler option or a check-then-act on a shared dictionary would break.  Here
the tasks of a thread pool are real threads and the main thread is one more
thread of the same cooperative scheduler (mc/threads.py): every line event in
a typhon source file is a scheduling point; the explorer enumerates every
schedule with at most d preemptions (blocking and thread exit are free).

Shard descriptors: ("threads", tier, kind, cfg, bound, part, nparts).
"""
import os
import warnings

from mc import driver
driver.setup_env()
from mc import explorer, threads
from checks import c10_parallel as cp

PROP = "C10"


def typhon_dir():
    import typhon
    return os.path.dirname(os.path.abspath(typhon.__file__)) + os.sep


# ----------------------------------------------------------------- configs

def configs(tier):
    """(kind, cfg, bound).  kind "ops": a c10_parallel configuration (thread
    workers) judged by c10_parallel's oracle; kind "output": map(...,
    output=<FileSet>) judged by the files that must exist afterwards.
    bound = number of preemptions; quick 2 / 1, thorough 3 / 2 / 1."""
    q = tier == "quick"
    deep, mid, wide = (2, 1, 1) if q else (3, 2, 1)
    out = []
    for op in ("map", "imap", "collect", "icollect"):
        ri = op in ("map", "imap")
        # two tasks racing from the first line on: the deepest bound
        out.append(("ops", cp.cfg(op, 2, 2, "thread", on_content=True,
                                  return_info=ri, pass_info=ri),
                    deep if op == "map" else mid))
        # three files: about 640 schedules with one preemption, 2.5e5 with
        # two (thorough, map only)
        out.append(("ops", cp.cfg(op, 3, 2, "thread", on_content=True,
                                  return_info=ri, pass_info=ri),
                    mid if op == "map" else wide))
        out.append(("ops", cp.cfg(op, 3, 3, "thread", on_content=True,
                                  return_info=ri, pass_info=ri), wide))
        # an unreadable file turned into a warning next to readable ones
        for fail in ((0,), (1,)):
            if q and (fail == (0,)) != (op in ("map", "imap")):
                continue
            out.append(("ops", cp.cfg(op, 3, 2, "thread", on_content=True,
                                      fail=fail, e2w=True, return_info=True),
                        wide))
    for op in ("map", "imap"):
        # without reading: only FileInfo objects travel
        out.append(("ops", cp.cfg(op, 3, 2, "thread", on_content=False,
                                  return_info=True), wide))
        out.append(("ops", cp.cfg(op, 3, 2, "thread", func="raise", bad=1,
                                  on_content=True), wide))
    if not q:
        # a bundle is read through a nested pool inside a worker thread
        # (about 770 scheduling points per execution)
        out.append(("ops", cp.cfg("map", 3, 2, "thread", sel="bundled",
                                  bundle=cp.BUNDLED, on_content=True,
                                  return_info=True), 1))
    # the write path (get_filename, makedirs, handler) has about 500
    # scheduling points per execution
    out.append(("output", dict(n=2, workers=2, wtype="thread"), mid))
    # worker processes (map's default when output= is given) share the file
    # system only: pickled copies of the FileSets per task
    out.append(("output", dict(n=2, workers=2, wtype="process"), wide))
    # align: two loader pools (primaries, secondaries) next to the main
    # thread that pairs their results through its cache of secondaries
    for rel in ((((0, (0, 1)), (1, (1,)))), ((0, (0,)), (1, (0, 1)))):
        for nthreads in ((2,) if q else (2, 4)):
            out.append(("align", dict(n=2, s=2, rel=rel, threads=nthreads,
                                      period=None, fault=None, skip=False,
                                      info=True), wide))
    out.append(("align", dict(n=2, s=2, rel=((0, (0, 1)), (1, (1,))),
                              threads=2, period=None, fault=("B", 1),
                              skip=True, info=True), wide))
    # compressed files of one base name in different directories: whatever
    # decompress() derives from the base name alone is shared by two readers
    for op in ("map", "collect"):
        out.append(("gz", dict(n=2, workers=2, op=op), wide))
    if not q:
        out.append(("output", dict(n=3, workers=2, wtype="thread"), 1))
    return out


def shards(tier, seed):
    out = []
    for kind, c, bound in configs(tier):
        nparts = {0: 1, 1: 1, 2: 8 if c["n"] == 2 else 32, 3: 96}[bound]
        if kind == "output" and bound == 2:
            nparts = 96
        for part in range(nparts):
            out.append(("threads", tier, kind, c, bound, part, nparts))
    return out


# ------------------------------------------------------------ output harness

OUT_TEMPLATE = "out/{year}/{month}{day}/{hour}{minute}-{end_hour}{end_minute}.res"


def out_writer(data, file_info, **kw):
    import json
    with open(os.fspath(file_info.path), "w") as f:
        json.dump(data, f)


def out_func(content, info):
    return {"from": content["id"], "info": cp.index_of(info.path)}


def build_output(root, n):
    from typhon.files import FileSet, FileHandler
    fs, files = cp.build(os.path.join(root, "in"), n)
    out = FileSet(os.path.join(root, OUT_TEMPLATE),
                  handler=FileHandler(writer=out_writer), name="c10out")
    return fs, files, out


def listing(root):
    import json
    got = {}
    for d, _, names in os.walk(root):
        for nm in names:
            p = os.path.join(d, nm)
            rel = os.path.relpath(p, root)
            try:
                with open(p) as f:
                    got[rel] = json.load(f)
            except ValueError:
                got[rel] = "unparseable"
    return got


def expected_output(n):
    exp = {}
    for k in range(n):
        t0, t1 = cp.T0 + k * cp.H, cp.T0 + (k + 1) * cp.H
        rel = "%04d/%02d%02d/%02d%02d-%02d%02d.res" % (
            t0.year, t0.month, t0.day, t0.hour, t0.minute, t1.hour,
            t1.minute)
        exp[rel] = {"from": k, "info": k}
    return exp


def execute_output(c, fs, files, out, root):
    import shutil
    shutil.rmtree(os.path.join(root, "out"), ignore_errors=True)
    del cp.READ_LOG[:]
    try:
        r = fs.map(out_func, on_content=True, pass_info=True, output=out,
                   worker_type=c["wtype"], max_workers=c["workers"],
                   start=cp.T0 - cp.H, end=cp.T0 + 30 * cp.H)
        res = ("ok", tuple(r))
    except threads.Deadlock as exc:
        res = ("deadlock", str(exc))
    except Exception as exc:
        cp.reraise_watchdog(exc)
        res = ("exception", type(exc).__name__, str(exc)[:120])
    return res, listing(os.path.join(root, "out")), tuple(sorted(cp.READ_LOG))


def judge_output(c, obs):
    res, got, reads = obs
    if res[0] != "ok":
        return ("threads/output/" + "/".join(res[:2]), "ok", res)
    if res[1] != (True,) * c["n"]:
        return ("threads/output/wrong-results", (True,) * c["n"], res[1])
    exp = expected_output(c["n"])
    if got != exp:
        what = "wrong-content" if set(got) == set(exp) else "wrong-files"
        return ("threads/output/" + what, exp, got)
    if reads != tuple(range(c["n"])):
        return ("threads/output/file-read-twice-or-not", tuple(range(c["n"])),
                reads)
    return None


# ------------------------------------------------ compressed twins harness

GZ_TEMPLATE = "{year}/{month}{day}/{hour}{minute}.dat.gz"


def gz_reader(file_info):
    import json
    with open(os.fspath(file_info.path)) as f:
        return json.load(f)


def build_gz(root, n):
    import datetime
    import gzip
    import json
    from typhon.files import FileSet, FileHandler
    os.makedirs(root, exist_ok=True)
    for k in range(n):
        t = datetime.datetime(2020, 2, 28 + k, 6, 0)
        path = os.path.join(root, t.strftime("%Y/%m%d/%H%M.dat.gz"))
        os.makedirs(os.path.dirname(path), exist_ok=True)
        with gzip.open(path, "wt") as f:
            json.dump({"id": k}, f)
    tmp = os.path.join(root, "tmp")
    os.makedirs(tmp, exist_ok=True)
    return FileSet(os.path.join(root, GZ_TEMPLATE), name="c10gz",
                   handler=FileHandler(reader=gz_reader), temp_dir=tmp), tmp


def gz_func(content, info):
    return (content["id"], os.path.basename(os.path.dirname(info.path)))


def execute_gz(c, fs):
    try:
        if c["op"] == "map":
            r = fs.map(gz_func, on_content=True, pass_info=True,
                       worker_type="thread", max_workers=c["workers"])
            res = ("ok", tuple(r))
        else:
            r = fs.collect(max_workers=c["workers"])
            res = ("ok", tuple(x["id"] for x in r))
    except threads.Deadlock as exc:
        res = ("deadlock", str(exc))
    except Exception as exc:
        cp.reraise_watchdog(exc)
        res = ("exception", type(exc).__name__, str(exc)[:120])
    return res


def judge_gz(c, obs, tmp):
    exp = tuple((k, "02%02d" % (28 + k)) for k in range(c["n"])) \
        if c["op"] == "map" else tuple(range(c["n"]))
    if obs[0] != "ok":
        return ("threads/gz/" + "/".join(obs[:2]), exp, obs)
    if obs[1] != exp:
        return ("threads/gz/wrong-results", exp, obs[1])
    left = sorted(os.listdir(tmp))
    if left:
        return ("threads/gz/temporary-left-behind", [], left)
    return None


# ----------------------------------------------------------------- running

def make_run(kind, c, root):
    from typhon.files import fileset as fsmod
    ty = typhon_dir()
    if kind == "ops":
        fs, files = cp.build(os.path.join(root, "ops%d" % c["n"]), c["n"],
                             c["fs_wtype"])
    elif kind == "gz":
        fs, gztmp = build_gz(os.path.join(root, "gz"), c["n"])
        files = None
    elif kind == "align":
        from checks import c10_align as ca
        fs, B, files, fb = ca.build(os.path.join(root, "al"), c["n"], c["s"],
                                    c["threads"], 0)
    else:
        fs, files, out = build_output(os.path.join(root, "o%d" % c["n"]),
                                      c["n"])

    def run(ctx):
        sched = threads.Scheduler(ctx, lambda fn: fn.startswith(ty))
        saved = (fsmod.ThreadPoolExecutor, fsmod.ProcessPoolExecutor,
                 fsmod.gc)
        fsmod.ThreadPoolExecutor = threads.pool_class(sched, "thread")
        fsmod.ProcessPoolExecutor = threads.pool_class(sched, "process")
        fsmod.gc = cp.NoGC
        restore = sched.install_waiters((fsmod,))
        fs.info_cache.clear()
        r = cp.Run(c, fs, files) if kind == "ops" else None
        sched.start_tracing()
        try:
            if kind == "ops":
                obs = r.execute()
            elif kind == "gz":
                obs = execute_gz(c, fs)
            elif kind == "align":
                B.info_cache.clear()
                obs = ca.execute(fs, B, files, fb, c)
            else:
                obs = execute_output(c, fs, files, out,
                                     os.path.join(root, "o%d" % c["n"]))
        except threads.Deadlock as exc:
            obs = (("deadlock", str(exc)), (), 0)
        finally:
            sched.stop_tracing()
            sched.close()
            restore()
            (fsmod.ThreadPoolExecutor, fsmod.ProcessPoolExecutor,
             fsmod.gc) = saved
        if kind == "ops":
            if obs[0][0] == "exception" and obs[0][1] == "Deadlock":
                obs = (("deadlock", obs[0][2]),) + obs[1:]
            bad = cp.judge(c, obs, None)
            if bad is not None:
                bad = ("threads/" + bad[0],) + tuple(bad[1:])
        elif kind == "gz":
            bad = judge_gz(c, obs, gztmp)
        elif kind == "align":
            bad = ca.judge(c, obs)
            if bad is not None:
                bad = ("threads/" + bad[0],) + tuple(bad[1:])
        else:
            bad = judge_output(c, obs)
        return obs, bad, sched

    return run


def run_shard(shard):
    import gc
    _, tier, kind, c, bound, part, nparts = shard
    res = driver.ShardResult()
    root = driver.fresh_dir("c10t")
    run = make_run(kind, c, root)
    stats = explorer.Stats()
    outcomes, sites, switch_sites = set(), set(), set()
    maxpoints = [0]
    example = []          # the switches of one schedule with a preemption

    def process(ctx, result):
        obs, bad, sched = result
        used = sum(p.costs[p.chosen] for p in ctx.points)
        res.case(nontrivial=used > 0)
        if used > 0 and not example:
            example.extend([list(t) for t in sched.trace])
        outcomes.add(repr(obs))
        maxpoints[0] = max(maxpoints[0], sched.points)
        for p in ctx.points:
            sites.add(p.label)
        for t in sched.trace:
            switch_sites.add(t)
        if stats.executions % 50 == 0 and bad is None:
            # determinism audit: the same choice list must give the same
            # observation and the same scheduling points
            again = run(explorer.Ctx(tuple(ctx.choices)))
            res.count("thread_schedules_executed_twice")
            if repr(again[0]) != repr(obs) or again[2].trace != sched.trace:
                res.error("NONDETERMINISM (audit) C10 threads %r" % (c,))
        if stats.executions % 100 == 0:
            # cyclic garbage (scheduler <-> threads <-> closures) is collected
            # between executions, never inside one
            gc.collect()
        if bad is not None:
            again = run(explorer.Ctx(tuple(ctx.choices)))
            if repr(again[0]) != repr(obs):
                res.error("NONDETERMINISM C10 threads %r: %r / %r"
                          % (c, obs, again[0]))
                return
            res.violation(bad[0], dict(group="threads", kind=kind, cfg=c,
                                       choices=ctx.choices,
                                       switches=[list(t) for t in
                                                 sched.trace]),
                          bad[1], bad[2])

    gc.disable()
    try:
        with warnings.catch_warnings():
            warnings.simplefilter("ignore")
            roots = [()]
            if nparts > 1:
                roots, _ = explorer.split_roots(
                    run, bound, want=4 * nparts,
                    on_execution=process if part == 0 else None)
                roots = roots[part::nparts]
            if roots:
                for ctx, result in explorer.explore(run, bound=bound,
                                                    prune=False, roots=roots,
                                                    stats=stats):
                    process(ctx, result)
    except threads.Horizon as exc:
        res.error("HORIZON C10 threads %r: %s" % (c, exc))
    finally:
        gc.enable()
        gc.collect()
    res.count("thread_schedules", stats.executions)
    for x in sites:
        res.add("thread_scheduling_points", x)
    for x in switch_sites:
        res.add("thread_switches", x)
    res.maximum("thread_points_per_execution", maxpoints[0])
    res.maximum("thread_preemption_bound", bound)
    res.add("thread_outcomes", (kind, repr(sorted(c.items())),
                                tuple(sorted(outcomes))))
    if part == 0:
        res.count("thread_configurations")
        res.sample(dict(group="threads", kind=kind, cfg=c,
                        preemption_bound=bound,
                        scheduling_points_per_execution=maxpoints[0],
                        switches_of_one_preempting_schedule=example))
    return res


def replay(case):
    c = case["cfg"]
    if case["kind"] == "align":
        c["rel"] = tuple((i, tuple(secs)) for i, secs in c["rel"])
        if c["fault"] is not None:
            c["fault"] = tuple(c["fault"])
    if case["kind"] == "ops":
        c["fail"] = tuple(c["fail"])
        if c["sel"] == "bundled":
            c["bundle"] = tuple(tuple(b) for b in c["bundle"])
    root = driver.fresh_dir("c10tr")
    run = make_run(case["kind"], c, root)
    ctx = explorer.Ctx(tuple(tuple(x) for x in case["choices"]))
    with warnings.catch_warnings():
        warnings.simplefilter("ignore")
        obs, bad, sched = run(ctx)
    if bad is None:
        return dict(ok=True, observed=obs)
    return dict(ok=False, key=bad[0], expected=bad[1], observed=bad[2])
