"""C12 - compress / decompress round trips and debris on every exit path
(DESIGN.md section 3, C12).

Every history `with compress(name): write` / `with decompress(name): read` is
executed (a) undisturbed, (b) with an exception raised in the caller's block,
(c) once per fault point recorded at the I/O seams of typhon.files.utils
(mc/fault.py), (d) for decompress, on damaged archives. Histories of two
nested blocks (two decompress blocks of equally named archives; a compress
block rewriting the archive inside its decompress block) run as (a) and (b).
All temporary storage is directed into directories owned by the harness
(also the working directory), which hold files of a user under the names a
temporary could be given and are listed (names and content digests) before
and after each execution. An audit hook watches the recording executions for
file operations that typhon.files.utils reaches without passing a seam.
"""
import bz2
import contextlib
import functools
import gzip
import hashlib
import io
import lzma
import os
import pathlib
import shutil
import sys
import tempfile
import zipfile
import zlib

from mc import driver
driver.setup_env()

from mc import fault                                    # noqa: E402
from typhon.files import utils as tfu                   # noqa: E402

PROP = "C12"
LEVEL = "fault_enumeration"
RULE = ("histories = {suffix, fmt=} x {gz,bz2,zip,xz} x names (several dots, "
        "dotted directory, no/unknown suffix, a compression suffix on the "
        "directory only, format names in upper/mixed case; thorough: spaces, "
        "non-ASCII, double suffixes) x contents (empty, 1 byte, 70 kB text, "
        "70 kB pseudo-random, zlib blob; thorough: 8 KiB and 64 KiB +-1, and "
        "one 100 MiB + 1 byte content for gz, zip and xz) x tmpdir {default, "
        "explicit} x compress onto {no, an existing} target x decompress "
        "target= {no, an existing file; thorough: a new file}, plus "
        "pass-through names; for the 1 byte content the name also as "
        "pathlib.Path and relative to the working directory (default tmpdir, "
        "no damaged archives, no injected faults). One evaluation = one "
        "execution of one phase: undisturbed, caller's block raising "
        "(2 positions x {Exception, BaseException}), one injected fault per "
        "recorded fault point x {OSError, BaseException} (TemporaryDirectory/"
        "NamedTemporaryFile/open/compressor constructor/zip member open/"
        "copy before, after half the bytes, after all bytes/close/unlink), "
        "archive truncated at k/8 (k=0..7), byte-flipped, garbage, zip with a "
        "foreign member. Nested histories = {two decompress blocks of equally "
        "named archives of two directories, compress(name) inside "
        "decompress(name)} x formats x 2 names x 2 contents (thorough: 5) x "
        "tmpdir, undisturbed and with the caller raising at 3 positions x "
        "{Exception, BaseException}. Non-trivial = the disturbance happened: "
        "the body exception was raised / the injected fault fired / the "
        "damaged archive made decompress raise; undisturbed executions count "
        "when the arguments name a compression format (an archive is written "
        "/ unpacked, not passed through). Distinct by construction.")
ASSUMPTIONS = [
    "faults are exceptions raised at the seams reachable from the "
    "typhon.files.utils namespace (open, os, shutil, tempfile, the compressor "
    "table); writes that bz2/lzma/zipfile issue internally are represented "
    "by the copy step failing before / half-way / after. An audit hook "
    "(open, os.remove/rename/mkdir/rmdir/link/symlink/truncate/chmod/utime, "
    "shutil.*, tempfile.*) counts every such operation of a recording "
    "execution that typhon.files.utils reaches without passing a seam "
    "(file_operations_outside_seams in the evidence: no fault is injected "
    "there, the before/after comparison of all directories still holds); "
    "the removal of compress's TemporaryDirectory is the one "
    "known operation that is no fault point",
    "the user's files that must survive are decoys named 'temp' and <stem of "
    "the named file> in the directory for temporaries in use, <stem> next to "
    "the named file and the file a decompress target= names; a temporary "
    "with another predictable name is noticed only by the nested histories "
    "(two open blocks yielding one name)",
    "a decompress target= that exists is, as documented, overwritten and "
    "removed with the copy; after a failure it may also still be the user's "
    "file, byte for byte",
    "compress_as() is exercised through compress() only: its own arguments "
    "keep= and target=None are not part of the statement",
    "the 100 MiB copy-chunk boundary is crossed for gz, zip and xz only (one "
    "content, thorough tier, default tmpdir, OSError faults with the 'half' "
    "point placed exactly after the first chunk, no damaged archives); bz2 "
    "at that size is too slow and not covered (it shares the xz statements "
    "in compress_as and the gz/xz statement in decompress)",
    "a fault injected into the removal primitive itself (os.unlink) may "
    "leave the one file it was asked to remove; the target's content after "
    "a fault inside the compression step is not constrained (statement "
    "silent), only that nothing else appears",
    "the standard library's gzip/bz2/lzma/zipfile are the trusted readers",
    "no process crash / power loss; single thread",
]

FORMATS = ("gz", "bz2", "zip", "xz")
MAGIC = {"gz": b"\x1f\x8b", "bz2": b"BZh", "zip": b"PK",
         "xz": b"\xfd7zXZ\x00"}
EXCS = {"Fault": fault.Fault, "Abort": fault.Abort}
BODY_EXCS = {"Exception": RuntimeError, "BaseException": fault.Abort}
REMOVERS = ("os.unlink", "os.remove")
OLD_TARGET = b"previous content of the target\n"
CHUNK = 100 * 1024 * 1024
GARBAGE = b"this is not an archive\n" * 3


# --------------------------------------------------------------------------
# alphabets
# --------------------------------------------------------------------------

def prng(n):
    blocks = (hashlib.sha256(b"c12-%d" % i).digest()
              for i in range(n // 32 + 1))
    return b"".join(blocks)[:n]


TEXT = b"".join(b"line %05d: 273.15 K, 1013.25 hPa, clear sky\n" % i
                for i in range(1600))[:70000]
SMALL = {
    "empty": b"",
    "1byte": b"\x00",
    "text70k": TEXT,
    "random70k": prng(70000),
    "zlibblob": zlib.compress(TEXT, 9),
}
BOUNDARY = {"%s%+d" % (label, d): prng(n + d)
            for label, n in (("8KiB", 8192), ("64KiB", 65536))
            for d in (-1, 0, 1)}


@functools.lru_cache(maxsize=1)
def large():
    """100 MiB + 1 byte; every 64 KiB block carries its index, so a lost,
    repeated or reordered chunk changes the bytes."""
    return b"".join(i.to_bytes(8, "big") * 8192 for i in range(1600)) + b"\x01"


def content_bytes(ckey):
    if ckey == "100MiB+1":
        return large()
    return SMALL[ckey] if ckey in SMALL else BOUNDARY[ckey]


def names(tier, via, fmt):
    """-> [(name, format decompress must recognise from the name or None)]"""
    other = FORMATS[(FORMATS.index(fmt) + 1) % 4] if fmt else None
    if via == "suffix":
        out = ["a.%s" % fmt, "a.b.c.%s" % fmt, "dir.with.dots/a.nc.%s" % fmt]
        # stems ending in a character of the suffix, and a doubled suffix:
        # the inputs that distinguish "strip the suffix" from "strip its
        # characters" (one input per short cut visible in the code)
        out += ["s%s.%s" % (ch, fmt) for ch in sorted(set(fmt))]
        out += ["x.%s.%s" % (fmt, fmt)]
        if tier == "thorough":
            out += ["with space.%s" % fmt, "ünï cöde.%s" % fmt,
                    "y.%s.%s" % (other, fmt), "-dash.%s" % fmt]
        return [(n, fmt) for n in out]
    if via == "fmt":
        out = [("a.%s" % fmt, fmt), ("plain", None), ("data.dat", None),
               ("dir.with.dots/a.nc", None)]
        if tier == "thorough":
            out += [("a.b.c.%s" % fmt, fmt), ("with space", None)]
        return out
    out = ["plain", "data.dat", "dir.with.dots/noext", "a.gz.txt", "gz"]
    # a compression suffix on the directory only, a format name as file name
    out += ["arch.gz/plain", "zip.d/bz2"]
    # suffixes that equal a format name but for letter case: both functions
    # have to agree that these are not compression suffixes
    out += ["GRANULE.%s" % f.upper() for f in FORMATS] + ["scene.Zip"]
    if tier == "thorough":
        out += ["with space.txt", "archive.gzip", "a.xzz"]
    return [(n, None) for n in out]


SPELLINGS = ("str", "Path", "relative")
SPELLED_CONTENT = "1byte"
NESTED_CONTENTS = ("1byte", "text70k")


def shards(tier, seed):
    """history: all argument variants of one (name, content); the content
    SPELLED_CONTENT also with the name given as pathlib.Path and relative to
    the working directory. large: one variant of the large content, split
    into the executions disturbed in the caller's block and those at the
    seams. nested: the histories of two blocks."""
    ckeys = list(SMALL) + (list(BOUNDARY) if tier == "thorough" else [])
    targets = (False, "existing") if tier == "quick" else \
        (False, "new", "existing")
    histories = []
    for via in ("suffix", "fmt"):
        for fmt in FORMATS:
            histories += [(via, fmt, name, dfmt)
                          for name, dfmt in names(tier, via, fmt)]
    histories += [("none", None, name, None)
                  for name, _ in names(tier, "none", None)]
    out = [dict(part="history", via=via, fmt=fmt, name=name, dfmt=dfmt,
                content=ckey, targets=targets)
           for via, fmt, name, dfmt in histories for ckey in ckeys]
    large_variants = [("gz", "xz"), (False,), ("block",)] \
        if tier == "quick" else \
        [("gz", "zip", "xz"), (False, True), ("block", "seams")]
    out += [dict(part="large", via="suffix", fmt=fmt, name="big.%s" % fmt,
                 dfmt=fmt, content="100MiB+1", phase=phase, flag=flag,
                 only=only)
            for fmt in large_variants[0]
            for phase in ("compress", "decompress")
            for flag in large_variants[1] for only in large_variants[2]]
    out += [dict(part="nested", fmt=fmt, name=name % fmt, content=ckey)
            for fmt in FORMATS for name in ("a.%s", "dir.with.dots/a.nc.%s")
            for ckey in (NESTED_CONTENTS if tier == "quick" else SMALL)]
    return out


def inner_content(ckey):
    """The content of the second archive of a nested history."""
    keys = list(SMALL)
    return keys[(keys.index(ckey) + 1) % len(keys)]


# --------------------------------------------------------------------------
# reference side: stdlib readers / writers, directory snapshots
# --------------------------------------------------------------------------

def stdlib_read(fmt, stored):
    """Content of a genuine archive, or raises."""
    if fmt == "gz":
        return gzip.decompress(stored)
    if fmt == "bz2":
        return bz2.decompress(stored)
    if fmt == "xz":
        return lzma.decompress(stored, format=lzma.FORMAT_XZ)
    with zipfile.ZipFile(io.BytesIO(stored)) as z:
        return [z.read(n) for n in z.namelist()]


def stdlib_archive(fmt, name, content, member=None):
    if fmt == "gz":
        return gzip.compress(content, mtime=0)
    if fmt == "bz2":
        return bz2.compress(content)
    if fmt == "xz":
        return lzma.compress(content, format=lzma.FORMAT_XZ)
    if member is None:
        member = os.path.splitext(os.path.basename(name))[0]
    buf = io.BytesIO()
    with zipfile.ZipFile(buf, "w", zipfile.ZIP_DEFLATED) as z:
        z.writestr(zipfile.ZipInfo(member, (2020, 2, 29, 0, 0, 0)), content)
    return buf.getvalue()


def verify_archive(fmt, stored, content):
    """None, or the violation key suffix."""
    if not stored.startswith(MAGIC[fmt]):
        return "not-a-%s-archive" % fmt
    try:
        got = stdlib_read(fmt, stored)
    except Exception:
        return "not-a-%s-archive" % fmt
    if content not in got if fmt == "zip" else got != content:
        return "archive-content-differs"
    return None


def digest(path):
    h = hashlib.blake2b(digest_size=16)
    with open(path, "rb") as f:
        for block in iter(lambda: f.read(1 << 20), b""):
            h.update(block)
    return h.hexdigest()


def blake(data):
    """digest() of a file with these bytes"""
    return hashlib.blake2b(data, digest_size=16).hexdigest()


DECOY = b"a file of the user, not a temporary\n"
TARGET = "copy.bin"


class Box:
    """The directories one execution may touch: tmp (tempfile.tempdir),
    xtmp (explicit tmpdir=), out (the named file; working directory), dt
    (decompress target=). With a case they hold decoys: files of the user
    under the names a temporary of this history could be given ('temp' and
    the stem of the named file in the directory for temporaries, the stem
    next to the named file, the target of decompress)."""

    def __init__(self, root, case=None):
        self.root = tempfile.mkdtemp(dir=root)
        for d in ("tmp", "xtmp", "out", "dt"):
            os.mkdir(os.path.join(self.root, d))
            setattr(self, d, os.path.join(self.root, d))
        self.decoys = set()
        if case is None:
            return
        base = os.path.basename(case["name"])
        stem = os.path.splitext(base)[0]
        temporaries = self.xtmp if case["tmpdir"] else self.tmp
        self.decoys = {os.path.join(temporaries, "temp"),
                       os.path.join(temporaries, stem)}
        if case.get("target") in (False, "existing"):
            self.decoys.add(os.path.join(self.dt, TARGET))
        if stem != base:
            self.decoys.add(self.place(os.path.join(
                os.path.dirname(case["name"]), stem)))
        for path in self.decoys:
            with open(path, "wb") as f:
                f.write(DECOY)

    def place(self, name, data=None):
        path = os.path.join(self.out, name)
        os.makedirs(os.path.dirname(path), exist_ok=True)
        if data is not None:
            with open(path, "wb") as f:
                f.write(data)
        return path

    def snap(self):
        out = {}
        for top, dirs, files in os.walk(self.root):
            for n in dirs:
                out[os.path.join(top, n)] = "dir"
            for n in files:
                out[os.path.join(top, n)] = digest(os.path.join(top, n))
        return out

    def inside(self, path, d):
        return path.startswith(getattr(self, d) + os.sep)

    def touched(self, diff):
        return sorted(p for p in diff if p in self.decoys)


def differences(before, after):
    return sorted(p for p in set(before) | set(after)
                  if before.get(p) != after.get(p))


# --------------------------------------------------------------------------
# seams
# --------------------------------------------------------------------------

def seams(plan, half):
    """Bindings for the typhon.files.utils namespace that turn every I/O step
    into a fault point of `plan`."""
    def opened(file, mode="r", *args, **kwargs):
        plan.point("open(%s)" % mode)
        return plan.proxy(open(file, mode, *args, **kwargs),
                          "file(%s)" % mode)

    def named_temporary_file(*args, **kwargs):
        plan.point("NamedTemporaryFile")
        return plan.proxy(tempfile.NamedTemporaryFile(*args, **kwargs),
                          "tmpfile")

    def zip_write(real, filename, arcname=None, compress_type=None,
                  compresslevel=None):
        # ZipFile.write re-stated so that it can fail half-way
        plan.point("zip.write:before")
        info = zipfile.ZipInfo.from_file(filename, arcname)
        info.compress_type = (real.compression if compress_type is None
                              else compress_type)
        with open(filename, "rb") as src, real.open(info, "w") as dst:
            dst.write(src.read(half))
            plan.point("zip.write:mid")
            shutil.copyfileobj(src, dst)
        plan.point("zip.write:after")

    def compressor(cls):
        def construct(*args, **kwargs):
            plan.point("%s()" % cls.__name__)
            return plan.proxy(
                cls(*args, **kwargs), cls.__name__, points=("open", "close"),
                overrides={"write": zip_write} if cls is zipfile.ZipFile
                else None)
        return construct

    def points(module, *attrs):
        return {a: plan.wrap(getattr(module, a), "%s.%s" % (
            module.__name__, a)) for a in attrs}

    return dict(
        open=opened,
        _known_compressions={k: compressor(c)
                             for k, c in tfu._known_compressions.items()},
        shutil=fault.ModuleProxy(
            shutil, copyfileobj=plan.copyfileobj(shutil.copyfileobj,
                                                 "copyfileobj", half),
            **points(shutil, "move", "copyfile", "copy")),
        os=fault.ModuleProxy(
            os, **points(os, "unlink", "remove", "rename", "replace")),
        tempfile=fault.ModuleProxy(
            tempfile, NamedTemporaryFile=named_temporary_file,
            **points(tempfile, "TemporaryDirectory", "mkdtemp", "mkstemp")),
    )


# --------------------------------------------------------------------------
# completeness of the seams
# --------------------------------------------------------------------------

IO_EVENTS = ("open", "os.remove", "os.rename", "os.mkdir", "os.rmdir",
             "os.link", "os.symlink", "os.truncate", "os.chmod", "os.utime",
             "shutil.", "tempfile.")
HARNESS_FILES = (__file__, fault.__file__)
WATCH = dict(on=False, under_seam=0, outside=[])


def audit(event, args):
    """Audit hook: while switched on, every file operation whose nearest
    harness-or-typhon frame is one of typhon.files.utils was reached without
    passing a seam, i.e. is no fault point. The removal of the
    TemporaryDirectory of compress is known to be one of these."""
    if not WATCH["on"] or not event.startswith(IO_EVENTS):
        return
    frame = sys._getframe(1)
    cleanup = False
    while frame is not None:
        code = frame.f_code
        if code.co_filename.startswith("<frozen importlib"):
            return
        if code.co_filename in HARNESS_FILES:
            # the harness itself, or a seam if typhon is the caller
            break
        if code.co_filename == tempfile.__file__ and \
                code.co_name in ("cleanup", "_cleanup", "__exit__"):
            cleanup = True
        if code.co_filename == tfu.__file__:
            if not cleanup:
                WATCH["outside"].append("%s%r at line %d" % (
                    event, args[:1], frame.f_lineno))
            return
        frame = frame.f_back
    while frame is not None:
        if frame.f_code.co_filename == tfu.__file__:
            WATCH["under_seam"] += 1
            return
        frame = frame.f_back


sys.addaudithook(audit)


@contextlib.contextmanager
def watched(res, case):
    """Switches the audit hook on for a recording execution; an operation
    outside the seams is a gap in the fault coverage (no fault is injected
    there), not a fault of typhon: it is counted in the evidence."""
    WATCH.update(on=case["kind"] == "record", under_seam=0, outside=[])
    try:
        yield
    finally:
        WATCH["on"] = False
    res.count("file_operations_under_seams", WATCH["under_seam"])
    res.count("file_operations_outside_seams", len(WATCH["outside"]))
    for op in WATCH["outside"]:
        res.add("operations_outside_seams", op.split("(")[0])


# --------------------------------------------------------------------------
# one execution
# --------------------------------------------------------------------------

def half_of(case, content):
    return CHUNK if case["content"] == "100MiB+1" else len(content) // 2


def plan_of(case):
    if case["kind"] == "inject":
        return fault.Plan(case["at"], EXCS[case["exc"]])
    return fault.Plan()


def execute(case, root, plan=None):
    """Runs one phase of one history. -> (violation tuple or None, plan,
    disturbed?)"""
    content = content_bytes(case["content"])
    plan = plan or plan_of(case)
    box = Box(root, case)
    saved = tempfile.tempdir, os.getcwd()
    tempfile.tempdir = box.tmp
    os.chdir(box.out)
    try:
        if case["kind"] in ("record", "inject"):
            env = fault.patched(tfu, **seams(plan, half_of(case, content)))
        else:
            env = contextlib.nullcontext()
        bad, disturbed = PHASES[case["phase"]](case, content, box, env, root,
                                               plan)
        if case["kind"] == "inject":
            disturbed = plan.fired is not None
        return bad, plan, disturbed
    finally:
        tempfile.tempdir = saved[0]
        os.chdir(saved[1])
        shutil.rmtree(box.root)


def body_exception(case, where):
    if case["kind"] == "body" and case["where"] == where:
        raise BODY_EXCS[case["exc"]]("raised in the caller's block")


def spelled(path, case, box):
    """The named file as the caller writes it."""
    if case["spelling"] == "Path":
        return pathlib.Path(path)
    if case["spelling"] == "relative":
        return os.path.relpath(path, box.out)
    return path


def is_file(yielded, path):
    return yielded is not None and \
        os.path.abspath(os.fspath(yielded)) == path


def passed_through(yielded, given):
    return yielded is not None and os.fspath(yielded) == os.fspath(given)


def digest_or_none(path):
    try:
        return digest(path)
    except OSError:
        return None


HOW = {"plain": "success", "record": "success", "body": "body-exception",
       "inject": "fault", "damage": "damaged-archive"}


def run_compress(case, content, box, env, root, plan):
    fmt = case["fmt"] if case["via"] != "none" else None
    path = box.place(case["name"], OLD_TARGET if case["existing"] else None)
    given = spelled(path, case, box)
    kwargs = {}
    if case["via"] == "fmt":
        kwargs["fmt"] = fmt
    if case["tmpdir"]:
        kwargs["tmpdir"] = box.xtmp
    before = box.snap()
    yielded = raised = None
    try:
        with env:
            with tfu.compress(given, **kwargs) as f:
                yielded = f
                body_exception(case, "enter")
                with open(f, "wb") as fh:
                    fh.write(content)
                body_exception(case, "written")
    except (Exception, fault.Abort) as e:
        raised = e
    diff = differences(before, box.snap())
    how = HOW[case["kind"]]
    disturbed = case["kind"] == "body" and raised is not None

    if box.touched(diff):
        return ("compress/foreign-file-touched", [], box.touched(diff),
                ""), disturbed
    if fmt is None:
        if not passed_through(yielded, given):
            return ("passthrough/compress-yields-another-name", given,
                    yielded, ""), False
        if [p for p in diff if p != path]:
            return ("passthrough/compress-touches-other-files", [path], diff,
                    ""), False
        if case["kind"] == "plain" and (raised is not None
                                        or digest(path) != blake(content)):
            return ("passthrough/content-changed", None, repr(raised), ""), \
                False
        return None, disturbed

    if is_file(yielded, path):
        return ("format/%s-not-recognised" % fmt,
                "a temporary name; %s stored as a %s archive" % (
                    case["name"], fmt),
                "compress yields the target itself; stored uncompressed",
                ""), disturbed
    debris = [p for p in diff if not box.inside(p, "out")]
    if yielded is not None and os.path.lexists(yielded):
        debris.append(yielded)
    if debris:
        return ("compress/temporary-remains-after-" + how, [], debris,
                ""), disturbed
    if case["kind"] == "body":
        if path in diff:
            return ("compress/target-%s-by-failed-block" % (
                "modified" if case["existing"] else "created"),
                "target as before", diff, ""), disturbed
    if [p for p in diff if p != path]:
        return ("compress/debris-in-target-directory-after-" + how, [path],
                diff, ""), disturbed
    if raised is None and case["kind"] != "body":
        # also after a fault the implementation chose to survive
        if not os.path.isfile(path):
            return ("compress/no-target-after-normal-exit", path, diff,
                    ""), disturbed
        with open(path, "rb") as f:
            problem = verify_archive(fmt, f.read(), content)
        if problem:
            return ("compress/" + problem, None, None, ""), disturbed
    elif how == "success":
        return ("compress/exception/" + type(raised).__name__, None,
                repr(raised)[:200], ""), disturbed
    return None, disturbed or (how == "success")


def product(case, root, content=None):
    """What decompress is given: the file typhon's compress() stores for this
    history (or for another content of it), or the stdlib's archive if that
    is not a genuine one (reported by the compress phase)."""
    return _product(case["via"], case["fmt"], case["name"],
                    content or case["content"], root)


@functools.lru_cache(maxsize=2)
def _product(via, fmt, name, ckey, root):
    content = content_bytes(ckey)
    if via == "none":
        return content
    box = Box(root)
    saved = tempfile.tempdir, WATCH["on"]
    tempfile.tempdir = box.tmp
    WATCH["on"] = False      # compress runs without seams here
    try:
        path = box.place(name)
        with tfu.compress(path, **({"fmt": fmt} if via == "fmt" else {})) \
                as f:
            with open(f, "wb") as fh:
                fh.write(content)
        with open(path, "rb") as fh:
            stored = fh.read()
    except Exception:
        stored = b""
    finally:
        tempfile.tempdir, WATCH["on"] = saved
        shutil.rmtree(box.root)
    if verify_archive(fmt, stored, content) is None:
        return stored
    return stdlib_archive(fmt, name, content)


def damaged(case, archive, content):
    d = case["damage"]
    if d.startswith("trunc"):
        return archive[:len(archive) * int(d[5:]) // 8]
    if d == "flip":
        mid = len(archive) // 2
        return archive[:mid] + bytes([archive[mid] ^ 0xFF]) + archive[mid + 1:]
    if d == "garbage":
        return GARBAGE
    return stdlib_archive("zip", case["name"], content, member="stranger")


DAMAGES = ["trunc%d" % k for k in range(8)] + ["flip", "garbage"]


def run_decompress(case, content, box, env, root, plan):
    dfmt = case["dfmt"]
    archive = product(case, root)
    if case["kind"] == "damage":
        archive = damaged(case, archive, content)
    path = box.place(case["name"], archive)
    given = spelled(path, case, box)
    kwargs = {}
    if case["tmpdir"]:
        kwargs["tmpdir"] = box.xtmp
    if case["target"]:
        kwargs["target"] = os.path.join(box.dt, TARGET)
    before = box.snap()
    yielded = raised = got = None
    try:
        with env:
            with tfu.decompress(given, **kwargs) as g:
                yielded = g
                body_exception(case, "enter")
                got = digest(g)
                body_exception(case, "read")
    except (Exception, fault.Abort) as e:
        raised = e
    after = box.snap()
    if case["target"] == "existing" and dfmt:
        # "this file will be overwritten with the decompressed content and
        # deleted after leaving the with-block": it is the copy, unless an
        # early failure left the user's file as it was
        box.decoys.remove(kwargs["target"])
        if kwargs["target"] not in after:
            del before[kwargs["target"]]
    diff = differences(before, after)
    how = HOW[case["kind"]]
    disturbed = case["kind"] in ("body", "damage") and raised is not None

    if box.touched(diff):
        return ("decompress/foreign-file-touched", [], box.touched(diff),
                ""), disturbed
    if dfmt is None:
        if not passed_through(yielded, given):
            return ("passthrough/decompress-yields-another-name", given,
                    yielded, ""), False
        if diff:
            return ("passthrough/decompress-touches-files", [], diff, ""), \
                False
        if how == "success" and (raised is not None
                                 or got != blake(archive)):
            return ("passthrough/content-changed", None, repr(raised), ""), \
                False
        return None, disturbed

    if is_file(yielded, path):
        return ("format/%s-not-recognised" % dfmt,
                "a decompressed temporary copy of " + case["name"],
                "decompress yields the archive itself", ""), disturbed
    if path in diff:
        return ("decompress/archive-modified", None, diff, ""), disturbed
    leftovers = list(diff)
    if yielded is not None and os.path.lexists(yielded) \
            and yielded not in leftovers:
        leftovers.append(yielded)
    if (plan.fired or "").startswith(REMOVERS) and len(leftovers) == 1 \
            and not box.inside(leftovers[0], "out"):
        leftovers = []      # the file whose removal was made to fail
    if leftovers:
        return ("decompress/copy-remains-after-" + how, [], leftovers,
                ""), disturbed
    if how == "success":
        if raised is not None:
            return ("decompress/exception/" + type(raised).__name__, None,
                    repr(raised)[:200], ""), disturbed
        if got != blake(content):
            return ("roundtrip/content-differs", blake(content), got,
                    "digests"), disturbed
    return None, disturbed or (how == "success")


def run_twice(case, content, box, env, root, plan):
    """Two equally named archives of different directories, decompressed in
    nested blocks with the same tmpdir."""
    second = content_bytes(inner_content(case["content"]))
    paths = [box.place("one/" + case["name"], product(case, root)),
             box.place("two/" + case["name"],
                       product(case, root, inner_content(case["content"])))]
    kwargs = {"tmpdir": box.xtmp} if case["tmpdir"] else {}
    before = box.snap()
    seen = {}
    raised = None
    try:
        with tfu.decompress(paths[0], **kwargs) as outer:
            seen["outer"] = outer
            body_exception(case, "outer")
            with tfu.decompress(paths[1], **kwargs) as inner:
                seen["inner"] = inner
                body_exception(case, "inner")
                seen["read"] = [digest_or_none(outer), digest_or_none(inner)]
            seen["between"] = [digest_or_none(outer), digest_or_none(inner)]
            body_exception(case, "after")
    except (Exception, fault.Abort) as e:
        raised = e
    diff = differences(before, box.snap())
    how = HOW[case["kind"]]
    disturbed = case["kind"] == "body" and raised is not None
    wanted = [blake(content), blake(second)]

    if box.touched(diff):
        return ("nested/foreign-file-touched", [], box.touched(diff),
                ""), disturbed
    if is_file(seen.get("outer"), paths[0]):
        return ("format/%s-not-recognised" % case["fmt"],
                "a decompressed temporary copy of " + case["name"],
                "decompress yields the archive itself", ""), disturbed
    if "inner" in seen and seen["inner"] == seen["outer"]:
        return ("nested/one-temporary-for-two-open-blocks", "two names",
                seen["outer"], ""), disturbed
    if seen.get("read", wanted) != wanted:
        return ("nested/content-differs-while-both-open", wanted,
                seen["read"], "digests of [outer, inner] copy"), disturbed
    if seen.get("between", [wanted[0], None]) != [wanted[0], None]:
        return ("nested/copies-after-inner-block", [wanted[0], None],
                seen["between"], "digests of [outer, inner] copy; the "
                "inner one has to be gone"), disturbed
    if diff:
        return ("nested/copy-remains-after-" + how, [], diff, ""), disturbed
    if how == "success" and raised is not None:
        return ("nested/exception/" + type(raised).__name__, None,
                repr(raised)[:200], ""), disturbed
    return None, disturbed or (how == "success")


APPENDED = b"appended inside the decompress block\n"


def run_rewrite(case, content, box, env, root, plan):
    """Read-modify-write: compress(name) inside decompress(name)."""
    archive = product(case, root)
    path = box.place(case["name"], archive)
    kwargs = {"tmpdir": box.xtmp} if case["tmpdir"] else {}
    before = box.snap()
    seen = {}
    raised = None
    try:
        with tfu.decompress(path, **kwargs) as outer:
            seen["outer"] = outer
            body_exception(case, "outer")
            seen["read"] = digest_or_none(outer)
            with tfu.compress(path, **kwargs) as inner:
                seen["inner"] = inner
                body_exception(case, "inner")
                shutil.copyfile(outer, inner)
                with open(inner, "ab") as fh:
                    fh.write(APPENDED)
            seen["written"] = True
            body_exception(case, "after")
    except (Exception, fault.Abort) as e:
        raised = e
    diff = differences(before, box.snap())
    how = HOW[case["kind"]]
    disturbed = case["kind"] == "body" and raised is not None

    if box.touched(diff):
        return ("nested/foreign-file-touched", [], box.touched(diff),
                ""), disturbed
    if "inner" in seen and seen["inner"] == seen["outer"]:
        return ("nested/one-temporary-for-two-open-blocks", "two names",
                seen["outer"], ""), disturbed
    if seen.get("read", blake(content)) != blake(content):
        return ("roundtrip/content-differs", blake(content), seen["read"],
                "digests"), disturbed
    if [p for p in diff if p != path]:
        return ("nested/temporary-remains-after-" + how, [path], diff,
                ""), disturbed
    if "written" not in seen:
        if diff:
            return ("compress/target-modified-by-failed-block",
                    "target as before", diff, ""), disturbed
    else:
        with open(path, "rb") as f:
            problem = verify_archive(case["fmt"], f.read(),
                                     content + APPENDED)
        if problem:
            return ("nested/rewritten-" + problem, None, None, ""), disturbed
    if how == "success" and raised is not None:
        return ("nested/exception/" + type(raised).__name__, None,
                repr(raised)[:200], ""), disturbed
    return None, disturbed or (how == "success")


PHASES = dict(compress=run_compress, decompress=run_decompress,
              twice=run_twice, rewrite=run_rewrite)


# --------------------------------------------------------------------------
# enumeration
# --------------------------------------------------------------------------

def phase_cases(base, damages=True):
    """The undisturbed execution, the body exceptions and the damaged
    archives of one phase (the injected faults follow from the recording)."""
    yield dict(base, kind="plain")
    places = {"compress": ("enter", "written"),
              "decompress": ("enter", "read")}.get(
                  base["phase"], ("outer", "inner", "after"))
    for where in places:
        for exc in BODY_EXCS:
            yield dict(base, kind="body", where=where, exc=exc)
    if damages and base["phase"] == "decompress" and base["dfmt"]:
        for damage in DAMAGES + (["member"] if base["dfmt"] == "zip" else []):
            yield dict(base, kind="damage", damage=damage)


def flagged(phase, flag):
    return {"existing" if phase == "compress" else "target": flag}


def history_cases(shard):
    """-> [(base case, with the damaged archives and the seams?)]"""
    base = {k: shard[k] for k in ("via", "fmt", "name", "dfmt", "content")}
    if shard["part"] == "large":
        # default tmpdir only
        flag = "new" if shard["flag"] and shard["phase"] == "decompress" \
            else shard["flag"]
        return [(dict(base, phase=shard["phase"], tmpdir=False,
                      spelling="str", **flagged(shard["phase"], flag)),
                 False)]
    flags = {"compress": (False, True), "decompress": shard["targets"]}
    out = [(dict(base, phase=phase, tmpdir=tmpdir, spelling="str",
                 **flagged(phase, flag)), True)
           for tmpdir in (False, True) for phase in flags
           for flag in flags[phase]]
    if shard["content"] == SPELLED_CONTENT:
        out += [(dict(base, phase=phase, tmpdir=False, spelling=spelling,
                      **flagged(phase, flag)), False)
                for spelling in SPELLINGS[1:] for phase in flags
                for flag in flags[phase]]
    return out


def nested_cases(shard):
    for phase in ("twice", "rewrite"):
        for tmpdir in (False, True):
            yield dict(via="suffix", fmt=shard["fmt"], name=shard["name"],
                       dfmt=shard["fmt"], content=shard["content"],
                       phase=phase, tmpdir=tmpdir)


def evaluate(res, case, root, plan=None):
    with watched(res, case):
        bad, plan, disturbed = execute(case, root, plan)
    res.case(nontrivial=disturbed)
    res.add("outcomes", (case["phase"], case["kind"], plan.fired,
                         bad[0] if bad else None))
    if bad is not None:
        again = execute(case, root)[0]
        if again is None or again[0] != bad[0]:
            res.error("NONDETERMINISM %r: %r then %r" % (case, bad, again))
        res.violation(bad[0], case, bad[1], bad[2], bad[3])
    return plan


def explore_seams(res, base, root, excs):
    def run(plan):
        if plan.inject_at is None:
            case = dict(base, kind="record")
        else:
            case = dict(base, kind="inject", at=plan.inject_at,
                        exc=plan.exc.__name__)
        evaluate(res, case, root, plan)
        return case
    case = None
    try:
        for plan, case in fault.explore(run, excs):
            if plan.inject_at is None:
                res.count("fault_points", len(plan.trace))
                res.maximum("fault_points_per_execution", len(plan.trace))
                for label in plan.trace:
                    res.add("fault_point_labels", label)
            else:
                res.count("faults_fired")
    except fault.Nondeterminism as e:
        res.error("NONDETERMINISM %r: %s" % (base, e))
    return case


def run_shard(shard):
    res = driver.ShardResult()
    root = driver.fresh_dir("c12")
    case = None
    if shard["part"] == "nested":
        for base in nested_cases(shard):
            for case in phase_cases(base):
                evaluate(res, case, root)
    else:
        large = shard["part"] == "large"
        excs = [fault.Fault] if large else list(EXCS.values())
        for base, full in history_cases(shard):
            if not large or shard["only"] == "block":
                for case in phase_cases(base, damages=full):
                    evaluate(res, case, root)
            if full or (large and shard["only"] == "seams"):
                case = explore_seams(res, base, root, excs) or case
    res.sample(case)
    shutil.rmtree(root)
    return res


def replay(case):
    root = driver.fresh_dir("c12r")
    bad, plan, disturbed = execute(case, root)
    out = dict(ok=bad is None, trace=plan.trace, fired=plan.fired,
               disturbed=disturbed)
    if bad is not None:
        out.update(key=bad[0], expected=bad[1], observed=bad[2])
    return out


if __name__ == "__main__":
    driver.main(sys.modules[__name__])
