"""C11, part "threads": move / copy / delete with their worker pool running
for real.  The BFS part runs pool work inline (schedules are C10's subject);
what it cannot see is two workers of ONE move/copy/delete interfering: a
check-then-act on a target directory, a FileSet attribute used as scratch
space, two results racing for one name.  Here the tasks are real threads under
the cooperative scheduler of mc/threads.py, every line of a typhon source
file is a scheduling point, and every schedule with at most d preemptions is
executed on a real tmpfs tree.  Worker type "thread": the tasks share the
FileSet objects; "process" (typhon's default for move/delete): every task
gets pickled copies and shares only the file system.

Shard descriptors: ("threads", tier, alphabet, op, wtype, bound, part, nparts,
root) with root "full" (one file in every slot) or "twins" (two files with
the same base name in different directories).
"""
import contextlib
import io
import os

from mc import driver
driver.setup_env()
from mc import explorer, threads
from checks import c11_model as model


def candidate_ops(tier):
    """(alphabet, op, wtype, bound): every move/copy/delete of both alphabets
    from the tree with one file in each slot; selections of two files
    (period: both in one target directory; filter / files: two directories)
    in quick, also 'all' (four files) in thorough."""
    q = tier == "quick"
    out = []
    for alphabet in ("layout", "forms"):
        for op in model.ops(alphabet):
            if op[0] == "mv":
                src, sel = op[1], op[3]
            elif op[0] == "del":
                src, sel = op[1], op[2]
            else:
                continue
            if src != "A":
                continue               # the root tree only has files in A
            if sel in ("all", "nfilter"):
                if q:
                    continue
                bounds = {"thread": 1, "process": 1}
            elif q:
                # quick: two files for one new directory (period) with shared
                # FileSet objects; with private copies only where nothing but
                # the file system is involved (raw moves); the converting
                # moves into the JSON fileset by filter; every delete
                bounds = {}
                if sel == "period" or op[0] == "del" or \
                        (op[0] == "mv" and op[2] == "J"):
                    bounds["thread"] = 1
                if sel == "period" and (op[0] == "del" or op[5] == "raw"):
                    bounds["process"] = 1
            else:
                # thorough: every selection with both worker types at one
                # preemption; two preemptions (about 1e5 schedules per
                # operation) for the raw move of two files into one new
                # directory and for the delete
                deep = sel == "period" and (
                    op[0] == "del" or op[2:] == ("DOY", "period", False,
                                                 "raw"))
                bounds = {"thread": 2 if deep else 1,
                          "process": 2 if deep else 1}
            for wtype, b in bounds.items():
                out.append((alphabet, op, wtype, b, "full"))
    # two files of the same base name in different directories: whatever a
    # worker derives from the base name alone (a temporary, a flat target)
    # is shared by the two tasks
    for op in (("mv", "A", "GZ", "all", False, "conv"),
               ("mv", "A", "GZ", "all", True, "conv"),
               ("mv", "A", "B2", "all", False, "call"),
               ("mv", "A", "DOY", "all", True, "raw"),
               ("del", "A", "all", False)):
        for wtype in ("thread", "process"):
            out.append(("layout", op, wtype, 1, "twins"))
    for op in (("mv", "A", "J", "all", False, "conv"),
               ("mv", "A", "J", "all", True, "call")):
        out.append(("forms", op, "thread", 1, "twins"))
    return out


def shards(tier, seed):
    out = []
    for alphabet, op, wtype, bound, root in candidate_ops(tier):
        sel = op[3] if op[0] == "mv" else op[2]
        # four tasks (about 4000 schedules with one preemption) are split too
        nparts = 48 if bound > 1 else (
            8 if root == "full" and sel in ("all", "nfilter") else 1)
        for part in range(nparts):
            out.append(("threads", tier, alphabet, op, wtype, bound, part,
                        nparts, root))
    return out


def typhon_dir():
    import typhon
    return os.path.dirname(os.path.abspath(typhon.__file__)) + os.sep


class NoGC:
    @staticmethod
    def collect(*a):
        return 0


def make_run(op, wtype, root="full"):
    from checks import c11_conserve as cc
    import typhon.files.fileset as fsmod
    from typhon.files.fileset import NoFilesError
    tree = cc.Tree()
    state = model.twins_root() if root == "twins" else model.roots()["full"]
    tree.materialise(state)
    snap = tree.snapshot()
    new, chosen = model.step(state, op)
    ty = typhon_dir()
    kw = dict(max_workers=2, worker_type=wtype)

    def call(fss):
        if op[0] == "del":
            _, fsid, sel, dry = op
            fs = fss[fsid]
            fs.delete(dry_run=dry, **kw,
                      **cc.selection_kwargs(tree, fs, sel, chosen))
        else:
            _, src, dst, sel, copy, conv = op
            fs = fss[src]
            target = fss[dst] if model.target_is_object(src, dst) else \
                os.path.join(tree.root, model.FILESETS[dst])
            convert = {"raw": None, "conv": True,
                       "call": model.convert_payload}[conv]
            fss.returned = fs.move(
                target, convert=convert, copy=copy, **kw,
                **cc.selection_kwargs(tree, fs, sel, chosen))

    def run(ctx):
        tree.restore(snap)
        fss = tree.filesets()
        # FileSet objects are built (and files= selections resolved) before
        # the scheduler exists: only the operation itself is interleaved
        if op[0] == "del":
            fss[op[1]]
        else:
            fss[op[1]]
            if model.target_is_object(op[1], op[2]):
                fss[op[2]]
        sched = threads.Scheduler(ctx, lambda fn: fn.startswith(ty))
        saved = (fsmod.ThreadPoolExecutor, fsmod.ProcessPoolExecutor,
                 fsmod.gc)
        fsmod.ThreadPoolExecutor = threads.pool_class(sched, "thread")
        fsmod.ProcessPoolExecutor = threads.pool_class(sched, "process")
        fsmod.gc = NoGC
        restore = sched.install_waiters((fsmod,))
        bad = None
        sched.start_tracing()
        try:
            with contextlib.redirect_stdout(io.StringIO()):
                call(fss)
        except NoFilesError as exc:
            if chosen:
                bad = ("threads/exception/NoFilesError", "files %r" % chosen,
                       repr(exc)[:200])
        except threads.Deadlock as exc:
            bad = ("threads/deadlock", None, str(exc))
        except Exception as exc:
            bad = ("threads/exception/%s/%s" % (cc.op_kind(op),
                                                type(exc).__name__), None,
                   repr(exc)[:300])
        finally:
            sched.stop_tracing()
            sched.close()
            restore()
            (fsmod.ThreadPoolExecutor, fsmod.ProcessPoolExecutor,
             fsmod.gc) = saved
        observed = tree.listing()
        if bad is None:
            bad = cc.judge_tree(op, state, new, chosen, observed)
            if bad is not None:
                bad = ("threads/" + bad[0],) + tuple(bad[1:])
        leftovers = sorted(os.listdir(tree.tmp))
        if bad is None and leftovers:
            bad = ("threads/temporary-left-behind", [], leftovers)
        return observed, bad, sched

    return run, tree


def run_shard(shard):
    import gc
    _, tier, alphabet, op, wtype, bound, part, nparts, root = shard
    res = driver.ShardResult()
    run, tree = make_run(op, wtype, root)
    stats = explorer.Stats()
    sites, trees = set(), set()
    maxpoints = [0]
    example = []          # the switches of one schedule with a preemption

    def process(ctx, result):
        observed, bad, sched = result
        used = sum(p.costs[p.chosen] for p in ctx.points)
        res.case(nontrivial=used > 0)
        if used > 0 and not example:
            example.extend([list(t) for t in sched.trace])
        res.count("transitions")
        res.count("thread_schedules")
        maxpoints[0] = max(maxpoints[0], sched.points)
        trees.add(driver.h64(sorted(observed.items())))
        for p in ctx.points:
            sites.add(p.label)
        if stats.executions % 50 == 0 and bad is None:
            again = run(explorer.Ctx(tuple(ctx.choices)))
            res.count("thread_schedules_executed_twice")
            if again[0] != observed or again[2].trace != sched.trace:
                res.error("NONDETERMINISM (audit) C11 threads %r %s"
                          % (op, wtype))
        if stats.executions % 100 == 0:
            gc.collect()
        if bad is not None:
            again = run(explorer.Ctx(tuple(ctx.choices)))
            if again[1] is None or again[1][0] != bad[0]:
                res.error("NONDETERMINISM C11 threads %r %s" % (op, wtype))
                return
            res.violation(bad[0], dict(part="threads", op=list(op),
                                       wtype=wtype, root=root,
                                       choices=ctx.choices,
                                       switches=[list(t) for t in
                                                 sched.trace]),
                          bad[1], bad[2])

    gc.disable()
    try:
        roots = [()]
        if nparts > 1:
            roots, _ = explorer.split_roots(
                run, bound, want=4 * nparts,
                on_execution=process if part == 0 else None)
            roots = roots[part::nparts]
        if roots:
            for ctx, result in explorer.explore(run, bound=bound, prune=False,
                                                roots=roots, stats=stats):
                process(ctx, result)
    except threads.Horizon as exc:
        res.error("HORIZON C11 threads %r: %s" % (op, exc))
    finally:
        gc.enable()
        gc.collect()
        tree.close()
    for x in sites:
        res.add("thread_scheduling_points", x)
    for x in trees:
        res.add("trees", x)
    res.maximum("thread_points_per_execution", maxpoints[0])
    res.maximum("thread_preemption_bound", bound)
    if part == 0:
        res.count("thread_operations")
        res.sample(dict(part="threads", operation=list(op), worker_type=wtype,
                        root=root,
                        preemption_bound=bound,
                        scheduling_points_per_execution=maxpoints[0],
                        switches_of_one_preempting_schedule=example))
    return res


def replay(case):
    op = tuple(case["op"])
    run, tree = make_run(op, case["wtype"], case.get("root", "full"))
    try:
        ctx = explorer.Ctx(tuple(tuple(x) for x in case["choices"]))
        observed, bad, sched = run(ctx)
    finally:
        tree.close()
    if bad is None:
        return dict(ok=True)
    return dict(ok=False, key=bad[0], expected=bad[1], observed=bad[2])
