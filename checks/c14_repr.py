"""C14, part 3: the number REPRESENTATION of the arguments (driven from
c14_integrals.py).

The same mathematical values are handed to every function of the property as
float64, float32, int64 and int32 arrays (Python lists and scalar forms where
the function takes them), one argument at a time and together, wherever the
values are exactly representable. The oracles are those of the other parts
(exact rational trapezoid, rational IWV references, saturation = 1, the ISA
table); pressure2height, whose discretisation the statement leaves open, is
compared with its own result for the float64 representation.
"""
import itertools
from fractions import Fraction

from mc import driver
driver.setup_env()

import numpy as np
from typhon import constants

from checks import c14_exact as ex
from checks import c14_profiles as pr

RULE = ("representations: arrays as float64|float32|int64|int32 (+ Python "
        "list for integrate_column and standard_atmosphere), a case exists "
        "iff every value (integrate_column: every value of the alphabet) is "
        "exactly representable; quick: one argument at a "
        "time in every other representation and all arguments in the same "
        "one, thorough: every assignment (all-float64 belongs to the other "
        "parts). integrate_column: every selection of 2..3 (thorough 2..4) "
        "nodes of {0,1,3,7[,12]} in both orders x every integrand over "
        "{-1,0,1,3}, whole | x halved | y halved, x also omitted (then with "
        "y in every representation), each as a "
        "1-D call, as 3 columns (axis 0) and as 3 rows (axis -1). IWV both "
        "forms: every selection of 2..3 (thorough 2..4) of the 6 pressure "
        "nodes x every vmr profile over {0, 2^-10, 2^-5, 1}. CRH: every "
        "selection of 2 (thorough 2..3) pressure nodes x T over {220,262,300} x q = a*q_sat rounded to float32, "
        "a in {1,.5,0}. pressure2height: the level sets of IWV x T over {180.5,250,320}, "
        "T omitted, and one T in {180.5,250,320} as Python int|float, numpy "
        "scalar (int32, int64, float32, float64) or 0-d array (int32, "
        "float32, float64) with p in each of the four dtypes. "
        "standard_atmosphere: 14 whole "
        "heights and 10 whole pressures, each as every scalar form, and all "
        "of them as a 1-D and a 2-D array of each representation. "
        "Non-trivial = integrand not constant (integrate_column), humidity "
        "not identically zero (IWV, CRH), >=3 levels (pressure2height), every "
        "standard_atmosphere case.")
ASSUMPTIONS = [
    "representations: the physics functions document 'float or ndarray' and "
    "do arithmetic on their arguments, so Python lists are fed only to "
    "integrate_column and standard_atmosphere (which hand them to numpy / "
    "scipy); dtypes other than float64, float32, int64, int32 are not fed",
    "a result may be computed in float32 as soon as one argument is float32 "
    "(numpy's promotion): the tolerance of that case is the float64 one with "
    "the unit roundoff 2^-24 in place of 2^-53 (integrate_column stays exact: "
    "its lattice is exact in float32 too); for float32 temperatures the "
    "saturation pressure may be evaluated in float32, whose exponent is a "
    "sum of terms of total magnitude < 256, hence 256 roundoffs of the "
    "representation are added to the relative tolerance of CRH",
    "pressure2height for another representation is compared with typhon's "
    "own result for float64 arrays of the same values (2(n+6) roundoffs of "
    "the top height; 2(n+14) with the default temperature, which costs a "
    "logarithm of p), not with an independent discretisation",
    "integer overflow (int32 products beyond 2^31) is outside the lattice",
]

DTYPES = dict(f8=np.float64, f4=np.float32, i8=np.int64, i4=np.int32)
U32 = Fraction(1, 2 ** 24)
MAXLEV = dict(quick=3, thorough=4)
MAXLEV_CRH = dict(quick=2, thorough=3)

IC_NODES = dict(quick=(0, 1, 3, 7), thorough=(0, 1, 3, 7, 12))
IC_Y = (-1, 0, 1, 3)
IC_DENOMINATORS = ((1, 1), (2, 1), (1, 2))          # of x, of y
VMR = (0.0, 2.0 ** -10, 2.0 ** -5, 1.0)
T_CRH = (220.0, 262.0, 300.0)                        # ice, mixed, liquid
CRH_SCALES = (1.0, 0.5, 0.0)
T_P2H = (180.5, 250.0, 320.0)
ISA_HEIGHTS = (-610, 0, 5000, 11000, 15000, 20000, 26000, 32000, 47000,
               49000, 51000, 61000, 71000, 84852)
ISA_PRESSURES = (108900, 100000, 50000, 22632, 10000, 5000, 1000, 100, 10, 1)
SCALARS = {
    "int": int, "float": float, "i4": np.int32, "i8": np.int64,
    "f4": np.float32, "f8": np.float64,
    "0d-i4": lambda v: np.array(v, dtype=np.int32),
    "0d-f4": lambda v: np.array(v, dtype=np.float32),
    "0d-f8": lambda v: np.array(v, dtype=np.float64),
}


def represent(values, rep):
    """`values` (numbers, nested sequences) in representation `rep`; None if
    they are not exactly representable there."""
    a = np.array(values, dtype=float)
    if rep == "list":
        whole = np.array_equal(a, np.round(a))
        return (a.astype(np.int64) if whole else a).tolist()
    out = a.astype(DTYPES[rep])
    return out if np.array_equal(out.astype(float), a) else None


def scalar(value, form):
    """One number as a scalar form; None if not exactly representable."""
    out = SCALARS[form](value)
    return out if float(out) == value else None


def arguments(values, reps):
    out = [represent(v, r) for v, r in zip(values, reps)]
    return None if any(o is None for o in out) else out


def assignments(nargs, tier, reps=tuple(DTYPES)):
    every = [c for c in itertools.product(reps, repeat=nargs)
             if set(c) != {"f8"}]
    if tier == "thorough":
        return every
    return [c for c in every
            if len(set(c)) == 1 or sum(r != "f8" for r in c) == 1]


def unit(reps):
    return U32 if any("f4" in r for r in reps) else ex.U


def kind(reps):
    return "float32" if any("f4" in r for r in reps) else \
        "list" if "list" in reps else "integer"


# --------------------------------------------------------------------------
# integrate_column
# --------------------------------------------------------------------------

def ic_values(x, y, xden, yden):
    return ([Fraction(v, xden) for v in x], [Fraction(v, yden) for v in y])


def check_ic(x, y, xden, yden, yrep, xrep):
    """xrep None: coordinate omitted (unit spacing)."""
    from typhon.math import integrate_column
    xs, ys = ic_values(x, y, xden, yden)
    if xrep is None:
        xs = list(range(len(y)))
    # three integrands on one grid: y, y reversed, -y
    cols = (ys, ys[::-1], [-v for v in ys])
    refs = [ex.trapezoid(xs, c) for c in cols]
    xa = None if xrep is None else represent(xs, xrep)
    table = np.array(cols, dtype=float)
    for label, ya, axis, want in (
            ("1-D", represent(ys, yrep), 0, refs[0]),
            ("3 columns", represent(table.T, yrep), 0, refs),
            ("3 rows", represent(table, yrep), -1, refs)):
        got = ex.call(integrate_column, ya, xa, axis=axis)
        if np.shape(got) != np.shape(want) or \
                [ex.exact(g) for g in np.ravel(got)] != list(np.ravel(want)):
            return ("integrate_column/wrong-for-%s-input" % kind(
                (yrep, xrep or "f8")), want, got,
                "%s, y as %s, x as %s" % (label, yrep, xrep))
    return None


def ic_cases(tier, sub):
    """All cases on the nodes `sub`, increasing and decreasing."""
    reps = tuple(DTYPES) + ("list",)
    nodes = IC_NODES[tier]
    for xden, yden in IC_DENOMINATORS:
        # representable for every grid / integrand or for none of them
        pairs = [(yrep, xrep) for yrep, xrep
                 in assignments(2, tier, reps) + [(r, None) for r in reps]
                 if represent(ic_values(nodes, IC_Y, xden, yden)[1], yrep)
                 is not None
                 and (xden == 1 if xrep is None else represent(
                     ic_values(nodes, IC_Y, xden, yden)[0], xrep)
                     is not None)]
        for x in (sub, sub[::-1]):
            for y in itertools.product(IC_Y, repeat=len(sub)):
                for yrep, xrep in pairs:
                    yield ("ic", (x, y, xden, yden, yrep, xrep),
                           len(set(y)) > 1)


# --------------------------------------------------------------------------
# integrated water vapour, column relative humidity, pressure2height
# --------------------------------------------------------------------------

def levels(idx):
    return [[nodes[i] for i in idx]
            for nodes in (pr.P_NODES, pr.T_NODES, pr.Z_NODES)]


def check_iwv(idx, vmr, reps):
    """len(reps) = 2: hydrostatic form (vmr, p); 4: general (vmr, p, T, z)."""
    general = len(reps) == 4
    args = arguments(([*vmr], *levels(idx))[:len(reps)], reps)
    ref = (pr.iwv_general_ref if general else pr.iwv_hydrostatic_ref)(
        idx, vmr)
    got = ex.call(pr.atm().integrate_water_vapor, *args)
    if np.ndim(got) or not ex.close(
            got, ref, 2 * (len(idx) + 9) * unit(reps) * ref):
        return ("integrate_water_vapor/wrong-for-%s-input" % kind(reps),
                float(ref), got, "%s form, (vmr, p%s) as %s" % (
                    "general" if general else "hydrostatic",
                    ", T, z" if general else "", ", ".join(reps)))
    return None


def crh_q(idx, temps, a):
    return (a * pr.q_saturated(temps, idx)).astype(np.float32).astype(float)


def check_crh(idx, temps, a, reps):
    args = arguments((crh_q(idx, temps, a), levels(idx)[0], temps), reps)
    got = ex.call(pr.atm().column_relative_humidity, *args)
    tol = (pr.TOL_SAT + 256 * float(unit(reps))) * a
    if np.ndim(got) or not abs(got - a) <= tol:
        return ("column_relative_humidity/wrong-for-%s-input" % kind(reps),
                a, got, "q = %r q_sat, (q, p, T) as %s" % (
                    a, ", ".join(reps)))
    return None


def same_heights(got, base, roundoffs, reps, msg):
    tol = 2 * roundoffs * float(unit(reps)) * abs(base[-1])
    if np.shape(got) != np.shape(base) or \
            not np.all(np.abs(np.asarray(got, dtype=float) - base) <= tol):
        return ("pressure2height/differs-for-%s-input" % kind(reps), base,
                got, msg)
    return None


def check_p2h(idx, temps, reps):
    """temps None: default temperature; reps of (p, T) or of (p,)."""
    p2h = pr.atm().pressure2height
    p = levels(idx)[0]
    values = (p,) if temps is None else (p, temps)
    base = ex.call(p2h, *arguments(values, ("f8",) * len(values)))
    got = ex.call(p2h, *arguments(values, reps))
    return same_heights(got, base, len(idx) + (14 if temps is None else 6),
                        reps, "(p, T) as %s" % ", ".join(reps))


def check_p2h_scalar(idx, t0, prep, form):
    p2h = pr.atm().pressure2height
    p = levels(idx)[0]
    base = ex.call(p2h, represent(p, "f8"), np.full(len(p), t0))
    got = ex.call(p2h, represent(p, prep), scalar(t0, form))
    return same_heights(got, base, len(idx) + 6, (prep, form),
                        "p as %s, T as one %s" % (prep, form))


# --------------------------------------------------------------------------
# standard atmosphere
# --------------------------------------------------------------------------

def isa_reference(value, coordinates, u):
    """-> (temperature, tolerance) from the published table: linear in
    geopotential height (exact) or in ln p (longdouble)."""
    kelvin = [Fraction(t) + Fraction(constants.K) for t in pr.ISA_T]
    if coordinates == "height":
        grid, at = ex.fractions(pr.ISA_H), Fraction(value)
        extra = 0
    else:
        grid = [np.log(pr.LD(p)) for p in pr.ISA_P]
        at = np.log(pr.LD(value))
        kelvin = [pr.LD(float(t)) for t in kelvin]
        # rounding of ln p (twice: there and in the table), carried by the
        # steepest segment
        extra = 4 * float(u) * abs(float(at)) * max(
            abs(float((t1 - t0) / (g1 - g0))) for g0, g1, t0, t1
            in zip(grid, grid[1:], kelvin, kelvin[1:]))
    ascending = grid[0] < grid[-1]
    k = sum((g < at) == ascending for g in grid[1:-1])
    ref = kelvin[k] + (kelvin[k + 1] - kelvin[k]) * (at - grid[k]) / (
        grid[k + 1] - grid[k])
    return float(ref), 8 * float(u) * float(ref) + extra


def isa_lattice(coordinates):
    return ISA_HEIGHTS if coordinates == "height" else ISA_PRESSURES


def check_isa(coordinates, form, which):
    """which: index into the lattice (scalar forms) or "1d" | "2d" (the whole
    lattice as an array / list of representation `form`)."""
    lattice = isa_lattice(coordinates)
    if isinstance(which, int):
        values, arg = [lattice[which]], scalar(lattice[which], form)
    else:
        values = list(lattice)
        arg = represent(values if which == "1d" else
                        np.reshape(values, (-1, 2)), form)
    got = ex.call(pr.atm().standard_atmosphere, arg, coordinates=coordinates)
    if np.shape(got) != np.shape(arg):
        return ("standard_atmosphere/result-shape", np.shape(arg),
                np.shape(got), form)
    for value, g in zip(values, np.ravel(got)):
        ref, tol = isa_reference(value, coordinates, unit((form,)))
        if not abs(float(g) - ref) <= tol:
            return ("standard_atmosphere/wrong-for-%s-input" % kind((form,)),
                    ref, got, "%s %r as %s" % (coordinates, value, form))
    return None


# --------------------------------------------------------------------------
# shards
# --------------------------------------------------------------------------

CHECKS = dict(ic=check_ic, iwv=check_iwv, crh=check_crh, p2h=check_p2h,
              p2h_scalar=check_p2h_scalar, isa=check_isa)


def shards(tier):
    return [("repr", "ic", tier, sub) for n in range(2, MAXLEV[tier] + 1)
            for sub in itertools.combinations(IC_NODES[tier], n)] + [
        ("repr", "iwv", tier, idx) for idx in pr.level_sets(MAXLEV[tier])] + [
        ("repr", part, tier) for part in ("crh", "p2h", "isa")]


def cases(shard):
    """-> (check name, args, non-trivial) for every case of the shard."""
    part, tier = shard[1], shard[2]
    if part == "ic":
        yield from ic_cases(tier, shard[3])
    elif part == "iwv":
        idx = shard[3]
        for vmr in itertools.product(VMR, repeat=len(idx)):
            for nargs in (2, 4):
                for reps in assignments(nargs, tier):
                    if arguments(([*vmr], *levels(idx))[:nargs], reps):
                        yield "iwv", (idx, vmr, reps), any(vmr)
    elif part == "crh":
        for idx in pr.level_sets(MAXLEV_CRH[tier]):
            for temps in itertools.product(T_CRH, repeat=len(idx)):
                for a in CRH_SCALES:
                    for reps in assignments(3, tier):
                        if arguments((crh_q(idx, temps, a), levels(idx)[0],
                                      temps), reps):
                            yield "crh", (idx, temps, a, reps), a > 0
    elif part == "p2h":
        for idx in pr.level_sets(MAXLEV[tier]):
            for reps in assignments(1, tier):
                yield "p2h", (idx, None, reps), len(idx) >= 3
            for temps in itertools.product(T_P2H, repeat=len(idx)):
                for reps in assignments(2, tier):
                    if arguments((levels(idx)[0], temps), reps):
                        yield "p2h", (idx, temps, reps), len(idx) >= 3
            for t0, prep, form in itertools.product(T_P2H, DTYPES, SCALARS):
                if scalar(t0, form) is not None:
                    yield ("p2h_scalar", (idx, t0, prep, form),
                           len(idx) >= 3)
    elif part == "isa":
        for coordinates in ("height", "pressure"):
            for which in range(len(isa_lattice(coordinates))):
                for form in SCALARS:
                    yield "isa", (coordinates, form, which), True
            for which in ("1d", "2d"):
                for form in tuple(DTYPES) + ("list",):
                    yield "isa", (coordinates, form, which), True


def run_check(name, args):
    try:
        return CHECKS[name](*args)
    except ex.Raised as e:
        return (e.key, None, e.text, "")


def detuple(a):
    return tuple(detuple(v) for v in a) if isinstance(a, list) else a


def run_case(case):
    return run_check(case["check"], detuple(case["args"]))


def run_shard(shard):
    res = driver.ShardResult()
    case = None
    for name, args, nontrivial in cases(shard):
        case = dict(part="repr", check=name, args=args)
        res.case(nontrivial=nontrivial)
        res.count("repr_cases_" + name)
        bad = run_check(name, args)
        if bad is not None:
            again = run_check(name, args)
            if again is None or again[0] != bad[0]:
                res.error("NONDETERMINISM in %r" % (case,))
            res.violation(bad[0], case, bad[1], bad[2], bad[3])
    res.sample(case)
    return res
