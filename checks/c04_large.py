"""C04, large part: the temporally pre-binned search (taken by collocate()
when time1.size * time2.size > 10**6), driven from c04_collocate.py.

Small cores are embedded in 1001 x 1000 deterministic filler points that are
far away from the cores and from each other's side and spread over many time
bins (one side one point per second, the other side unevenly with duplicate
seconds) with a gap of empty bins, plus 10 points per side without a position
(NaN latitude or longitude) before, between and after the cores, so that the
indices of the binned search are not the indices of the datasets. A spy on
Collocator.spatial_search_with_temporal_binning asserts that the binned path
was really taken (otherwise harness error). The Collocator of every case is
then reused for a direct search of the two cores alone.
"""
import itertools

from mc import driver
from checks import c04_model as model

RULE = ("large: cores = every pair of sequences of length 1..2 over 6 core "
        "points (3 km apart, seconds 8, 12, 18, 22 around the bin edges and "
        "10, 20 exactly on bin labels = candidate-window ends; quick: length "
        "1, plus on one side every length-2 sequence holding an on-label "
        "point) embedded in 1001 x 1000 filler points "
        "(either side the larger one) and 10 x 10 points with NaN latitude "
        "or longitude (seconds -650 .. 450, four of them at seconds 9 and 11 "
        "inside the cores), the cores lying in the middle of / "
        "before / after the filler's time range (quick: middle, before), x "
        "bin_factor 1, 2, 0.5 and, in the middle placement (thorough), "
        "identity and (0 1) shuffles, leaf_size 1 and magnitude_factor 1; in "
        "the middle placement with a single point on both sides, the "
        "primary's on a bin label (thorough: a single point on at least one "
        "side), also the primary's time in seconds, the "
        "secondary's in milliseconds, and max_interval '2 days' (bins of two "
        "days). "
        "After each of these calls the same Collocator collocates the two "
        "cores alone (direct path, default configuration; one more "
        "evaluation).")

# Seconds 10 and 20 are exact bin labels (EPOCH is 10 s before midnight, bins
# are aligned to midnight): a point exactly on a label is also exactly on the
# end of the candidate window (label - max_interval) of the next bin.
CORE = {"U": (8, 10.0, 0.0), "V": (12, 10.027, 0.0), "W": (18, 10.0, 0.0),
        "A": (10, 10.0, 0.0), "B": (20, 10.027, 0.0), "C": (22, 10.0, 0.0)}
ON_LABEL = "AB"
PLACEMENTS = ("middle", "first", "last")
BIN_CONFIGS = (dict(bin=1), dict(bin=2), dict(bin=0.5))
MORE_CONFIGS = (dict(shuffle="id"), dict(shuffle="t1"), dict(leaf=1),
                dict(mf=1))
SHORT_CORE_CONFIGS = (dict(unit1="s"), dict(unit2="ms"),
                      dict(thr="2days-str"))
# (second, lat, lon) of the points without a position
NANS = tuple((sec, (model.NAN, 10.0)[k % 2], (0.0, model.NAN)[k % 2])
             for k, sec in enumerate(
                 (-650, -350, -50, 9, 9, 11, 11, 15, 150, 450)))


def core_sequences(maxlen, with_label_pairs=False):
    """All sequences up to maxlen; with_label_pairs adds the sequences of
    length 2 that contain a point exactly on a bin label (quick tier)."""
    for n in range(1, maxlen + 1):
        for s in itertools.product(sorted(CORE), repeat=n):
            yield "".join(s)
    if with_label_pairs and maxlen < 2:
        for s in itertools.product(sorted(CORE), repeat=2):
            if set(s) & set(ON_LABEL):
                yield "".join(s)


def shards(tier):
    quick = tier == "quick"
    return [("large", tier, (placement, bigger, core1))
            for placement in (PLACEMENTS[:2] if quick else PLACEMENTS)
            for bigger in (1, 2)
            for core1 in core_sequences(1 if quick else 2,
                                        quick and placement == "middle")]


def filler(n, id0, lat, placement, split):
    """n points in scrambled time order on two stretches of 500 s (the first
    `split` points on one, the rest on the other) separated by at least 100 s
    of empty bins. Both sides get the same stretches, so that the common time
    period keeps every point, but different splits, so that the cores have
    different positions in the two time-sorted datasets."""
    out = []
    for k in range(n):
        j = (9 * k) % n                     # 9 is coprime to 1000 and 1001
        x = (j * 500) // split if j < split else \
            ((j - split) * 500) // (n - split)
        if placement == "first":            # cores before all filler
            sec = (100 if j < split else 700) + x
        elif placement == "last":
            sec = (-100 if j < split else -700) - x
        else:
            sec = -100 - x if j < split else 120 + x
        out.append((id0 + j, sec, lat, -170.0 + 0.34 * j))
    return out


def core_points(core, id0):
    return [(id0 + i,) + CORE[c] for i, c in enumerate(core)]


_filler_pairs = {}


def case_points(placement, bigger, core1, core2, thr):
    """-> (points 1, points 2, expected pairs)"""
    metres, seconds = model.THRESHOLDS[thr][2:]
    n1, n2 = (1001, 1000) if bigger == 1 else (1000, 1001)
    f1 = filler(n1, 10000, -60.0, placement, n1 // 2)
    f2 = filler(n2, 20000, 60.0, placement, n2 // 4)
    key = (placement, bigger, metres)
    if key not in _filler_pairs:        # 10^6 chords: once per process
        _filler_pairs[key] = model.expected(f1, f2, metres, float("inf"))
    c1, c2 = core_points(core1, 100), core_points(core2, 200)
    exp = {k: v for k, v in _filler_pairs[key].items() if v[0] < seconds}
    exp.update(model.expected(c1, c2 + f2, metres, seconds))
    exp.update(model.expected(f1, c2, metres, seconds))
    nans1 = [(30000 + k,) + p for k, p in enumerate(NANS)]
    nans2 = [(40000 + k,) + p for k, p in enumerate(NANS)]
    return c1 + nans1 + f1, c2 + nans2 + f2, exp


def follow_up(collocator, core1, core2):
    """The Collocator that just did a binned search collocates the cores
    alone -> (non-trivial, None or finding)"""
    from typhon.collocations import Collocator
    ds1, pts1, _ = model.build(("X", core_points(core1, 100)), None, "obs")
    ds2, pts2, _ = model.build(("X", core_points(core2, 200)), None, "spot")
    exp = model.expected(pts1, pts2, *model.THRESHOLDS["num"][2:])
    bad = model.judge(model.call(collocator, ds1, ds2, model.DEFAULT),
                      pts1, pts2, exp)
    if bad is not None and model.judge(
            model.call(Collocator(), ds1, ds2, model.DEFAULT),
            pts1, pts2, exp) is None:
        bad = ("history/direct-search-after-binned-search-differs-from-"
               "fresh-collocator", bad[1], bad[2], bad[0] + " " + bad[3])
    return bool(exp), bad


def evaluate(placement, bigger, core1, core2, changes):
    """-> (binned path taken, (non-trivial, None or finding) of the binned
    search, the same of the direct search that follows it)"""
    from typhon.collocations import Collocator
    cfg = dict(model.DEFAULT, **changes)
    pts1, pts2, exp = case_points(placement, bigger, core1, core2,
                                  cfg["thr"])
    ds1, _, _ = model.build(("X", pts1), None, "obs", cfg["unit1"])
    ds2, _, _ = model.build(("X", pts2), None, "spot", cfg["unit2"])
    collocator = Collocator()
    binned = collocator.spatial_search_with_temporal_binning
    taken = []

    def spy(*args, **kwargs):
        taken.append(1)
        return binned(*args, **kwargs)
    collocator.spatial_search_with_temporal_binning = spy
    obs = model.call(collocator, ds1, ds2, cfg)
    del collocator.spatial_search_with_temporal_binning
    return bool(taken), (bool(exp), model.judge(obs, pts1, pts2, exp)), \
        follow_up(collocator, core1, core2)


def run_shard(shard):
    _, tier, (placement, bigger, core1) = shard
    quick = tier == "quick"
    model.install_seam()
    res = driver.ShardResult()
    last = None
    # quick: a longer core (with an on-label point) on either side, the other
    # side a single point
    for core2 in core_sequences(1 if quick else 2,
                                quick and placement == "middle"
                                and len(core1) == 1):
        configs = BIN_CONFIGS
        singles = (len(core1), len(core2)).count(1)
        if placement == "middle" and not quick:
            configs += MORE_CONFIGS
        if placement == "middle" and (
                singles == 2 and core1 in ON_LABEL if quick else singles):
            configs += SHORT_CORE_CONFIGS
        for changes in configs:
            taken, binned, direct = evaluate(placement, bigger, core1,
                                             core2, changes)
            last = dict(part="large", placement=placement, bigger=bigger,
                        core1=core1, core2=core2, changes=changes)
            # (a search that goes wrong before it gets there is a violation)
            if not taken and binned[1] is None:
                res.error("binned path not taken: %r" % (last,))
            again = None
            for name, (nontrivial, bad) in (("large", binned),
                                            ("large_follow_up", direct)):
                res.case(nontrivial=nontrivial)
                res.count("calls_" + name)
                if bad is not None:
                    again = again or evaluate(placement, bigger, core1,
                                              core2, changes)
                    if bad not in (again[1][1], again[2][1]):
                        res.error("NONDETERMINISM in %r" % (last,))
                    res.violation(bad[0], last, bad[1], bad[2], bad[3])
    res.sample(last)
    return res


def replay(case):
    model.install_seam()
    taken, (_, bad), (_, later) = evaluate(
        case["placement"], case["bigger"], case["core1"], case["core2"],
        case["changes"])
    bad = bad or later
    if bad is None:
        return dict(ok=True, binned_path_taken=taken)
    return dict(ok=False, key=bad[0], expected=bad[1], observed=bad[2],
                msg=bad[3], binned_path_taken=taken)
