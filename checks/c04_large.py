"""C04, large part: the temporally pre-binned search (taken by collocate()
when time1.size * time2.size > 10**6), driven from c04_collocate.py.

Small cores are embedded in 1001 x 1000 deterministic filler points that are
far away from the cores and from each other's side and spread over many time
bins (one side one point per second, the other side unevenly with duplicate
seconds) with a gap of empty bins. A spy on
Collocator.spatial_search_with_temporal_binning asserts that the binned path
was really taken (otherwise harness error).
"""
import itertools

from mc import driver
from checks import c04_model as model

RULE = ("large: cores = every pair of sequences of length 1..2 over 6 core "
        "points (3 km apart, seconds 8, 12, 18, 22 around the bin edges and "
        "10, 20 exactly on bin labels = candidate-window ends; quick: length "
        "1, plus on one side every length-2 sequence holding an on-label "
        "point) embedded in 1001 x 1000 filler points "
        "(either side the larger one), the cores lying in the middle of / "
        "before / after the filler's time range (quick: middle, before), x "
        "bin_factor 1, 2, 0.5 and, in the middle placement (thorough), "
        "identity and (0 1) shuffles, leaf_size 1 and magnitude_factor 1.")

# Seconds 10 and 20 are exact bin labels (EPOCH is 10 s before midnight, bins
# are aligned to midnight): a point exactly on a label is also exactly on the
# end of the candidate window (label - max_interval) of the next bin.
CORE = {"U": (8, 10.0, 0.0), "V": (12, 10.027, 0.0), "W": (18, 10.0, 0.0),
        "A": (10, 10.0, 0.0), "B": (20, 10.027, 0.0), "C": (22, 10.0, 0.0)}
ON_LABEL = "AB"
PLACEMENTS = ("middle", "first", "last")
BIN_CONFIGS = (dict(bin=1), dict(bin=2), dict(bin=0.5))
MORE_CONFIGS = (dict(shuffle="id"), dict(shuffle="t1"), dict(leaf=1),
                dict(mf=1))


def core_sequences(maxlen, with_label_pairs=False):
    """All sequences up to maxlen; with_label_pairs adds the sequences of
    length 2 that contain a point exactly on a bin label (quick tier)."""
    for n in range(1, maxlen + 1):
        for s in itertools.product(sorted(CORE), repeat=n):
            yield "".join(s)
    if with_label_pairs and maxlen < 2:
        for s in itertools.product(sorted(CORE), repeat=2):
            if set(s) & set(ON_LABEL):
                yield "".join(s)


def shards(tier):
    quick = tier == "quick"
    return [("large", tier, (placement, bigger, core1))
            for placement in (PLACEMENTS[:2] if quick else PLACEMENTS)
            for bigger in (1, 2)
            for core1 in core_sequences(1 if quick else 2,
                                        quick and placement == "middle")]


def filler(n, id0, lat, placement, split):
    """n points in scrambled time order on two stretches of 500 s (the first
    `split` points on one, the rest on the other) separated by at least 100 s
    of empty bins. Both sides get the same stretches, so that the common time
    period keeps every point, but different splits, so that the cores have
    different positions in the two time-sorted datasets."""
    out = []
    for k in range(n):
        j = (9 * k) % n                     # 9 is coprime to 1000 and 1001
        x = (j * 500) // split if j < split else \
            ((j - split) * 500) // (n - split)
        if placement == "first":            # cores before all filler
            sec = (100 if j < split else 700) + x
        elif placement == "last":
            sec = (-100 if j < split else -700) - x
        else:
            sec = -100 - x if j < split else 120 + x
        out.append((id0 + j, sec, lat, -170.0 + 0.34 * j))
    return out


def core_points(core, id0):
    return [(id0 + i,) + CORE[c] for i, c in enumerate(core)]


_filler_pairs = {}


def case_points(placement, bigger, core1, core2):
    """-> (points 1, points 2, expected pairs)"""
    n1, n2 = (1001, 1000) if bigger == 1 else (1000, 1001)
    f1 = filler(n1, 10000, -60.0, placement, n1 // 2)
    f2 = filler(n2, 20000, 60.0, placement, n2 // 4)
    key = (placement, bigger)
    if key not in _filler_pairs:
        _filler_pairs[key] = model.expected(f1, f2, 5000, 10)
    c1, c2 = core_points(core1, 100), core_points(core2, 200)
    exp = dict(_filler_pairs[key])
    exp.update(model.expected(c1, c2 + f2, 5000, 10))
    exp.update(model.expected(f1, c2, 5000, 10))
    return c1 + f1, c2 + f2, exp


def evaluate(placement, bigger, core1, core2, changes):
    """-> (binned path taken, non-trivial, None or finding)"""
    from typhon.collocations import Collocator
    pts1, pts2, exp = case_points(placement, bigger, core1, core2)
    ds1, _ = model.build(("X", pts1), None, "obs")
    ds2, _ = model.build(("X", pts2), None, "spot")
    collocator = Collocator()
    binned = collocator.spatial_search_with_temporal_binning
    taken = []

    def spy(*args, **kwargs):
        taken.append(1)
        return binned(*args, **kwargs)
    collocator.spatial_search_with_temporal_binning = spy
    obs = model.call(collocator, ds1, ds2, dict(model.DEFAULT, **changes))
    return bool(taken), bool(exp), model.judge(obs, pts1, pts2, exp)


def run_shard(shard):
    _, tier, (placement, bigger, core1) = shard
    quick = tier == "quick"
    model.install_seam()
    res = driver.ShardResult()
    configs = BIN_CONFIGS + (
        MORE_CONFIGS if placement == "middle" and not quick else ())
    last = None
    # quick: a longer core (with an on-label point) on either side, the other
    # side a single point
    for core2 in core_sequences(1 if quick else 2,
                                quick and placement == "middle"
                                and len(core1) == 1):
        for changes in configs:
            taken, nontrivial, bad = evaluate(placement, bigger, core1,
                                              core2, changes)
            last = dict(part="large", placement=placement, bigger=bigger,
                        core1=core1, core2=core2, changes=changes)
            if not taken:
                res.error("binned path not taken: %r" % (last,))
            res.case(nontrivial=nontrivial)
            res.count("calls_large")
            if bad is not None:
                if evaluate(placement, bigger, core1, core2,
                            changes)[2] != bad:
                    res.error("NONDETERMINISM in %r" % (last,))
                res.violation(bad[0], last, bad[1], bad[2], bad[3])
    res.sample(last)
    return res


def replay(case):
    model.install_seam()
    taken, _, bad = evaluate(case["placement"], case["bigger"],
                             case["core1"], case["core2"], case["changes"])
    if bad is None:
        return dict(ok=True, binned_path_taken=taken)
    return dict(ok=False, key=bad[0], expected=bad[1], observed=bad[2],
                msg=bad[3], binned_path_taken=taken)
