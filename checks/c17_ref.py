"""C17 reference algebra (no typhon; no LAPACK in any reference value).

One Gaussian elimination runs on numpy arrays whose entries are either
fractions.Fraction (dtype=object; exact) or numpy.longdouble (64-bit
mantissa). Float64 inputs are lifted into the field without rounding, so the
exact reference is the exact value of the OEM formulas for the very numbers
typhon received. Only the scale factors of the tolerances (2-norms of float64
copies of the reference matrices) come from numpy.linalg.
"""
import math
from fractions import Fraction

import numpy as np

U = 2.0 ** -53      # unit round-off of the arithmetic under test


class Field:
    def __init__(self, exact):
        self.exact = exact
        self.eps = 0.0 if exact else float(np.finfo(np.longdouble).eps)

    def lift(self, a):
        a = np.asarray(a, dtype=np.float64)
        if not self.exact:
            return a.astype(np.longdouble)
        out = np.empty(a.shape, dtype=object)
        for idx, v in np.ndenumerate(a):
            out[idx] = Fraction(float(v))
        return out

    def eye(self, n):
        return self.lift(np.eye(n))

    def scalar(self, x):
        return Fraction(x) if self.exact else np.longdouble(x)


def inverse(fld, m):
    """Gaussian elimination with partial pivoting on [m | I], then back
    substitution of all columns at once."""
    n = len(m)
    a = np.concatenate([m, fld.eye(n)], axis=1)
    for c in range(n):
        p = c + max(range(n - c), key=lambda r: abs(a[c + r, c]))
        if a[p, c] == 0:
            raise ZeroDivisionError("singular matrix in the reference")
        if p != c:
            a[[c, p]] = a[[p, c]]
        if c + 1 < n:
            a[c + 1:] = a[c + 1:] - np.outer(a[c + 1:, c] / a[c, c], a[c])
    u, x = a[:, :n], a[:, n:]
    for r in range(n - 1, -1, -1):
        x[r] = (x[r] - u[r, r + 1:] @ x[r + 1:]) / u[r, r]
    return x


def fro2(d):
    """Squared Frobenius norm, in the field."""
    return (d * d).sum()


def fro(d):
    return math.sqrt(float(fro2(d)))


def within(fld, d, tol):
    """||d||_F <= tol, decided in the field (no square root)."""
    return fro2(d) <= fld.scalar(tol) ** 2


def is_pd(m):
    """Symmetric m is positive definite <=> all pivots of the elimination
    without pivoting are positive (exact in the Fraction field)."""
    a = m.copy()
    n = len(a)
    for c in range(n):
        if not a[c, c] > 0:
            return False
        if c + 1 < n:
            a[c + 1:, c + 1:] = a[c + 1:, c + 1:] - np.outer(
                a[c + 1:, c], a[c, c + 1:]) / a[c, c]
    return True


def exact_rank(a):
    """Rank of a float64 matrix, by Fraction row elimination."""
    rows = [[Fraction(float(v)) for v in r] for r in np.asarray(a)]
    ncols = len(rows[0])
    rank = 0
    for c in range(ncols):
        p = next((i for i in range(rank, len(rows)) if rows[i][c] != 0), None)
        if p is None:
            continue
        rows[rank], rows[p] = rows[p], rows[rank]
        piv = rows[rank]
        for i in range(rank + 1, len(rows)):
            if rows[i][c] != 0:
                f = rows[i][c] / piv[c]
                rows[i] = [x - f * y for x, y in zip(rows[i], piv)]
        rank += 1
        if rank == len(rows):
            break
    return rank


class Reference:
    """All OEM quantities of the statement for one (K, S_a, S_y), the
    conditioning-based tolerances for their float64 evaluation, and the
    harness' own consistency findings (self.problems, must stay empty)."""

    def __init__(self, fld, K, Sa, Sy, full_column_rank):
        self.fld = fld
        m, n = K.shape
        self.n, self.m = n, m
        K, Sa, Sy = fld.lift(K), fld.lift(Sa), fld.lift(Sy)
        self.K, self.Sa, self.Sy = K, Sa, Sy
        self.iSa, self.iSy = inverse(fld, Sa), inverse(fld, Sy)
        self.P = K.T @ self.iSy @ K
        self.M = self.P + self.iSa
        self.S = inverse(fld, self.M)                       # n-form
        self.G = self.S @ K.T @ self.iSy                    # n-form
        self.W = K @ Sa @ K.T + Sy
        self.iW = inverse(fld, self.W)
        self.Gm = Sa @ K.T @ self.iW                        # m-form
        self.A = self.G @ K
        self.iP = inverse(fld, self.P) if full_column_rank else None
        self._tolerances()
        self._selfcheck()

    def _tolerances(self):
        """First-order forward error bounds (Frobenius norm) of a float64
        evaluation of inv(K^T inv(S_y) K + inv(S_a)) and S K^T inv(S_y),
        under the usual model: every inversion returns X^-1 with relative
        error c cond_2(X), every product adds c times the product of the
        absolute values; c = 8 max(n, m) u covers the length of the inner
        products and of the elimination. With dM the error of
        M = P + S_a^-1: dS = -S dM S + (error of the last inversion).
        Norms are taken of float64 copies of the reference matrices."""
        def f64(x):
            return np.asarray(x, dtype=np.float64)

        def n2(x):
            return float(np.linalg.norm(x, 2)) if x.size else 0.0

        def nf(x):
            return float(np.linalg.norm(x))
        c = 8 * max(self.n, self.m) * U
        K, Sa, iSa, Sy, iSy, M, S, G = (f64(x) for x in (
            self.K, self.Sa, self.iSa, self.Sy, self.iSy, self.M, self.S,
            self.G))
        e_iSa = c * n2(Sa) * n2(iSa) * nf(iSa)
        e_iSy = c * n2(Sy) * n2(iSy) * nf(iSy)
        e_rnd = c * nf(abs(K.T) @ abs(iSy) @ abs(K)) + U * nf(M)
        sk, s2 = n2(S @ K.T), n2(S)
        self.first_order = sk * n2(K) * e_iSy + s2 * (e_iSa + e_rnd)
        e_inv = c * n2(M) * s2 * nf(S)
        self.tol_S = 2 * (sk * sk * e_iSy + s2 * s2 * (e_iSa + e_rnd)) \
            + e_inv
        self.tol_G = 2 * (sk * e_iSy * n2(K @ G)
                          + s2 * (e_iSa + e_rnd) * nf(G)) \
            + e_inv * n2(K.T @ iSy) + sk * e_iSy \
            + c * nf(abs(S) @ abs(K.T) @ abs(iSy))
        # the measurement-space form S_a K^T (K S_a K^T + S_y)^-1 is an
        # equally legitimate evaluation of the gain: grant its error too
        W, iW = f64(self.W), f64(self.iW)
        e_W = c * nf(abs(K) @ abs(Sa) @ abs(K.T)) + U * nf(Sy)
        tol_Gm = c * n2(W) * n2(iW) * n2(Sa @ K.T) * nf(iW) \
            + 2 * n2(G) * n2(iW) * e_W \
            + c * nf(abs(Sa) @ abs(K.T) @ abs(iW))
        self.tol_G += tol_Gm
        self.tol_A = self.tol_G * n2(K) + c * nf(abs(G) @ abs(K))
        self.c = c
        self.cond_M = n2(M) * s2
        # the same model, scaled to its precision, bounds the error of the
        # reference's own longdouble evaluation of either form
        ratio = self.fld.eps / U
        self.ref_err_G = ratio * self.tol_G
        self.tol_S *= 1 + ratio
        self.tol_G *= 1 + ratio
        self.tol_A *= 1 + ratio

    def _selfcheck(self):
        fld, n, m = self.fld, self.n, self.m
        self.problems = []
        if fld.exact:
            S_m = self.Sa - self.Gm @ self.K @ self.Sa      # m-form of S
            A_2 = fld.eye(n) - self.S @ self.iSa
            if not (np.all(self.M @ self.S == fld.eye(n))
                    and np.all(self.W @ self.iW == fld.eye(m))):
                self.problems.append("exact inverse is not an inverse")
            if not (np.all(self.G == self.Gm) and np.all(S_m == self.S)
                    and np.all(A_2 == self.A)):
                self.problems.append("exact n-form and m-form differ")
            return
        if fro(self.G - self.Gm) > self.ref_err_G:
            self.problems.append(
                "longdouble n-form and m-form gains differ by %.3g, "
                "error model allows %.3g" % (fro(self.G - self.Gm),
                                             self.ref_err_G))
        if fro(self.M @ self.S - fld.eye(n)) > 8 * n * fld.eps * self.cond_M:
            self.problems.append("longdouble residual of S too large")
