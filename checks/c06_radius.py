"""C06, part "radius": the ways a radius can be written (driven from
c06_geoindex.py).

Two build points 3 m apart on a meridian and a query point on the first one:
the radius is written just above and just below that distance, so that the
number in front of 'km' and 'mi' is far below 1, as a string in every unit
name, in other number spellings and with other blanks, and as a numpy scalar.
Each is judged against the same length given as a Python number of km."""
import itertools

import numpy as np

from checks import c06_model as model

RULE = ("Radius part: build arrays = the sequences of length 1..2 over two "
        "positions 3.0056 m apart on a meridian that contain the second one, "
        "x the 9 configurations x shuffle off / every permutation, one query "
        "point on the first position; radii 4e-7 (relative) above and below "
        "the 3.0056 m (0.00300561 / 0.0030056076 km), written as Python "
        "float, numpy.float64, numpy.float32, as a string in each of the 19 "
        "unit names and as a bare number string, in 4 other number "
        "spellings and without a blank (km, m, miles), with leading, "
        "trailing, several blanks and a tab (km, m); and 5 km as int, "
        "numpy.int64, numpy.int32, numpy.float64.")

BUILD_POS = [(10.0, 20.0), (10.000027, 20.0)]
QLAT, QLON = np.array([10.0]), np.array([20.0])
TWINS = [0.00300561, 0.0030056076]
NUMBERS = [("float", km, km) for km in TWINS + [5]]
BUILDS = [(1,), (0, 1), (1, 0), (1, 1)]

DIST = model.distance_matrices(*zip(*BUILD_POS), QLAT, QLON)


def spellings():
    """[(kind, value, the same length as a Python number of km)]; kind 'str'
    or the name of a numpy scalar type (NUMBERS: 'float', the number
    itself)."""
    out = []
    for km in TWINS:
        out += [(kind, km, km) for kind in ("float64", "float32")]
        for unit in model.UNIT_KM:
            out.append(("str", model.spelled(repr(km), unit), km))
        for unit in ("km", "m", "miles"):
            number = model.spelled(repr(km), unit).partition(" ")[0]
            for form in model.number_forms(number):
                out.append(("str", form + " " + unit, km))
            out.append(("str", number + unit, km))
        for unit in ("km", "m"):
            number = model.spelled(repr(km), unit).partition(" ")[0]
            out += [("str", form % (number, unit), km) for form in (
                "  %s %s", "%s %s  ", "%s   %s", "%s\t%s")]
    out += [(kind, 5, 5) for kind in ("int64", "int32", "float64")]
    return out


def radius(kind, value):
    return value if kind in ("str", "float") else getattr(np, kind)(value)


def lattice_errors():
    errors = []
    for metric, d in DIST.items():
        if (d <= TWINS[0]).sum() == (d <= TWINS[1]).sum():
            errors.append("no distance between the twin radii (radius part, "
                          "%s)" % metric)
        for kind, value, km in NUMBERS + spellings():
            r = model.radius_km(radius(kind, value))
            # numpy.float32 carries 6e-8 of rounding per operation
            if model.in_band(d, r) or (kind == "float32" and np.any(
                    np.abs(d - r) <= model.LD(2e-7) * r)):
                errors.append("distance in the don't-care band: radius part "
                              "%s %s %r" % (metric, kind, value))
            if ((d <= r) != (d <= model.radius_km(km))).any():
                errors.append("%s %r does not select the pairs of %r km" % (
                    kind, value, km))
    return errors


def shards(tier, seed):
    return [("radius", k) for k in range(len(BUILDS))]


def expected(seq, metric, r):
    d, rk = DIST[metric], model.radius_km(r)
    return {(i, 0): float(d[p, 0]) for i, p in enumerate(seq)
            if d[p, 0] <= rk}


def spelling_key(kind, value):
    if kind == "str":
        return model.unit_key(value)
    return "radius-type/numpy.%s/differs-from-the-same-python-number" % kind


def make_index(seam, case):
    seq = case["build"]
    lat = np.array([BUILD_POS[p][0] for p in seq])
    lon = np.array([BUILD_POS[p][1] for p in seq])
    return model.make_index(seam, lat, lon, case["perm"], case["metric"],
                            case["tree"], case["leaf"])


def query(index, case, r):
    """One query() call -> (expected pairs, None or violation tuple)."""
    metric = case["metric"] or "minkowski"
    exp = expected(case["build"], metric, case["km"])
    return exp, model.evaluate(index, case["perm"], exp, metric, QLAT, QLON,
                               r)[0]


def run(res, seam, shard, replay):
    seq = BUILDS[shard[1]]
    perms = [None] + list(itertools.permutations(range(len(seq))))
    for (metric, tree, leaf), perm in itertools.product(
            model.CONFIGURATIONS, perms):
        case = dict(part="radius", build=seq, perm=perm, metric=metric,
                    tree=tree, leaf=leaf)
        try:
            index = make_index(seam, case)
        except model.SeamNotHit as e:
            res.error(str(e))
            return
        except Exception as e:
            model.reraise_watchdog(e)
            res.violation("build/exception/" + type(e).__name__, case, None,
                          repr(e)[:200])
            continue
        res.count("indexes_built")
        res.count("permutations_imposed", int(perm is not None))
        as_number = {}
        for kind, value, km in NUMBERS + spellings():
            case = dict(case, kind=kind, value=value, km=km)
            exp, bad = query(index, case, radius(kind, value))
            res.case(nontrivial=bool(exp))
            if kind == "float":
                as_number[km] = bad
            else:
                res.count("radius_spellings")
                bad = model.spelling_verdict(bad, as_number[km],
                                             spelling_key(kind, value))
            if bad is not None:
                model.report(res, replay, bad, case)
    res.sample(case)


def replay(seam, case):
    case = dict(case, build=tuple(case["build"]),
                perm=None if case["perm"] is None else tuple(case["perm"]))
    index = make_index(seam, case)
    bad_number = query(index, case, case["km"])[1]
    if case["kind"] == "float":
        return bad_number
    bad = query(index, case, radius(case["kind"], case["value"]))[1]
    return model.spelling_verdict(bad, bad_number,
                                  spelling_key(case["kind"], case["value"]))
