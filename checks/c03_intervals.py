"""C03 - interval queries and file matching (DESIGN.md section 3, C03).

Part 1: IntervalTree. All sequences of <=3 (quick) / <=4 (thorough) closed
intervals over the endpoint line {-2..3}, three numeric types, all query
intervals and points; oracle = nested loops.
Part 2: FileSet.match on harness-built filesets (see c03 match shards).
"""
import datetime as dt
import itertools
import sys

from mc import driver
driver.setup_env()

PROP = "C03"
LEVEL = "exploration"
RULE = ("tree part: every sequence (order matters) of 1..L closed intervals "
        "[a,b], a<=b, a,b in {-2..3} (L=3 quick, 4 thorough) as int, float "
        "(x0.5) and datetime (L<=3), each queried with all 21 intervals + 3 "
        "extreme ones, 13 points, and `in`; match part: all pairs of "
        "populations (<=2 quick / <=3 thorough files from a 7-file pool) x 10 "
        "periods x 7 max_interval values (0 s to 49 h). Non-trivial = stored sequence is "
        "unsorted, nested, duplicated or has a zero endpoint (tree) / at "
        "least one primary has a partner (match); cases are distinct by "
        "construction (enumeration without repetition).")
ASSUMPTIONS = [
    "endpoints are integers, half-integers or whole seconds",
    "numpy.datetime64 arrays are not accepted by IntervalTree at all (dtype "
    "promotion error in the constructor) and are outside the domain; "
    "datetime means datetime.datetime objects",
    "match(): file times are whole seconds (match truncates to seconds)",
]

POINTS = [-2, -1, 0, 1, 2, 3]
INTERVALS = [(a, b) for a in POINTS for b in POINTS if a <= b]   # 21
Q_INTERVALS = INTERVALS + [(-2, 3), (-5, -4), (5, 6), (-9, 9)]
Q_POINTS = POINTS + [-1.5, -0.5, 0.5, 1.5, 2.5] + [-4, 5]
EPOCH = dt.datetime(2020, 2, 29, 23, 59, 58)


def conv(kind):
    if kind == "int":
        return lambda v: v
    if kind == "float":
        return lambda v: v * 0.5
    if kind == "datetime":
        # half values are allowed for points: use 2 s per unit
        return lambda v: EPOCH + dt.timedelta(seconds=2 * v)
    raise ValueError(kind)


def shards(tier, seed):
    maxlen = 3 if tier == "quick" else 4
    out = []
    for kind in ("int", "float", "datetime"):
        for n in range(1, maxlen + 1):
            if kind == "datetime" and n > 3:
                continue
            if n == 1:
                out.append(("tree", kind, n, None))
            else:
                for first in range(len(INTERVALS)):
                    out.append(("tree", kind, n, first))
    from checks import c03_match
    out.extend(c03_match.shards(tier, seed))
    return out


def nontrivial(seq):
    if any(a == 0 or b == 0 for a, b in seq):
        return True
    if list(seq) != sorted(seq):
        return True
    if len(set(seq)) < len(seq):
        return True
    for (a, b), (c, d) in itertools.permutations(seq, 2):
        if a <= c and d <= b:
            return True
    return False


def check_tree(kind, seq):
    """Returns None or (key, expected, observed, msg) for the first failing
    query of this stored sequence."""
    from typhon.trees import IntervalTree
    f = conv(kind)
    stored = [[f(a), f(b)] for a, b in seq]
    try:
        tree = IntervalTree(stored)
    except Exception as e:
        return ("tree/build-exception/" + type(e).__name__, None, repr(e), "")
    # interval queries
    qs = [[f(a), f(b)] for a, b in Q_INTERVALS]
    try:
        got = tree.query(qs)
    except RecursionError as e:
        return ("tree/query-exception/RecursionError", None, repr(e)[:100],
                "")
    except Exception as e:
        return ("tree/query-exception/" + type(e).__name__, None, repr(e), "")
    for (qa, qb), g in zip(Q_INTERVALS, got):
        exp = sorted(i for i, (a, b) in enumerate(seq)
                     if a <= qb and b >= qa)
        if sorted(g) != exp:
            key = "tree/query-" + classify(exp, g)
            return (key, exp, list(g), "query [%s,%s]" % (qa, qb))
        try:
            inside = (f(qa), f(qb)) in tree
        except RecursionError as e:
            return ("tree/contains-exception/RecursionError", None,
                    repr(e)[:100], "")
        except Exception as e:
            return ("tree/contains-exception/" + type(e).__name__, None,
                    repr(e), "")
        if inside != bool(exp):
            return ("tree/contains-interval", bool(exp), inside,
                    "(%s,%s) in tree" % (qa, qb))
    # point queries
    ps = [f(p) for p in Q_POINTS]
    try:
        got = tree.query_points(ps)
    except RecursionError as e:
        return ("tree/points-exception/RecursionError", None, repr(e)[:100],
                "")
    except Exception as e:
        return ("tree/points-exception/" + type(e).__name__, None, repr(e),
                "")
    for p, g in zip(Q_POINTS, got):
        exp = sorted(i for i, (a, b) in enumerate(seq) if a <= p <= b)
        if sorted(g) != exp:
            return ("tree/points-" + classify(exp, g), exp, list(g),
                    "point %s" % p)
        try:
            inside = f(p) in tree
        except RecursionError as e:
            return ("tree/contains-exception/RecursionError", None,
                    repr(e)[:100], "")
        except Exception as e:
            return ("tree/contains-exception/" + type(e).__name__, None,
                    repr(e), "")
        if inside != bool(exp):
            return ("tree/contains-point", bool(exp), inside,
                    "%s in tree" % p)
    return None


def classify(exp, got):
    got_s = sorted(got)
    if len(got_s) != len(set(got_s)):
        return "duplicate-index"
    if set(got_s) - set(exp):
        if set(exp) - set(got_s):
            return "wrong-index"
        return "extra-index"
    return "missing-index"


def run_shard(shard):
    if shard[0] == "match":
        from checks import c03_match
        return c03_match.run_shard(shard)
    _, kind, n, first = shard
    res = driver.ShardResult()
    if first is None:
        seqs = itertools.product(INTERVALS, repeat=n)
    else:
        seqs = ((INTERVALS[first],) + rest
                for rest in itertools.product(INTERVALS, repeat=n - 1))
    for seq in seqs:
        res.case(nontrivial=nontrivial(seq))
        res.count("tree_queries", len(Q_INTERVALS) * 2 + len(Q_POINTS) * 2)
        bad = check_tree(kind, seq)
        if bad is not None:
            key, exp, obs, msg = bad
            again = check_tree(kind, seq)
            if again != bad:
                res.error("NONDETERMINISM in %r %r" % (kind, seq))
            res.violation(key, dict(part="tree", kind=kind, stored=seq),
                          exp, obs, msg)
    res.sample(dict(part="tree", kind=kind, stored=list(seq),
                    queries=len(Q_INTERVALS), points=len(Q_POINTS)))
    return res


def replay(case):
    if case.get("part") == "match":
        from checks import c03_match
        return c03_match.replay(case)
    bad = check_tree(case["kind"], [tuple(x) for x in case["stored"]])
    if bad is None:
        return dict(ok=True)
    return dict(ok=False, key=bad[0], expected=bad[1], observed=bad[2],
                msg=bad[3])


if __name__ == "__main__":
    driver.main(sys.modules[__name__])
