"""C03 - interval queries and file matching (DESIGN.md section 3, C03).

Part 1: IntervalTree. All sequences of <=3 (quick) / <=4 (thorough) closed
intervals over the endpoint line {-2..3}, three numeric types, three
containers, all query intervals and points; oracle = nested loops.
Part 2: FileSet.match on harness-built filesets (checks/c03_match.py).
"""
import datetime as dt
import itertools
import operator
import sys

from mc import driver
driver.setup_env()

import numpy as np                                      # noqa: E402

PROP = "C03"
LEVEL = "exploration"
RULE = ("tree part: every sequence (order matters) of 0..L closed intervals "
        "[a,b], a<=b, a,b in {-2..3} (L=3 quick, 4 thorough) as int, float "
        "(x0.5) and datetime (L<=3), handed over as list of lists; for "
        "sequences of <= L-1 intervals also as list of tuples and as numpy "
        "array (queries and points in the same container); each queried "
        "with all 21 intervals + 3 extreme ones, 13 points, and `in` (list "
        "or tuple). match part: all pairs of populations (<=2 quick / <=3 "
        "thorough files from a 7-file pool) x 10 periods (one of them open "
        "on both sides) x 7 max_interval values (None, 0 s to 49 h, numbers "
        "and strings); for pairs of populations with <= 2 (quick) / 4 "
        "(thorough) files in total also 2 half-open periods x all 12 "
        "max_interval "
        "values and all 12 periods x 5 further max_interval values "
        "(datetime.timedelta, numpy.timedelta64, pandas.Timedelta, 0.5, "
        "3600.5). filters part: all pairs of populations (>=3 files quick / "
        ">=1 thorough) of two 4-file pools holding one period under the "
        "satellite names A, B, C x 3 periods x max_interval {None, 3600} x "
        "filters {None, sat=A, !sat=A} x other_filters {None, sat=B, "
        "!sat=B}. Non-trivial = stored sequence is unsorted, nested, "
        "duplicated or has a zero endpoint (tree) / at least one primary "
        "has a partner that must be reported (match, filters); cases are "
        "distinct by construction (enumeration without repetition).")
ASSUMPTIONS = [
    "endpoints are integers, half-integers or whole seconds",
    "numpy.datetime64 arrays are not accepted by IntervalTree at all (dtype "
    "promotion error in the constructor) and are outside the domain; "
    "datetime means datetime.datetime objects (in an object array for the "
    "numpy container)",
    "`[a, b] in tree` is asked with a list or a tuple; a numpy row is not an "
    "interval for `in` (it is taken for a point)",
    "the empty set of intervals is in the domain: every query and point "
    "finds nothing and nothing is `in` the tree",
    "match(): file times are whole seconds (match truncates to seconds), so "
    "that max_interval 0.5 / 3600.5 match like 0 / 3600 while the period is "
    "widened by the exact value; a side of the period that is not given is "
    "unbounded whatever max_interval is",
    "match(): secondaries that intersect a primary but lie outside the "
    "widened period may or may not be reported; a primary that has only such "
    "partners may or may not be yielded",
    "filters are single letters (no regular-expression syntax; what a filter "
    "matches is C01's subject)",
]

POINTS = [-2, -1, 0, 1, 2, 3]
INTERVALS = [(a, b) for a in POINTS for b in POINTS if a <= b]   # 21
Q_INTERVALS = INTERVALS + [(-2, 3), (-5, -4), (5, 6), (-9, 9)]
Q_POINTS = POINTS + [-1.5, -0.5, 0.5, 1.5, 2.5] + [-4, 5]
EPOCH = dt.datetime(2020, 2, 29, 23, 59, 58)
# how stored intervals, query intervals and query points are handed over:
# lists of lists, lists of tuples, numpy arrays (int64 / float64 / object)
CONTAINERS = ("lists", "tuples", "ndarray")


def conv(kind):
    if kind == "int":
        return lambda v: v
    if kind == "float":
        return lambda v: v * 0.5
    if kind == "datetime":
        # half values are allowed for points: use 2 s per unit
        return lambda v: EPOCH + dt.timedelta(seconds=2 * v)
    raise ValueError(kind)


def shards(tier, seed):
    maxlen = 3 if tier == "quick" else 4
    out = []
    for kind in ("int", "float", "datetime"):
        for container in CONTAINERS:
            for n in range(0, maxlen + 1):
                if n > 3 and kind == "datetime" \
                        or n > maxlen - 1 and container != "lists":
                    continue
                if n < 3:
                    out.append(("tree", kind, n, None, container))
                else:
                    for first in range(len(INTERVALS)):
                        out.append(("tree", kind, n, first, container))
    from checks import c03_match
    out.extend(c03_match.shards(tier, seed))
    return out


def nontrivial(seq):
    if any(a == 0 or b == 0 for a, b in seq):
        return True
    if list(seq) != sorted(seq):
        return True
    if len(set(seq)) < len(seq):
        return True
    for (a, b), (c, d) in itertools.permutations(seq, 2):
        if a <= c and d <= b:
            return True
    return False


def contain(container, rows):
    """The intervals `rows` (lists of two end points) or a flat list of
    points in one of the CONTAINERS."""
    if container == "ndarray":
        arr = np.array(rows)
        return arr.reshape(-1, 2) if not rows or isinstance(rows[0], list) \
            else arr
    if container == "tuples":
        return [tuple(r) if isinstance(r, list) else r for r in rows]
    return rows


def guarded(what, fn, *args):
    """-> (fn(*args), None) or (None, violation) if typhon raises"""
    try:
        return fn(*args), None
    except RecursionError as e:
        return None, ("tree/%s-exception/RecursionError" % what, None,
                      repr(e)[:100], "")
    except Exception as e:
        return None, ("tree/%s-exception/%s" % (what, type(e).__name__),
                      None, repr(e), "")


def check_tree(kind, seq, container="lists"):
    """Returns None or (key, expected, observed, msg) for the first failing
    query of this stored sequence."""
    from typhon.trees import IntervalTree
    f = conv(kind)
    # `[a, b] in tree` takes a list or a tuple; ndarray rows are neither
    pair = list if container == "lists" else tuple
    stored = contain(container, [[f(a), f(b)] for a, b in seq])
    tree, bad = guarded("build" if seq else "empty-set/build",
                        IntervalTree, stored)
    if bad:
        return bad
    # interval queries
    qs = contain(container, [[f(a), f(b)] for a, b in Q_INTERVALS])
    got, bad = guarded("query", tree.query, qs)
    if bad:
        return bad
    if len(got) != len(Q_INTERVALS):
        return ("tree/query-result-count", len(Q_INTERVALS), len(got), "")
    for (qa, qb), g in zip(Q_INTERVALS, got):
        exp = sorted(i for i, (a, b) in enumerate(seq)
                     if a <= qb and b >= qa)
        if sorted(g) != exp:
            key = "tree/query-" + classify(exp, g)
            return (key, exp, list(g), "query [%s,%s]" % (qa, qb))
        inside, bad = guarded("contains", operator.contains, tree,
                              pair((f(qa), f(qb))))
        if bad:
            return bad
        if inside != bool(exp):
            return ("tree/contains-interval", bool(exp), inside,
                    "%s(%s,%s) in tree" % (pair.__name__, qa, qb))
    # point queries
    ps = contain(container, [f(p) for p in Q_POINTS])
    got, bad = guarded("points", tree.query_points, ps)
    if bad:
        return bad
    if len(got) != len(Q_POINTS):
        return ("tree/points-result-count", len(Q_POINTS), len(got), "")
    for p, g in zip(Q_POINTS, got):
        exp = sorted(i for i, (a, b) in enumerate(seq) if a <= p <= b)
        if sorted(g) != exp:
            return ("tree/points-" + classify(exp, g), exp, list(g),
                    "point %s" % p)
        inside, bad = guarded("contains", operator.contains, tree, f(p))
        if bad:
            return bad
        if inside != bool(exp):
            return ("tree/contains-point", bool(exp), inside,
                    "%s in tree" % p)
    return None


def classify(exp, got):
    got_s = sorted(got)
    if len(got_s) != len(set(got_s)):
        return "duplicate-index"
    if set(got_s) - set(exp):
        if set(exp) - set(got_s):
            return "wrong-index"
        return "extra-index"
    return "missing-index"


def run_shard(shard):
    if shard[0] != "tree":
        from checks import c03_match
        return c03_match.run_shard(shard)
    _, kind, n, first, container = shard
    res = driver.ShardResult()
    if first is None:
        seqs = itertools.product(INTERVALS, repeat=n)
    else:
        seqs = ((INTERVALS[first],) + rest
                for rest in itertools.product(INTERVALS, repeat=n - 1))
    for seq in seqs:
        res.case(nontrivial=nontrivial(seq))
        res.count("tree_queries", len(Q_INTERVALS) * 2 + len(Q_POINTS) * 2)
        bad = check_tree(kind, seq, container)
        if bad is not None:
            key, exp, obs, msg = bad
            again = check_tree(kind, seq, container)
            if again != bad:
                res.error("NONDETERMINISM in %r %r" % (kind, seq))
            res.violation(key, dict(part="tree", kind=kind, stored=seq,
                                    container=container), exp, obs, msg)
    res.sample(dict(part="tree", kind=kind, stored=list(seq),
                    container=container, queries=len(Q_INTERVALS),
                    points=len(Q_POINTS)))
    return res


def replay(case):
    if case.get("part") != "tree":
        from checks import c03_match
        return c03_match.replay(case)
    bad = check_tree(case["kind"], [tuple(x) for x in case["stored"]],
                     case.get("container", "lists"))
    if bad is None:
        return dict(ok=True)
    return dict(ok=False, key=bad[0], expected=bad[1], observed=bad[2],
                msg=bad[3])


if __name__ == "__main__":
    driver.main(sys.modules[__name__])
