"""C13 helpers: building compact collocation datasets in the layout of
Collocator._create_return, taking typhon-independent snapshots of them and
the reference model (explicit loops over the pair list) for expand, collapse
and concat_collocations.

Nothing here imports typhon. Snapshots turn every variable into a list of
per-point rows (tuples of plain Python scalars, NaN -> "nan", times -> int
ns) so that all comparisons are done on Python objects.
"""
import collections
import itertools
import math

import numpy as np
import xarray as xr

NAN = float("nan")
T0 = np.datetime64("2020-02-29T23:59:00", "ns")
ALPHABET = (1.0, 2.0, NAN, -3.0)
# row i = value of point (i mod 3) in each of the 4**3 assignments of the
# alphabet to three points: a variable with this table as extra dimension
# carries every value assignment at once.
COMBOS = np.array(list(itertools.product(ALPHABET, repeat=3))).T   # (3, 64)
ID = "id"
SKIPPED_IN_COLLAPSE = ("time", "lat", "lon")
# labels of the "channel" dimension (a coordinate); "combo" and "level" stay
# dimensions without coordinates
CHANNELS = (10, 20)
# tolerance for float statistics, relative to max(1, |expected|): numpy's sums
# over n <= 1300 partners carry an error of about n * 2**-52 ~ 3e-13 relative
# to the largest partner value, i.e. 1e-12 for the unit-sized alphabets; the
# ids (<= 6000) only give statistics > 0.4, and those over few partners are
# exact. Distinct exact results over these alphabets differ by more than 1e-7.
RTOL = 1e-9


# --------------------------------------------------------------------------
# raw per-point variables
# --------------------------------------------------------------------------

def point_variables(n, side, id_base, lat=None, lon=None, secs=None,
                    combos=64, extras=False):
    """Variables of n points of one side as {name: (dims, array)}; the point
    dimension is called "point". side: 0 primary, 1 secondary; combos: how
    many columns of COMBOS the variable "all" carries; extras: also the
    variables of extra_variables()."""
    idx = np.arange(n)
    ids = id_base + idx
    if lat is None:
        lat = (ids % 120) * 0.5 - 30.0
        lon = (ids % 300) * 1.0 - 150.0
        secs = ids * 3
    x = np.array([ALPHABET[(i + 2 * side) % 4] for i in idx])
    cube = np.array([[[ALPHABET[(i + c + 2 * lv + side) % 4]
                       for lv in range(2)] for c in range(2)] for i in idx],
                    dtype=float).reshape(n, 2, 2)
    out = {
        "time": (("point",), T0 + np.asarray(secs).astype("timedelta64[s]")),
        "lat": (("point",), np.asarray(lat, dtype=float)),
        "lon": (("point",), np.asarray(lon, dtype=float)),
        ID: (("point",), ids.astype("int64")),
        "x": (("point",), x),
        "n": (("point",), ((idx * 5 + side) % 7 - 3).astype("int64")),
        "bt": (("point", "channel"),
               np.stack([ids * 0.5, -(idx % 4) * 1.25], axis=1)),
        "tb": (("channel", "point"),
               np.stack([(idx % 3) * 2.0 + side, ids * 0.25], axis=0)),
        "all": (("point", "combo"), COMBOS[(idx + side) % 3, :combos]),
        "Data/cube": (("point", "channel", "level"), cube),
    }
    if extras:
        out.update(extra_variables(n, side, id_base))
    return out


def extra_variables(n, side, id_base):
    """A per-point bool variable and what a file reader adds without the
    point dimension: labels of the channel dimension (a coordinate), a
    per-channel variable, a scalar number and a scalar string; the scalars
    differ between any two id_base."""
    return {
        "flag": (("point",), (np.arange(n) + side) % 3 == 0),
        "channel": (("channel",), np.array(CHANNELS)),
        "freq": (("channel",), np.array([89.0 + side, 150.0])),
        "const": ((), np.array(id_base * 0.5)),
        "__file": ((), np.array("file-%d" % id_base)),
    }


def input_dataset(variables, dim, labels, grid=False):
    """A collocate() input: point dimension `dim` with unique labels, or,
    with grid, every point a scan line of its own with one scan position
    (labels on both dimensions, the time belongs to the scan line)."""
    if not grid:
        return xr.Dataset(
            {name: (tuple(dim if d == "point" else d for d in dims), values)
             for name, (dims, values) in variables.items()},
            coords={dim: np.asarray(labels)})
    data = {}
    for name, (dims, values) in variables.items():
        if "point" in dims and name != "time":
            axis = dims.index("point")
            values = np.expand_dims(values, axis + 1)
            dims = dims[:axis] + ("scnline", "scnpos") + dims[axis + 1:]
        data[name] = (tuple("scnline" if d == "point" else d for d in dims),
                      values)
    return xr.Dataset(data, coords={"scnline": np.asarray(labels),
                                    "scnpos": np.asarray(labels[:1])})


def build_compact(names, prim_vars, sec_vars, pairs, interval_s, distance):
    """The dataset Collocator._create_return would hand out for these stored
    points and this pair list."""
    data = {}
    for name, variables in zip(names, (prim_vars, sec_vars)):
        for var, (dims, values) in variables.items():
            new_dims = tuple(
                name + "/" + ("collocation" if d == "point" else d)
                for d in dims)
            data[name + "/" + var] = (new_dims, np.array(values))
    meta = dict(max_interval="Max. interval in secs: 60.0",
                max_distance="Max. distance in kilometers: 50.0",
                primary=names[0], secondary=names[1])
    per_pair = ("Collocations/collocation",)
    data["Collocations/pairs"] = (
        ("Collocations/group",) + per_pair,
        np.array(pairs, dtype=int).reshape(2, -1), meta)
    data["Collocations/interval"] = (
        per_pair, np.asarray(interval_s).astype("timedelta64[s]"), meta)
    data["Collocations/distance"] = (
        per_pair, np.asarray(distance, dtype=float),
        dict(meta, units="kilometers"))
    ds = xr.Dataset(data, coords={"Collocations/group": (
        ("Collocations/group",), list(names),
        {k: meta[k] for k in ("max_interval", "max_distance")})})
    times = prim_vars["time"][1]
    ds.attrs = {"start_time": str(times.min()), "end_time": str(times.max())}
    return ds


def built_dataset(names, pairs, id_base=0, combos=64, extras=False):
    """Harness-built compact dataset for a compact pair list (list of
    (primary index, secondary index))."""
    rows = list(zip(*pairs))
    n_prim, n_sec = max(rows[0]) + 1, max(rows[1]) + 1
    k = np.arange(len(pairs))
    return build_compact(
        names, point_variables(n_prim, 0, id_base + 100, combos=combos,
                               extras=extras),
        point_variables(n_sec, 1, id_base + 500, combos=combos,
                        extras=extras), rows,
        (k * 7 + 1) % 59, 0.125 * ((k * 11) % 397))


def signature(ds):
    """Structure of a dataset (names, dimensions, dtype kinds, attribute
    names), used to assert that harness-built datasets have the layout of
    real results."""
    return (sorted((str(n), tuple(v.dims), v.dtype.kind, tuple(sorted(v.attrs)))
                   for n, v in ds.variables.items()),
            sorted(map(str, ds.coords)), sorted(ds.attrs))


# --------------------------------------------------------------------------
# snapshots
# --------------------------------------------------------------------------

def scalar(v):
    if isinstance(v, float) and v != v:
        return "nan"
    return v


def rows_of(variable, dim):
    """-> (names of the other dimensions, one tuple of scalars per position
    along `dim`)."""
    dims = list(variable.dims)
    axis = dims.index(dim)
    values = np.moveaxis(np.asarray(variable.values), axis, 0)
    if values.dtype.kind == "M":
        values = values.astype("datetime64[ns]").astype("int64")
    elif values.dtype.kind == "m":
        values = values.astype("timedelta64[ns]").astype("int64")
    values = values.reshape(values.shape[0], -1)
    del dims[axis]
    return tuple(dims), [tuple(scalar(v) for v in row)
                         for row in values.tolist()]


Snapshot = collections.namedtuple(
    "Snapshot", "names pairs groups per_pair constants")
# groups: {group name: {local variable name: (extra dims, rows)}};
# per_pair: {variable name: (extra dims, rows)} for Collocations/interval etc.;
# constants: {group name: {local variable name: (dims, flat values)}} for the
# variables (and coordinates) of a group without its collocation dimension


def flat(variable):
    return tuple(scalar(v) for v in
                 np.asarray(variable.values).reshape(-1).tolist())


def snapshot(ds):
    names = [str(n) for n in ds["Collocations/group"].values.tolist()]
    pairs = ds["Collocations/pairs"].values.tolist()
    groups = {name: {} for name in names}
    constants = {name: {} for name in names}
    per_pair = {}
    for var_name, var in ds.variables.items():
        group, _, local = str(var_name).partition("/")
        if group in groups and group + "/collocation" in var.dims:
            groups[group][local] = rows_of(var, group + "/collocation")
        elif group in groups:
            constants[group][local] = (tuple(var.dims), flat(var))
        elif (group == "Collocations" and local != "pairs"
              and "Collocations/collocation" in var.dims):
            per_pair[str(var_name)] = rows_of(var, "Collocations/collocation")
    return Snapshot(names, pairs, groups, per_pair, constants)


def stored_point_mismatch(snap, side, variables, position=None):
    """None, or (variable, id, input row, stored row) for the first stored
    point of group number `side` that does not carry the values the input
    point with its id has in `variables` (a point_variables() dict; with
    `position` = {id: {name: label}} also that). Only variables the result
    holds under their name and extra dimensions are compared."""
    name = snap.names[side]
    ids = [row[0] for row in snap.groups[name][ID][1]]
    index = {i: k for k, i in enumerate(variables[ID][1].tolist())}
    for local, (extra, stored) in sorted(snap.groups[name].items()):
        if position and local in position[ids[0]]:
            rows = {i: (labels[local],) for i, labels in position.items()}
        elif local in variables and "point" in variables[local][0]:
            dims, values = variables[local]
            wanted = ["point"] + [d.partition("/")[2] for d in extra]
            if sorted(wanted) != sorted(dims):
                continue
            given = rows_of(xr.Variable(dims, values).transpose(*wanted),
                            "point")[1]
            rows = {i: given[k] for i, k in index.items()}
        else:
            continue
        for i, row in zip(ids, stored):
            if rows[i] != row:
                return (name + "/" + local, i, list(rows[i]), list(row))
    return None


def invalid_pairs(snap):
    """None, or a description of how the pair list breaks the invariant
    (valid indices, every stored point in at least one pair)."""
    if len(snap.pairs) != 2 or len(snap.pairs[0]) != len(snap.pairs[1]) \
            or not snap.pairs[0]:
        return "pairs is not a non-empty 2 x N array"
    for name, row in zip(snap.names, snap.pairs):
        size = len(snap.groups[name][ID][1])
        if any(not isinstance(i, int) or i < 0 or i >= size for i in row):
            return "index outside 0..%d in group %s" % (size - 1, name)
        if set(row) != set(range(size)):
            return "stored point of %s without pair" % name
    return None


# --------------------------------------------------------------------------
# reference model
# --------------------------------------------------------------------------

def row_key(entries):
    return tuple(sorted(entries, key=lambda entry: entry[0]))


def expanded_rows(snap):
    """Multiset of the rows expand() has to return: for pair k the values of
    all primary variables at pairs[0][k], of all secondary variables at
    pairs[1][k], the per-pair metadata at k and the values of the variables
    without collocation dimension of this dataset (keyed by variable name)."""
    constants = [(name + "/" + local, values) for name in snap.names
                 for local, (_, values) in snap.constants[name].items()]
    out = collections.Counter()
    for k, (i, j) in enumerate(zip(*snap.pairs)):
        row = list(constants)
        for name, idx in zip(snap.names, (i, j)):
            for local, (_, rows) in snap.groups[name].items():
                row.append((name + "/" + local, rows[idx]))
        for var_name, (_, rows) in snap.per_pair.items():
            row.append((var_name, rows[k]))
        out[row_key(row)] += 1
    return out


def observed_expanded_rows(expanded, snap):
    """Rows of typhon's expanded dataset in the same form; raises Mismatch
    when the structure does not allow that. A variable that has no
    collocation dimension in the compact dataset may come back with or
    without one: either way every row carries its value."""
    if "collocation" not in expanded.dims:
        raise Mismatch("no-collocation-dimension", sorted(expanded.dims))
    size = expanded.sizes["collocation"]
    columns = []
    wanted = [(name + "/" + local, extra, False)
              for name in snap.names
              for local, (extra, _) in snap.groups[name].items()]
    wanted += [(v, extra, False) for v, (extra, _) in snap.per_pair.items()]
    wanted += [(name + "/" + local, dims, True) for name in snap.names
               for local, (dims, _) in snap.constants[name].items()]
    for var_name, extra, constant in wanted:
        if var_name not in expanded.variables:
            raise Mismatch("variable-missing", var_name)
        var = expanded[var_name].variable
        if constant and set(var.dims) == set(extra):
            columns.append((var_name, [flat(var.transpose(*extra))] * size))
            continue
        if "collocation" not in var.dims or \
                set(var.dims) != set(extra) | {"collocation"}:
            raise Mismatch("dimensions-changed", [var_name, list(var.dims)])
        var = var.transpose("collocation", *extra)
        columns.append((var_name, rows_of(var, "collocation")[1]))
    out = collections.Counter()
    for k in range(size):
        out[row_key((v, rows[k]) for v, rows in columns)] += 1
    return out


def differing_variables(expected, observed):
    """Names of the variables whose multisets of row values differ."""
    def columns(rows):
        out = collections.defaultdict(collections.Counter)
        for row, count in rows.items():
            for name, value in row:
                out[name][value] += count
        return out
    exp, obs = columns(expected), columns(observed)
    return sorted(n for n in set(exp) | set(obs) if exp.get(n) != obs.get(n))


class Mismatch(Exception):
    def __init__(self, what, detail=None):
        Exception.__init__(self, what)
        self.what, self.detail = what, detail


KNOWN_STATISTICS = ("mean", "std", "number", "max", "min", "one")


def nan_stats(values):
    """NaN-ignoring mean, population standard deviation, count, maximum."""
    valid = [v for v in values if v != "nan"]
    if not valid:
        return dict(mean=NAN, std=NAN, number=0, max=NAN, min=NAN)
    mean = math.fsum(valid) / len(valid)
    var = math.fsum((v - mean) ** 2 for v in valid) / len(valid)
    return dict(mean=mean, std=math.sqrt(var), number=len(valid),
                max=max(valid), min=min(valid))


def collapsed_reference(snap, ref_side, funcs):
    """{reference id: {"<other>/<var>_<func>": tuple of values}} by loops
    over the pair list."""
    ref, other = snap.names[ref_side], snap.names[1 - ref_side]
    partners = collections.defaultdict(list)
    for r, o in zip(snap.pairs[ref_side], snap.pairs[1 - ref_side]):
        partners[r].append(o)
    ref_ids = snap.groups[ref][ID][1]
    out = {}
    for r, others in partners.items():
        entry = {}
        for local, (_, rows) in snap.groups[other].items():
            if local in SKIPPED_IN_COLLAPSE:
                continue
            width = len(rows[0])
            stats = [nan_stats([rows[o][c] for o in others])
                     for c in range(width)]
            for f in funcs:
                stat = funcs[f] if isinstance(funcs, dict) else f
                if stat == "one":
                    # the values of one of the partners, whichever
                    entry["%s/%s_%s" % (other, local, f)] = OneOf(
                        tuple(rows[o]) for o in others)
                    continue
                entry["%s/%s_%s" % (other, local, f)] = tuple(
                    s[stat] for s in stats)
        out[ref_ids[r][0]] = entry
    return out


class OneOf(list):
    """Expected value: any one of these rows (values as stored in the
    snapshot: NaN is spelled "nan")."""


def same(stored, observed):
    if stored == "nan":
        return observed == "nan"
    return close(stored, observed)


def close(expected, observed):
    if expected != expected:
        return observed == "nan"
    if observed == "nan" or isinstance(observed, str):
        return False
    return abs(observed - expected) <= RTOL * max(1.0, abs(expected))


def compare_collapsed(collapsed, snap, ref_side, funcs):
    """None or (what, expected, observed, msg)."""
    ref, other = snap.names[ref_side], snap.names[1 - ref_side]
    expected = collapsed_reference(snap, ref_side, funcs)
    id_name = ref + "/" + ID
    if "collocation" not in collapsed.dims or \
            id_name not in collapsed.variables or \
            collapsed[id_name].dims != ("collocation",):
        return ("reference-rows-missing", sorted(expected),
                sorted(map(str, collapsed.variables)), id_name)
    ids = collapsed[id_name].values.tolist()
    if sorted(ids) != sorted(expected):
        return ("rows-not-one-per-reference-point", sorted(expected), ids,
                "reference ids of the rows")
    bad = compare_reference_rows(collapsed, snap, ref, ids) or \
        compare_constants(collapsed, snap)
    if bad:
        return bad
    for local, (extra, _) in sorted(snap.groups[other].items()):
        if local in SKIPPED_IN_COLLAPSE:
            continue
        for f in funcs:
            name = "%s/%s_%s" % (other, local, f)
            if name not in collapsed.variables:
                return ("variable-missing", name,
                        sorted(map(str, collapsed.variables)), "")
            var = collapsed[name].variable
            if set(var.dims) != set(extra) | {"collocation"}:
                return ("dimensions-changed", ["collocation"] + list(extra),
                        list(var.dims), name)
            rows = rows_of(var.transpose("collocation", *extra),
                           "collocation")[1]
            for ref_id, row in zip(ids, rows):
                exp = expected[ref_id][name]
                if isinstance(exp, OneOf):
                    if not any(len(e) == len(row) and all(map(same, e, row))
                               for e in exp):
                        return (f + "-wrong", [list(map(scalar, e))
                                               for e in exp], list(row),
                                "%s of reference point id=%s (any one "
                                "partner)" % (name, ref_id))
                    continue
                if len(exp) != len(row) or not all(map(close, exp, row)):
                    return (f + "-wrong", list(map(scalar, exp)), list(row),
                            "%s of reference point id=%s" % (name, ref_id))
        # statistics nobody asked for in this call (e.g. left over from an
        # earlier call with a custom collapser)
        prefix = "%s/%s_" % (other, local)
        for name in map(str, collapsed.variables):
            if name.startswith(prefix) and name[len(prefix):] not in funcs \
                    and name[len(prefix):] in KNOWN_STATISTICS:
                return ("unrequested-statistic", sorted(funcs), name, "")
    return None


def compare_reference_rows(collapsed, snap, ref, ids):
    """Every row is a reference point: it carries the values of all variables
    of the point with its id (time, lat and lon under that name or at the
    root level)."""
    position = {row[0]: k for k, row in enumerate(snap.groups[ref][ID][1])}
    for local, (extra, stored) in sorted(snap.groups[ref].items()):
        places = [ref + "/" + local] + (
            [local] if local in SKIPPED_IN_COLLAPSE else [])
        found = [n for n in places if n in collapsed.variables]
        if not found:
            return ("reference-variable-missing", places,
                    sorted(map(str, collapsed.variables)), "")
        for name in found:
            var = collapsed[name].variable
            if set(var.dims) != set(extra) | {"collocation"}:
                return ("dimensions-changed", ["collocation"] + list(extra),
                        list(var.dims), name)
            rows = rows_of(var.transpose("collocation", *extra),
                           "collocation")[1]
            for ref_id, row in zip(ids, rows):
                if row != stored[position[ref_id]]:
                    return ("reference-values-changed",
                            list(stored[position[ref_id]]), list(row),
                            "%s of reference point id=%s" % (name, ref_id))
    return None


def compare_constants(collapsed, snap):
    """The statement is silent about variables without collocation dimension;
    one that is handed on under its name and dimensions has to keep its
    values."""
    for name in snap.names:
        for local, (dims, values) in sorted(snap.constants[name].items()):
            var_name = name + "/" + local
            if var_name not in collapsed.variables:
                continue
            var = collapsed[var_name].variable
            if set(var.dims) == set(dims) and \
                    flat(var.transpose(*dims)) != values:
                return ("constant-changed", list(values),
                        list(flat(var.transpose(*dims))), var_name)
    return None


# --------------------------------------------------------------------------
# enumeration of compact pair lists
# --------------------------------------------------------------------------

def compact_pair_lists(length, points=3):
    """All sequences of `length` distinct pairs over points x points whose
    used indices are exactly 0..n-1 on each side (order matters)."""
    universe = [(i, j) for i in range(points) for j in range(points)]
    for seq in itertools.permutations(universe, length):
        prim = {i for i, _ in seq}
        sec = {j for _, j in seq}
        if prim == set(range(len(prim))) and sec == set(range(len(sec))):
            yield seq


def is_plain(pairs):
    """One-to-one pairs in ascending order: the only kind of pair list the
    repository's own test produces."""
    return list(pairs) == [(k, k) for k in range(len(pairs))]
