"""C15, reference side (no typhon imports): the time lattice, cache contents,
the documented JSON layout written by an independent writer, the corruption
alphabet and the fileset configurations of the history search."""
import datetime as dt
import itertools
import json

MIN, MAX = dt.datetime.min, dt.datetime.max
LATTICE = (
    MIN,
    dt.datetime(999, 12, 31),
    dt.datetime(1000, 1, 1),
    dt.datetime(1969, 12, 31, 23, 59, 59, 999999),
    dt.datetime(2020, 2, 29, 0, 0, 0, 1),
    MAX,
)
SPANS = tuple(itertools.combinations_with_replacement(LATTICE, 2))    # 21
ATTRS = ({}, {"sat": "A"})
# every kind of JSON value a handler may supply (one-entry caches only)
MORE_ATTRS = ({"orbit": 7}, {"x": 1.5, "flag": None, "tags": ["a", "b"]},
              {"sat": "\u00fc\u2603"})
PATHS = ("f%d.dat", 'odd "dir" ü\\x/f%d.dat')


def entry(path, t0, t1, attrs):
    """Comparable form of one cached FileInfo."""
    return (path, t0, t1, tuple(sorted(attrs.items())))


# -------------------------------------------------------------------------
# cache contents (tuples of entries below a directory `base`)
# -------------------------------------------------------------------------

def singles(base):
    for style in PATHS:
        for span in SPANS:
            for attrs in ATTRS + MORE_ATTRS:
                yield (entry(base + style % 0, span[0], span[1], attrs),)


def atoms(base):
    """The 42 (span, attrs) entries triples are drawn from; every entry has
    its own path."""
    return [entry(base + PATHS[0] % i, span[0], span[1], attrs)
            for i, (span, attrs) in enumerate(
                itertools.product(SPANS, ATTRS))]


def triples(base, tier):
    pool = atoms(base)
    if tier == "thorough":
        return list(itertools.combinations(pool, 3))
    n = len(pool)
    return [(pool[i], pool[(i + 15) % n], pool[(i + 28) % n])
            for i in range(n)]


def named(base):
    """The contents used as previous / new document of an interrupted save."""
    a = atoms(base)
    by = {(e[1], e[2], bool(e[3])): e for e in a}
    L = LATTICE
    return {
        "empty": (),
        "one-minmax": (by[MIN, MAX, False],),
        "one-modern-sat": (by[L[3], L[4], True],),
        "three-mixed": (by[MIN, L[1], True], by[L[2], L[3], False],
                        by[L[4], MAX, True]),
        "three-modern": (by[L[2], L[3], True], by[L[3], L[4], False],
                         by[L[4], L[4], True]),
        "one-0999": (by[L[1], L[2], False],),
        "three-minmax": (by[MIN, MAX, True], by[MIN, MIN, False],
                         by[MAX, MAX, True]),
    }


QUICK_PREVIOUS = (None, "empty", "one-minmax", "three-mixed", "three-modern")
QUICK_NEW = ("empty", "one-minmax", "one-modern-sat", "three-mixed",
             "three-modern")
MORE = ("one-0999", "three-minmax")


# -------------------------------------------------------------------------
# the documented file layout, written independently of typhon
# -------------------------------------------------------------------------

def stamp(t):
    """'%Y-%m-%dT%H:%M:%S.%f' with the four-digit year strptime reads."""
    return "%04d-%02d-%02dT%02d:%02d:%02d.%06d" % (
        t.year, t.month, t.day, t.hour, t.minute, t.second, t.microsecond)


def as_json(e):
    return {"path": e[0], "times": [stamp(e[1]), stamp(e[2])],
            "attr": dict(e[3])}


def document(entries, **kwargs):
    return json.dumps([as_json(e) for e in entries], **kwargs).encode()


# -------------------------------------------------------------------------
# corruption alphabet
# -------------------------------------------------------------------------

def broken_entries(good):
    """label -> a JSON value that is not a complete cache entry (`good` is
    one)."""
    t = good["times"][0]

    def with_times(v):
        return dict(good, times=v)
    out = {
        "missing-path": {k: v for k, v in good.items() if k != "path"},
        "missing-times": {k: v for k, v in good.items() if k != "times"},
        "missing-attr": {k: v for k, v in good.items() if k != "attr"},
        "entry-is-list": [good["path"], good["times"], good["attr"]],
        "entry-is-string": good["path"],
        "entry-is-null": None,
        "times-empty": with_times([]),
        "times-one": with_times([t]),
        "times-three": with_times([t, t, t]),
        "times-string": with_times(t),
        "times-dict": with_times({"0": t, "1": t}),
        "null-time/instead-of-list": with_times(None),
        "times-numbers": with_times([0, 1]),
        "times-second-number": with_times([t, 1582934400.0]),
        "null-time/both": with_times([None, None]),
        "null-time/first": with_times([None, t]),
        "null-time/second": with_times([t, None]),
        "times-nested": with_times([[t], [t]]),
        "path-type/number": dict(good, path=5),
        "path-type/null": dict(good, path=None),
        "path-type/bool": dict(good, path=True),
        "path-type/list": dict(good, path=[good["path"]]),
        "path-type/object": dict(good, path={"name": good["path"]}),
        "attr-type/string": dict(good, attr="x"),
        "attr-type/list": dict(good, attr=[1]),
        "attr-type/number": dict(good, attr=3),
    }
    for label, text in (
            ("blank-separator", t.replace("T", " ")),
            ("no-fraction", t[:19]),
            ("date-only", t[:10]),
            ("compact", t.replace("-", "").replace(":", "")),
            ("30-february", "2020-02-30T00:00:00.000000"),
            ("empty-string", ""),
            ("trailing-text", t + "Z")):
        out["format/" + label] = with_times([t, text])
    return out


def corrupt_documents(entries):
    """-> [(label, bytes, entries a load must restore | None = malformed |
    {"any_of": ...} = lenient_documents)] built around the well-formed
    entries `entries` (three of them)."""
    good = [as_json(e) for e in entries]
    whole = document(entries)
    docs = [
        ("wellformed/empty-list", b"[]", ()),
        ("wellformed/compact", whole, entries),
        ("wellformed/indented", document(entries, indent=2), entries),
        ("wellformed/sorted-keys", document(entries, sort_keys=True,
                                            separators=(",", ":")), entries),
        ("wellformed/trailing-newline", whole + b"\n", entries),
        ("empty-file", b"", None),
        ("blank-file", b" \n", None),
        ("type/empty-non-list/object", b"{}", None),
        ("type/number", b"1", None),
        ("type/string", b'"x"', None),
        ("type/empty-non-list/string", b'""', None),
        ("type/null", b"null", None),
        ("type/true", b"true", None),
        ("type/list-of-number", b"[1]", None),
        ("type/list-of-empty-object", b"[{}]", None),
        ("type/list-of-list", b"[[]]", None),
        ("type/entry-not-in-list", json.dumps(good[0]).encode(), None),
        ("type/object-of-entries", json.dumps(
            {g["path"]: g for g in good}).encode(), None),
        ("bytes/not-utf8-prefix", b"\xff\xfe" + whole, None),
        ("bytes/not-utf8-in-path", whole.replace(b".dat", b"\xff.dat", 1),
         None),
        ("bytes/nul", whole.replace(b"[", b"[\x00", 1), None),
        ("syntax/trailing-garbage", whole + b"x", None),
        ("syntax/two-documents", whole + whole, None),
        ("syntax/single-quotes", whole.replace(b'"', b"'"), None),
    ]
    for label, value in broken_entries(good[2]).items():
        docs.append(("entry/%s/alone" % label,
                     json.dumps([value]).encode(), None))
        for pos in range(3):
            rows = good[:2]
            rows.insert(pos, value)
            docs.append(("entry/%s/at-%d" % (label, pos),
                         json.dumps(rows).encode(), None))
    return docs + lenient_documents(entries)


def lenient_documents(entries):
    """Documents that save_cache never writes but that say unambiguously what
    they mean; the statement does not class them as malformed.
    -> [(label, bytes, {"any_of": contents a load may restore})]; rejecting
    the whole file with a warning is accepted as well."""
    good = [as_json(e) for e in entries]
    path, t0, _, attrs = entries[2]
    out = []
    for label, text, t1 in (
            ("short-fraction", "2020-02-29T00:00:00.5",
             dt.datetime(2020, 2, 29, 0, 0, 0, 500000)),
            ("unpadded-month-and-day", "2020-3-1T00:00:00.000000",
             dt.datetime(2020, 3, 1)),
            ("end-before-start", stamp(LATTICE[3]), LATTICE[3])):
        rows = good[:2] + [dict(good[2], times=[stamp(t0), text])]
        out.append(("lenient/" + label, json.dumps(rows).encode(), dict(
            any_of=[entries[:2] + ((path, t0, t1, attrs),)])))
    again = entry(entries[1][0], LATTICE[2], LATTICE[2], {"sat": "twice"})
    out.append(("lenient/same-path-twice",
                json.dumps(good + [as_json(again)]).encode(),
                dict(any_of=[entries, (entries[0], again, entries[2])])))
    return out


# -------------------------------------------------------------------------
# fileset configurations of the history search
# -------------------------------------------------------------------------

STAMP = "{year}{month}{day}T{hour}{minute}{second}{microsecond}"
END_STAMP = ("{end_year}{end_month}{end_day}T{end_hour}{end_minute}"
             "{end_second}{end_microsecond}")


def compact(t):
    return "%04d%02d%02dT%02d%02d%02d%06d" % (
        t.year, t.month, t.day, t.hour, t.minute, t.second, t.microsecond)


def span_name(sat, t0, t1):
    prefix = sat + "_" if sat else ""
    return "%s%s-%s.dat" % (prefix, compact(t0), compact(t1))


_L = LATTICE
_OLD = ((MIN, _L[1]), (_L[2], _L[3]), (_L[4], MAX), (_L[3], _L[4]))
_MODERN = ((_L[2], _L[3]), (_L[3], _L[4]), (_L[4], _L[4]), (_L[2], _L[4]))
_SATS = ("A", "A", "B", "A")

# name -> (path template, pool of file names; populations are prefixes of
# the pool, 'add' creates the first absent one, 'delete' removes the first
# present one)
CONFIGS = {
    "span+sat": ("{sat}_" + STAMP + "-" + END_STAMP + ".dat",
                 [span_name(s, *p) for s, p in zip(_SATS, _OLD)]),
    "span": (STAMP + "-" + END_STAMP + ".dat",
             [span_name(None, *p) for p in _OLD]),
    "modern+sat": ("{sat}_" + STAMP + "-" + END_STAMP + ".dat",
                   [span_name(s, *p) for s, p in zip(_SATS, _MODERN)]),
    "plain+sat": ("{sat}_plain.dat", ["%s_plain.dat" % s for s in "ABCD"]),
    "plain": ("p*.dat", ["p%s.dat" % s for s in "abcd"]),
    "single": ("single.dat", ["single.dat"]),
    "handler": ("h*.dat", ["h%s.dat" % s for s in "abcd"]),
    "both": ("{sat}_b.dat", ["%s_b.dat" % s for s in "ABCD"]),
}
# configurations whose file handler knows what no file name tells:
# name -> (info_via, {file name: (start, end, attributes) it reports})
HANDLED = {
    "handler": ("handler", {
        name: span + ({"orbit": i, "node": "asc"},)
        for i, (name, span) in enumerate(zip(CONFIGS["handler"][1], _OLD))}),
    "both": ("both", {
        name: span + ({"orbit": 7 * i},)
        for i, (name, span) in enumerate(zip(CONFIGS["both"][1], _MODERN))}),
}
POPULATIONS = (0, 1, 3)
# find() is asked for everything and for a period whose bounds are lattice
# instants with a non-zero microsecond (a restored time that lost its
# microseconds changes the answer)
QUERIES = ((None, None), (_L[3], _L[4]), (_L[4], MAX))
