"""C16 - find_closest / fileset[t] (DESIGN.md section 3, C16).

Same generator as C01. Oracle = the rule of the statement evaluated over the
harness' own file list."""
import datetime as dt
import os
import sys

from mc import driver, fsbuild
driver.setup_env()
from checks import fs_lattice as L

PROP = "C16"
LEVEL = "exploration"
RULE = ("14 templates (flat, year dir, y/m/d, y/m/d/h, fixed dir, discrete, "
        "user placeholder in file name / as top dir / as dir below the day, "
        "full end under day dirs, coverage from time_coverage=9 h, y/doy, "
        "year2/doy, wildcard+time_coverage) + a single-file fileset x 3 "
        "windows x populations (whole pool; the empty population in "
        "existing empty directories; every subset of size <=3 of the 6-9 "
        "file pool, <=2 for the two templates with a user-placeholder "
        "directory; quick: size <=2 in the year-end window, singles in the "
        "others; the last three templates singles in one window, the "
        "two with a user-placeholder directory only the whole and the "
        "empty population in one window) x "
        "every lattice instant and the instant +- one name-resolution unit x "
        "{no filter, white, black (user-placeholder templates; also on a "
        "FileSet object that answered a query with other filter values "
        "before), each file excluded by name, for each file a period "
        "excluded that lies inside its coverage after its start}; whole "
        "pool, the empty and the single-file populations (thorough: all) "
        "also with the user placeholder declared as the literal `A` x {no "
        "filter, black=A, black=B} and as `A|B` x black=A; whole pool and "
        "single-file fileset also with t handed over as full ISO string / "
        "shortest documented string / pandas.Timestamp / numpy.datetime64; "
        "find_closest and fileset[t] / fileset[t, filters]. Non-trivial = "
        "the neighbourhood holds >= 2 candidate files, or no file covers t; "
        "distinct by construction.")
ASSUMPTIONS = [
    "timestamps at the resolution of the file names (minutes; seconds for "
    "the hour-level template)",
    "files whose coverage only touches the end of the one-period "
    "neighbourhood are don't-care (the statement does not say whether the "
    "neighbourhood is closed); month-level directories (28-31 day periods) "
    "are not generated",
    "all minimisers / all covering files are accepted",
    "a numpy.datetime64 may be refused with TypeError (only datetime and "
    "str are documented for find_closest), but not answered differently",
    "a white-list value outside a literal placeholder declaration is not "
    "enumerated (the statement does not say which of the two wins); the "
    "single-file fileset is asked without filters and exclusion (the "
    "statement lets it answer with its file always) and the type of its "
    "answer (str) is not judged",
]

TNAMES = ["flat", "year", "ymd", "ymdh", "fixed", "discrete", "satfile",
          "fullend_day", "extended", "satdir", "daysat", "yj", "y2j", "wild"]
# templates that the quick tier runs in one window only: (window, largest
# proper sub-population)
QUICK = {"satdir": ("midnight", 0), "daysat": ("midnight", 0),
         "yj": ("yearend", 1), "y2j": ("leapday", 1), "wild": ("midnight", 1)}
# largest proper sub-population of the thorough tier where it is not 3
THOROUGH_SIZE = {"satdir": 2, "daysat": 2}


def acceptable(files, t, R, opts):
    """-> (set of acceptable paths, none_ok, candidates of the half-open
    reading of the neighbourhood)"""
    cands = [f for f in files if L.passes(f, opts)]
    readings = []
    if R is None:
        readings.append(cands)
    else:
        lo, hi = t - R, t + R
        readings.append([f for f in cands if f.t0 < hi and f.t1 >= lo])
        readings.append([f for f in cands if f.t0 <= hi and f.t1 >= lo])
        readings.append([f for f in cands if f.t0 < hi and f.t1 > lo])
    ok, none_ok = set(), False
    for W in readings:
        if not W:
            none_ok = True
            continue
        cover = [f for f in W if f.t0 <= t <= f.t1]
        if cover:
            ok.update(f.path for f in cover)
        else:
            d = [min(abs(f.t0 - t), abs(f.t1 - t)) for f in W]
            m = min(d)
            ok.update(f.path for f, x in zip(W, d) if x == m)
    return ok, none_ok, readings[0]


# An option set is (label, filters, fileset-kwargs, oracle-opts). Keys of the
# fileset-kwargs that start with "_" are directions for the harness:
#   _primed  filters of earlier questions put to the same FileSet object
#   _spell   the type in which t is handed over (L.spell)

def option_sets(tname, files, whole, literal):
    out = [("none", None, {}, {})]
    if whole:
        out += [("t as " + how, None, dict(_spell=how), {})
                for how in L.SPELLINGS]
    if L.TEMPLATES[tname].get("sat"):
        A, B = dict(sat=["A"]), dict(sat=["B"])
        out += [("white=A", {"sat": "A"}, {}, dict(white=A)),
                ("white=B", {"sat": "B"}, {}, dict(white=B)),
                ("black=A", {"!sat": "A"}, {}, dict(black=A))]
        # the same questions put to a FileSet object that has answered
        # another one before (what that cached must not leak into this
        # answer)
        out += [("white=B after white=A", {"sat": "B"},
                 dict(_primed=[{"sat": "A"}]), dict(white=B)),
                ("white=A after white=[A,B]", {"sat": "A"},
                 dict(_primed=[{"sat": ["A", "B"]}]), dict(white=A)),
                ("none after white=A", None,
                 dict(_primed=[{"sat": "A"}]), {}),
                ("white=A after none", {"sat": "A"},
                 dict(_primed=[None]), dict(white=A)),
                ("black=A after black=B, white=A", {"!sat": "A"},
                 dict(_primed=[{"!sat": "B"}, {"sat": "A"}]),
                 dict(black=A))]
        if literal:
            # the placeholder declared with a literal pattern: only files of
            # that value belong to the fileset, and the name of an instant
            # can be computed without a filter
            only_a = dict(placeholder={"sat": "A"})
            out += [("sat:=A", None, only_a, dict(white=A)),
                    ("sat:=A black=A", {"!sat": "A"}, only_a,
                     dict(white=A, black=A)),
                    ("sat:=A black=B", {"!sat": "B"}, only_a,
                     dict(white=A, black=B)),
                    ("sat:=A|B black=A", {"!sat": "A"},
                     dict(placeholder={"sat": "A|B"}), dict(black=A))]
    off = 7 * (dt.timedelta(seconds=1) if tname == "ymdh" else L.MIN)
    for k, f in enumerate(files):
        out.append(("exclude#%d" % k, None, dict(exclude=[f.path]),
                    dict(exclude_names=[f.path])))
        # a period strictly inside the file's coverage that does not contain
        # the time written in its name (around it for zero-length files)
        if f.t1 - f.t0 > 2 * off:
            period = (f.t0 + off, f.t0 + 2 * off)
        else:
            period = (f.t0 - off, f.t0 + off)
        out.append(("exclude-period#%d" % k, None, dict(exclude=[period]),
                    dict(exclude_periods=[period])))
    return out


def ask(fs, t, filters, via, how=None):
    from typhon.files.fileset import NoFilesError
    t = L.spell(t, how)
    try:
        if via == "find_closest":
            got = fs.find_closest(t, filters=filters)
        elif filters is None:
            got = fs[t]
        else:
            got = fs[t, filters]
    except NoFilesError:
        return None
    except TypeError:
        if how == "numpy":
            return TypeError         # an undocumented type may be refused
        raise
    return None if got is None else os.fspath(got)


def reader(file_info, **kw):
    return file_info.path


def check_population(res, root, tname, files, instants, casebase, whole,
                     literal):
    from typhon.files import FileHandler
    R = L.LEVEL_PERIOD[L.TEMPLATES[tname]["level"]]
    for label, filters, fs_kw, opts in option_sets(tname, files, whole,
                                                   literal):
        kw = dict(fs_kw)
        primed = kw.pop("_primed", ())
        how = kw.pop("_spell", None)
        for t in instants:
            ok, none_ok, W = acceptable(files, t, R, opts)
            nt = len(W) >= 2 or not any(f.t0 <= t <= f.t1 for f in W)
            for via in ("find_closest", "getitem"):
                res.case(nontrivial=nt)
                got, stage = None, "constructor"
                try:
                    fs = L.make_fileset(root, tname,
                                        handler=FileHandler(reader=reader),
                                        **kw)
                    stage = via
                    for earlier in primed:
                        try:
                            ask(fs, t, earlier, via)
                        except Exception as exc:
                            # judged where it is the question
                            L.not_the_watchdog(exc)
                    got = ask(fs, t, filters, via, how)
                    err = None
                except Exception as exc:
                    L.not_the_watchdog(exc)
                    err = exc
                if err is not None:
                    bad = ("%s/exception/%s" % (stage, type(err).__name__),
                           sorted(ok), repr(err)[:200])
                elif got is TypeError or got in ok:
                    bad = None
                elif got is None:
                    bad = None if none_ok else (
                        via + "/none-although-files-nearby", sorted(ok), None)
                else:
                    f = [x for x in files if x.path == got]
                    if not f:
                        key = "/unknown-file"
                    elif not L.passes(f[0], dict(opts, white={}, black={})):
                        key = "/excluded-file-returned"
                    elif not L.passes(f[0], opts):
                        key = "/filtered-file-returned"
                    elif any(x.t0 <= t <= x.t1 for x in W):
                        key = "/covering-file-ignored"
                    elif not ok:
                        key = "/far-away-file-returned"
                    else:
                        key = "/not-the-nearest"
                    bad = (via + key, sorted(ok), got)
                if bad is not None:
                    res.violation(
                        bad[0] + ("[%s]" % label if how else ""),
                        dict(casebase, t=t, options=label, via=via,
                             template=L.TEMPLATES[tname]["rel"],
                             files=[x.rel for x in files]),
                        bad[1], bad[2])


def instants_of(tname, wname):
    unit = dt.timedelta(seconds=1) if tname == "ymdh" else L.MIN
    out = []
    for t in L.lattice(tname, wname):
        out += [t - unit, t, t + unit]
    lat = L.lattice(tname, wname)
    out += [lat[0] - dt.timedelta(days=3), lat[-1] + dt.timedelta(days=3),
            lat[0] - dt.timedelta(days=800)]
    return out


def shards(tier, seed):
    out = []
    for tname in TNAMES:
        reduced = QUICK.get(tname) if tier == "quick" else None
        for wname in (reduced[0],) if reduced else L.WINDOWS:
            n = len(L.pool(tname, wname))
            if reduced:
                maxsize = reduced[1]
            elif tier == "quick":
                maxsize = 2 if wname == "yearend" else 1
            else:
                maxsize = THOROUGH_SIZE.get(tname, 3)
            pops = list(L.populations(n, maxsize))
            chunk = 3 if tier == "quick" else 8
            # the whole pool (most files, most option sets) has a shard of
            # its own
            out.append(("pop", tier, tname, wname, pops[:1]))
            for i in range(1, len(pops), chunk):
                out.append(("pop", tier, tname, wname, pops[i:i + chunk]))
    out.append(("single",))
    return out


def run_shard(shard):
    res = driver.ShardResult()
    if shard[0] == "single":
        return run_single(res)
    _, tier, tname, wname, pops = shard
    pl = L.pool(tname, wname)
    root = driver.fresh_dir("c16")
    instants = instants_of(tname, wname)
    for idx in pops:
        sub = os.path.join(root, "p" + "_".join(map(str, idx)))
        files = L.materialise(sub, tname, [pl[i] for i in idx],
                              dirs_only=() if idx else pl)
        check_population(res, sub, tname, files, instants,
                         dict(kind="pop", tname=tname, window=wname,
                              population=idx), whole=len(idx) == len(pl),
                         literal=tier == "thorough"
                         or len(idx) in (0, 1, len(pl)))
    res.sample(dict(template=L.TEMPLATES[tname]["rel"], window=wname,
                    population=[pl[i][3] for i in idx],
                    instants=len(instants)))
    return res


def run_single(res):
    from typhon.files import FileSet, FileHandler
    root = driver.fresh_dir("c16s")
    path = os.path.join(root, "only.dat")
    fsbuild.touch(path)
    lat = L.lattice("ymd", "leapday")
    for cov in [(lat[3], lat[6]), None]:
        for t in lat + [dt.datetime(1970, 1, 1)]:
            for via in ("find_closest", "getitem"):
                for how in (None,) + L.SPELLINGS:
                    res.case(nontrivial=True)
                    try:
                        fs = FileSet(path, time_coverage=cov, name="single",
                                     handler=FileHandler(reader=reader))
                        got = ask(fs, t, None, via, how)
                    except Exception as exc:
                        L.not_the_watchdog(exc)
                        got = repr(exc)[:200]
                    if got not in (path, TypeError):
                        res.violation(
                            "single/" + via + ("[t as %s]" % how if how
                                               else ""),
                            dict(kind="single", t=t, cov=cov), path, got)
    res.sample(dict(kind="single", coverage=[lat[3], lat[6]]))
    return res


def replay(case):
    res = driver.ShardResult()
    if case["kind"] == "single":
        run_single(res)
    else:
        tname, wname, idx = case["tname"], case["window"], case["population"]
        pl = L.pool(tname, wname)
        root = driver.fresh_dir("c16r")
        files = L.materialise(root, tname, [pl[i] for i in idx],
                              dirs_only=() if idx else pl)
        t = dt.datetime.fromisoformat(case["t"])
        check_population(res, root, tname, files, [t], dict(
            kind="pop", tname=tname, window=wname, population=idx),
            whole=len(idx) == len(pl), literal=True)
    for v in res.violations:
        c = v["case"]
        if case["kind"] == "single" or (
                c["options"], c["via"]) == (case["options"], case["via"]):
            return dict(ok=False, key=v["key"], expected=v["expected"],
                        observed=v["observed"], case=c)
    return dict(ok=not res.violations, other_violations=len(res.violations))


if __name__ == "__main__":
    driver.main(sys.modules[__name__])
