"""C16 - find_closest / fileset[t] (DESIGN.md section 3, C16).

Same generator as C01. Oracle = the rule of the statement evaluated over the
harness' own file list."""
import datetime as dt
import os
import sys

from mc import driver, fsbuild
driver.setup_env()
from checks import fs_lattice as L

PROP = "C16"
LEVEL = "exploration"
RULE = ("9 templates (flat, year dir, y/m/d, y/m/d/h, fixed dir, discrete, "
        "user placeholder in file name, full end under day dirs, coverage "
        "from time_coverage=9 h) + a "
        "single-file fileset x 3 windows x populations (whole pool; every "
        "subset of size <=3 of the 7-9 file pool; quick: size <=2 in the year-end window, singles in the others) x "
        "every lattice instant and the instant +- one name-resolution unit x "
        "{no filter, white, black (user-placeholder template; also on a "
        "FileSet object that answered a query with other filter values "
        "before), each file "
        "excluded by name, for each file a period excluded that lies "
        "inside its coverage after its start}; find_closest and fileset[t] / fileset[t, "
        "filters]. Non-trivial = the neighbourhood holds >= 2 candidate "
        "files, or no file covers t; distinct by construction.")
ASSUMPTIONS = [
    "timestamps at the resolution of the file names (minutes; seconds for "
    "the hour-level template)",
    "files whose coverage only touches the end of the one-period "
    "neighbourhood are don't-care (the statement does not say whether the "
    "neighbourhood is closed); month-level directories (28-31 day periods) "
    "are not generated",
    "all minimisers / all covering files are accepted",
]

TNAMES = ["flat", "year", "ymd", "ymdh", "fixed", "discrete", "satfile",
          "fullend_day", "extended"]


def passes(f, opts):
    if f.path in opts.get("exclude_names", ()):
        return False
    for p0, p1 in opts.get("exclude_periods", ()):
        if f.t0 <= p1 and f.t1 >= p0:
            return False
    wl = opts.get("white")
    if wl is not None and f.attrs.get("sat") not in wl:
        return False
    bl = opts.get("black")
    if bl is not None and f.attrs.get("sat") in bl:
        return False
    return True


def acceptable(files, t, R, opts):
    """-> (set of acceptable paths, none_ok)"""
    cands = [f for f in files if passes(f, opts)]
    readings = []
    if R is None:
        readings.append(cands)
    else:
        lo, hi = t - R, t + R
        readings.append([f for f in cands if f.t0 < hi and f.t1 >= lo])
        readings.append([f for f in cands if f.t0 <= hi and f.t1 >= lo])
        readings.append([f for f in cands if f.t0 < hi and f.t1 > lo])
    ok, none_ok = set(), False
    for W in readings:
        if not W:
            none_ok = True
            continue
        cover = [f for f in W if f.t0 <= t <= f.t1]
        if cover:
            ok.update(f.path for f in cover)
        else:
            d = [min(abs(f.t0 - t), abs(f.t1 - t)) for f in W]
            m = min(d)
            ok.update(f.path for f, x in zip(W, d) if x == m)
    return ok, none_ok, readings[0]


def option_sets(tname, files, single=False):
    out = [("none", None, {}, {})]
    if L.TEMPLATES[tname].get("sat"):
        out += [("white=A", {"sat": "A"}, {}, dict(white=["A"])),
                ("white=B", {"sat": "B"}, {}, dict(white=["B"])),
                ("black=A", {"!sat": "A"}, {}, dict(black=["A"]))]
        # the same questions put to a FileSet object that has answered
        # another one before (`_primed`: the filters of the earlier calls;
        # what they cached must not leak into this answer)
        out += [("white=B after white=A", {"sat": "B"},
                 dict(_primed=[{"sat": "A"}]), dict(white=["B"])),
                ("white=A after white=[A,B]", {"sat": "A"},
                 dict(_primed=[{"sat": ["A", "B"]}]), dict(white=["A"])),
                ("none after white=A", None,
                 dict(_primed=[{"sat": "A"}]), {}),
                ("white=A after none", {"sat": "A"},
                 dict(_primed=[None]), dict(white=["A"])),
                ("black=A after black=B, white=A", {"!sat": "A"},
                 dict(_primed=[{"!sat": "B"}, {"sat": "A"}]),
                 dict(black=["A"]))]
    off = 7 * (dt.timedelta(seconds=1) if tname == "ymdh" else L.MIN)
    for k, f in enumerate(files):
        out.append(("exclude#%d" % k, None, dict(exclude=[f.path]),
                    dict(exclude_names=[f.path])))
        # a period strictly inside the file's coverage that does not contain
        # the time written in its name (around it for zero-length files)
        if f.t1 - f.t0 > 2 * off:
            period = (f.t0 + off, f.t0 + 2 * off)
        else:
            period = (f.t0 - off, f.t0 + off)
        out.append(("exclude-period#%d" % k, None, dict(exclude=[period]),
                    dict(exclude_periods=[period])))
    return out


def ask(fs, t, filters, via):
    from typhon.files.fileset import NoFilesError
    try:
        if via == "find_closest":
            got = fs.find_closest(t, filters=filters)
        elif filters is None:
            got = fs[t]
        else:
            got = fs[t, filters]
    except NoFilesError:
        return None
    return None if got is None else os.fspath(got)


def reader(file_info, **kw):
    return file_info.path


def check_population(res, root, tname, files, instants, casebase):
    from typhon.files import FileHandler
    R = L.LEVEL_PERIOD[L.TEMPLATES[tname]["level"]]
    for label, filters, fs_kw, opts in option_sets(tname, files):
        for t in instants:
            ok, none_ok, W = acceptable(files, t, R, opts)
            nt = len(W) >= 2 or not any(f.t0 <= t <= f.t1 for f in W)
            for via in ("find_closest", "getitem"):
                res.case(nontrivial=nt)
                kw = dict(fs_kw)
                primed = kw.pop("_primed", ())
                fs = L.make_fileset(root, tname,
                                    handler=FileHandler(reader=reader),
                                    **kw)
                for earlier in primed:
                    try:
                        ask(fs, t, earlier, via)
                    except Exception:
                        pass          # judged where it is the question
                try:
                    got = ask(fs, t, filters, via)
                    err = None
                except Exception as exc:
                    got, err = None, exc
                if err is not None:
                    bad = ("%s/exception/%s" % (via, type(err).__name__),
                           sorted(ok), repr(err)[:200])
                elif got is None:
                    bad = None if none_ok else (
                        via + "/none-although-files-nearby", sorted(ok), None)
                elif got in ok:
                    bad = None
                else:
                    f = [x for x in files if x.path == got]
                    if not f:
                        key = "/unknown-file"
                    elif not passes(f[0], opts):
                        key = "/excluded-or-filtered-file-returned"
                    elif any(x.t0 <= t <= x.t1 for x in W):
                        key = "/covering-file-ignored"
                    elif not ok:
                        key = "/far-away-file-returned"
                    else:
                        key = "/not-the-nearest"
                    bad = (via + key, sorted(ok), got)
                if bad is not None:
                    res.violation(
                        bad[0],
                        dict(casebase, t=t, options=label, via=via,
                             template=L.TEMPLATES[tname]["rel"],
                             files=[x.rel for x in files]),
                        bad[1], bad[2])


def instants_of(tname, wname):
    unit = dt.timedelta(seconds=1) if tname == "ymdh" else L.MIN
    out = []
    for t in L.lattice(tname, wname):
        out += [t - unit, t, t + unit]
    lat = L.lattice(tname, wname)
    out += [lat[0] - dt.timedelta(days=3), lat[-1] + dt.timedelta(days=3),
            lat[0] - dt.timedelta(days=800)]
    return out


def shards(tier, seed):
    out = []
    for tname in TNAMES:
        for wname in L.WINDOWS:
            n = len(L.pool(tname, wname))
            if tier == "quick":
                maxsize = 2 if wname == "yearend" else 1
            else:
                maxsize = 3
            pops = list(L.populations(n, maxsize))
            chunk = 3 if tier == "quick" else 8
            for i in range(0, len(pops), chunk):
                out.append(("pop", tname, wname, pops[i:i + chunk]))
    out.append(("single",))
    return out


def run_shard(shard):
    res = driver.ShardResult()
    if shard[0] == "single":
        return run_single(res)
    _, tname, wname, pops = shard
    pl = L.pool(tname, wname)
    root = driver.fresh_dir("c16")
    instants = instants_of(tname, wname)
    for idx in pops:
        sub = os.path.join(root, "p" + "_".join(map(str, idx)))
        files = L.materialise(sub, tname, [pl[i] for i in idx])
        check_population(res, sub, tname, files, instants,
                         dict(kind="pop", tname=tname, window=wname,
                              population=idx))
    res.sample(dict(template=L.TEMPLATES[tname]["rel"], window=wname,
                    population=[pl[i][3] for i in idx],
                    instants=len(instants)))
    return res


def run_single(res):
    from typhon.files import FileSet, FileHandler
    root = driver.fresh_dir("c16s")
    path = os.path.join(root, "only.dat")
    fsbuild.touch(path)
    lat = L.lattice("ymd", "leapday")
    for cov in [(lat[3], lat[6]), None]:
        for t in [lat[0], lat[4], lat[-1], dt.datetime(1970, 1, 1)]:
            for via in ("find_closest", "getitem"):
                res.case(nontrivial=True)
                fs = FileSet(path, time_coverage=cov, name="single",
                             handler=FileHandler(reader=reader))
                try:
                    got = ask(fs, t, None, via)
                except Exception as exc:
                    got = repr(exc)[:200]
                if got != path:
                    res.violation("single/" + via, dict(kind="single", t=t,
                                                        cov=cov), path, got)
    res.sample(dict(kind="single", coverage=[lat[3], lat[6]]))
    return res


def replay(case):
    res = driver.ShardResult()
    if case["kind"] == "single":
        run_single(res)
    else:
        tname, wname, idx = case["tname"], case["window"], case["population"]
        pl = L.pool(tname, wname)
        root = driver.fresh_dir("c16r")
        files = L.materialise(root, tname, [pl[i] for i in idx])
        t = dt.datetime.fromisoformat(case["t"])
        check_population(res, root, tname, files, [t], dict(
            kind="pop", tname=tname, window=wname, population=idx))
    for v in res.violations:
        c = v["case"]
        if case["kind"] == "single" or (
                c["options"], c["via"]) == (case["options"], case["via"]):
            return dict(ok=False, key=v["key"], expected=v["expected"],
                        observed=v["observed"], case=c)
    return dict(ok=not res.violations, other_violations=len(res.violations))


if __name__ == "__main__":
    driver.main(sys.modules[__name__])
