"""C17 - optimal-estimation matrices satisfy their defining identities
(DESIGN.md section 3, C17).

Full product shape x S_a family x S_y family x Jacobian family, each with
the noise and the prior scaling sequence. Reference (checks/c17_ref.py):
Gaussian elimination on exact rationals for n, m <= 4, on
numpy.longdouble for the larger shapes, of both the state-space (n-form) and
the measurement-space (m-form) expressions.

Representation part: whole-number problems (small shapes) handed over as
float64, float32, int64 and int32 arrays, judged against the same reference.
"""
import functools
import itertools
import sys
from fractions import Fraction

from mc import driver
driver.setup_env()

import numpy as np                                         # noqa: E402

from checks import c17_ref as ref                          # noqa: E402

PROP = "C17"
LEVEL = "exploration"
RULE = ("full product of shapes (n, m) in N x M (quick: N={1,2,3,5,30}, "
        "M={1,2,4,40}; thorough: N={1,2,3,4,5,10,20,30}, "
        "M={1,2,3,4,5,12,25,40}) x Jacobian families (zero, selector, rank "
        "1, dense triangular, the same /10, /64 and /1e9, banded weighting "
        "functions, rank-deficient) x pairs (S_a, S_y) from 7 families "
        "(identity, diag 1e-2..1e2, AR(1) rho .5/.9 at scale 1, 1e-2, 1e2, "
        "AR(.9) with std .5/1/2) where one of the two is additionally "
        "scaled by 1e-2, 1e-4, 1e-6 (thorough: 1e-1 ... 1e-6; vanishing "
        "noise / vanishing prior variance); with the Jacobian /1e9 every S_y "
        "is multiplied by 1e-18 (the same problem in other measurement "
        "units). Every case is evaluated with all arrays C-ordered, "
        "and again with all arrays Fortran-ordered if neither covariance is "
        "scaled (thorough: every case); the arrays of one order are handed "
        "to error_covariance_matrix, retrieval_gain_matrix, "
        "averaging_kernel_matrix and retrieval_noise one after the other "
        "and compared with the originals after every call. Matrices of one "
        "size that coincide bit for bit are enumerated once, so cases are "
        "distinct by "
        "construction. Cases whose first-order float64 error bound exceeds "
        "1/4 (composite problem too ill-conditioned for any statement about "
        "a float64 result) are skipped and counted. Exact Fraction reference "
        "iff n <= 4 and m <= 4, longdouble otherwise. Non-trivial = K has a "
        "non-zero entry, max(n, m) > 1 (a scalar problem cannot tell K from "
        "K^T) and the relative tolerances on S, G and A are all <= 1e-3 "
        "(the comparison decides). Representation part: shapes N x M "
        "(quick: N={1,2,3,5}, M={1,2,4}; thorough: N={1,..,5}, "
        "M={1,2,3,4,6}) x whole-number Jacobian families (zero, selector, "
        "rank 1, dense triangular, banded, rank-deficient) x pairs (S_a, "
        "S_y) from 4 whole-number families (identity, diag 1/10/100, "
        "tridiagonal 2/1, the same scaled by diag 1/2/4); each case is "
        "evaluated with float64 C-ordered arrays as above and again with "
        "(K, S_a, S_y) as float64|float32|int64|int32 arrays - quick: one "
        "matrix at a time in every other dtype and all three in the same "
        "one, thorough: every assignment; retrieval_noise gets a whole e_y "
        "in the dtype of K, smoothing_error whole x and x_a in each of the "
        "three other dtypes (problems that also occur above recur here with "
        "the additional forms). Float32 assignments whose first-order float32 "
        "error bound exceeds 1/4 are dropped and counted; non-trivial there "
        "additionally requires the float32 tolerances to be <= 1e-3.")
ASSUMPTIONS = [
    "inputs are ndarrays, contiguous in C or Fortran order (no strided "
    "views); covariances are exactly symmetric; dtypes other than float64 "
    "only in the representation part (float32, int64, int32, C order, "
    "whole entries <= 100); nested lists and scalars for 1x1 problems are "
    "not fed: the functions document np.array arguments and use K.T",
    "scipy.linalg.inv works in float32 on float32 input, so with any "
    "float32 matrix the tolerances are the float64 ones with the unit "
    "roundoff 2^-24 in place of 2^-53; integer input must meet the float64 "
    "tolerances",
    "results for Fortran-ordered inputs that are bit-identical to those for "
    "C-ordered inputs are not judged again; others must meet the value "
    "tolerances (the structural clauses - symmetry, definiteness, "
    "eigenvalues, limits - are judged on the C-ordered results only)",
    "a function that changes one of its input arrays is reported "
    "(inputs/modified-by-...) although the statement only implies this "
    "through the identities between calls on the same arrays",
    "tolerances are first-order forward error bounds of a float64 "
    "evaluation (every inversion: relative error c cond_2, every product: "
    "c |.||.|, c = 8 max(n, m) u; c17_ref.Reference._tolerances); for the "
    "gain and everything derived from it the bounds of the n-form and of "
    "the m-form evaluation are added, so that either implementation "
    "passes; not tuned to the observed errors (largest observed "
    "error/tolerance is reported as max_err_over_tol)",
    "for n > 4 or m > 4 the reference is longdouble (64-bit mantissa); the "
    "same error model scaled to its precision bounds its own error, and the "
    "n-form/m-form gains must agree within that bound (harness error "
    "otherwise)",
    "eigenvalues of the returned averaging kernel are computed with "
    "numpy.linalg.eigvals and judged with the Bauer-Fike bound "
    "sqrt(cond S) * tol_A",
    "positive definiteness and S <= S_a are decided by pivot signs in the "
    "reference field on the symmetrised typhon output",
]

# tier -> state dimensions, measurement dimensions, scaling sequence
TIERS = {
    "quick": ([1, 2, 3, 5, 30], [1, 2, 4, 40], (1.0, 1e-2, 1e-4, 1e-6)),
    "thorough": ([1, 2, 3, 4, 5, 10, 20, 30], [1, 2, 3, 4, 5, 12, 25, 40],
                 (1.0, 1e-1, 1e-2, 1e-3, 1e-4, 1e-5, 1e-6)),
}
COV_FAMILIES = ["I", "diag", "ar.5", "ar.9", "ar.5/100", "ar.9x100",
                "ar.9std"]
K_FAMILIES = ["zero", "selector", "rank1", "tri", "tri/10", "tri/64", "band",
              "rankdef", "tri*1e-9"]
# Jacobian family -> factor on every S_y it is enumerated with: a measurement
# in other units (K u, S_y u^2) leaves K^T S_y^-1 K and the conditioning as
# they are, while no entry of K is of order 1 any more
SY_FACTOR = {"tri*1e-9": 1e-18}

# representation part: tier -> state dimensions, measurement dimensions
REP_TIERS = {"quick": ([1, 2, 3, 5], [1, 2, 4]),
             "thorough": ([1, 2, 3, 4, 5], [1, 2, 3, 4, 6])}
WHOLE_COV = ("I", "diagw", "tri21", "tri21s")
WHOLE_K = ("zero", "selector", "rank1", "tri", "band", "rankdef")
DTYPES = ("f8", "f4", "i8", "i4")
F32 = 2.0 ** 29                 # float32 unit roundoff over the float64 one


def rep_forms(tier):
    """Forms "C:<dtype of K>,<of S_a>,<of S_y>" of the representation part."""
    every = [c for c in itertools.product(DTYPES, repeat=3)
             if set(c) != {"f8"}]
    if tier == "quick":
        every = [c for c in every
                 if len(set(c)) == 1 or sum(d != "f8" for d in c) == 1]
    return tuple("C:" + ",".join(c) for c in every)


def dtypes_of(form):
    """Dtype codes of (K, S_a, S_y) in a form "C" | "F" | "C:a,b,c"."""
    return form.partition(":")[2].split(",") if ":" in form else ["f8"] * 3


def roundoff_factor(form):
    return F32 if "f4" in dtypes_of(form) else 1.0


def materialise(form, originals):
    return tuple(np.array(x, dtype=d, order=form[0])
                 for x, d in zip(originals, dtypes_of(form)))


def layouts_of(tier, sa_scale, sy_scale):
    """Memory orders of the arrays handed to typhon: Fortran order (the one
    LAPACK can work on in place) in addition where it is affordable."""
    if tier == "thorough" or sa_scale == sy_scale == 1.0:
        return ("C", "F")
    return ("C",)


DECISIVE = 1e-3


# --------------------------------------------------------------------------
# input alphabets (rational definitions, rounded once to float64)
# --------------------------------------------------------------------------

@functools.lru_cache(maxsize=None)
def covariance(name, k, scale=1.0):
    """Read-only float64 array (cached)."""
    def ar(rho, std):
        return [[std(i) * std(j) * rho ** abs(i - j) for j in range(k)]
                for i in range(k)]
    if name == "I":
        rows = ar(Fraction(0), lambda i: 1)
    elif name == "diag":
        rows = ar(Fraction(0),
                  lambda i: Fraction(10) ** (-1 + (2 * i) // max(k - 1, 1)))
    elif name == "ar.5":
        rows = ar(Fraction(1, 2), lambda i: 1)
    elif name == "ar.9":
        rows = ar(Fraction(9, 10), lambda i: 1)
    elif name == "ar.5/100":
        rows = ar(Fraction(1, 2), lambda i: Fraction(1, 10))
    elif name == "ar.9x100":
        rows = ar(Fraction(9, 10), lambda i: 10)
    elif name == "ar.9std":
        rows = ar(Fraction(9, 10), lambda i: Fraction(2) ** (i % 3 - 1))
    elif name == "diagw":
        rows = ar(Fraction(0), lambda i: 10 ** (i % 3))
    elif name in ("tri21", "tri21s"):
        d = [2 ** (i % 3) if name == "tri21s" else 1 for i in range(k)]
        rows = [[d[i] * d[j] * max(0, 2 - abs(i - j)) for j in range(k)]
                for i in range(k)]
    else:
        raise ValueError(name)
    out = np.array([[float(v) for v in r] for r in rows]) * scale
    out.setflags(write=False)
    return out


@functools.lru_cache(maxsize=None)
def distinct_covariances(k, scales, factor=1.0,
                         families=tuple(COV_FAMILIES)):
    """(family, scale) pairs in enumeration order, without those whose
    matrix (at scale * factor) already occurred."""
    seen, out = set(), []
    for scale in scales:
        for name in families:
            ident = covariance(name, k, scale * factor).tobytes()
            if ident not in seen:
                seen.add(ident)
                out.append((name, scale))
    return out


def jacobian(name, m, n):
    """m x n (measurement x state); None where the family does not exist."""
    def tri(i, j):
        return Fraction(j % 3 + 1 if j <= i else -1)
    if name == "zero":
        f = lambda i, j: 0                                       # noqa: E731
    elif name == "selector":
        f = lambda i, j: int(j == i % n)                         # noqa: E731
    elif name == "rank1":
        f = lambda i, j: (i % 3 + 1) * (-1) ** j * (j % 3 + 1)   # noqa: E731
    elif name == "tri":
        f = tri
    elif name == "tri/10":
        f = lambda i, j: tri(i, j) / 10                          # noqa: E731
    elif name == "tri/64":
        f = lambda i, j: tri(i, j) / 64                          # noqa: E731
    elif name == "tri*1e-9":
        f = lambda i, j: tri(i, j) / 10 ** 9                     # noqa: E731
    elif name == "band":
        f = lambda i, j: max(0, 3 - abs((i * n) // m - j))       # noqa: E731
    elif name == "rankdef":
        if n < 2:
            return None
        f = lambda i, j: tri(i, 0 if j == n - 1 else j)          # noqa: E731
    else:
        raise ValueError(name)
    return np.array([[float(f(i, j)) for j in range(n)] for i in range(m)])


def distinct_jacobians(m, n, families=tuple(K_FAMILIES)):
    seen, out = set(), []
    for name in families:
        K = jacobian(name, m, n)
        if K is not None and K.tobytes() not in seen:
            seen.add(K.tobytes())
            out.append(name)
    return out


def vectors(n, m):
    ramp = np.arange(1, n + 1) / 4.0
    prior = np.array([(-1) ** j * 0.3 for j in range(n)])
    e_alt = np.array([(-1) ** i * (i + 1) * 0.1 for i in range(m)])
    return ([(ramp, np.zeros(n)), (ramp, prior), (ramp, ramp)],
            [np.ones(m), e_alt])


def whole_vectors(n, m):
    """Whole-number (x, x_a) and e_y of the representation part."""
    return (np.arange(1.0, n + 1),
            np.array([(-1.0) ** j * 3 for j in range(n)]),
            np.array([(-1.0) ** i * (i + 1) for i in range(m)]))


def shards(tier, seed):
    ns, ms, scales = TIERS[tier]
    for m in ms:                              # cached before the fork
        for factor in {1.0} | set(SY_FACTOR.values()):
            distinct_covariances(m, scales, factor)
    out = []
    for n in ns:
        for m in ms:
            for kname in distinct_jacobians(m, n):
                full = ref.exact_rank(jacobian(kname, m, n)) == n
                out.extend(("main", tier, n, m, kname, full, fa, sa_scale)
                           for fa, sa_scale in distinct_covariances(n, scales))
    for n, m in itertools.product(*REP_TIERS[tier]):
        for kname in distinct_jacobians(m, n, WHOLE_K):
            full = ref.exact_rank(jacobian(kname, m, n)) == n
            out.extend(("rep", tier, n, m, kname, full, fa, 1.0) for fa, _
                       in distinct_covariances(n, (1.0,), 1.0, WHOLE_COV))
    return out


# --------------------------------------------------------------------------
# one case
# --------------------------------------------------------------------------

class HarnessProblem(Exception):
    pass


def call(func, originals, args, *more):
    """func(*args, *more) -> (value, None) or (None, violation); args are
    the caller's arrays, which must still equal `originals` afterwards."""
    try:
        value = func(*args, *more)
    except Exception as e:
        return None, ("exception/%s/%s" % (func.__name__, type(e).__name__),
                      None, repr(e)[:200], "")
    for number, (before, after) in enumerate(zip(originals, args)):
        if not np.array_equal(before, after):
            return None, ("inputs/modified-by-" + func.__name__, before,
                          after, "argument %d" % number)
    return value, None


def suffix(form):
    """Suffix of the violation keys of values computed from this form."""
    if ":" not in form:
        return ""
    return "-for-float32-input" if "f4" in dtypes_of(form) else \
        "-for-integer-input"


def well_formed(name, value, shape):
    value = np.asarray(value)
    if value.shape != shape:
        return "%s/shape" % name, shape, value.shape, ""
    if value.dtype.kind != "f" or not np.all(np.isfinite(value)):
        return "%s/not-finite-float" % name, "finite floats", value, ""
    return None


def reference(K, Sa, Sy, full_column_rank):
    """The reference of one case, or None if the case is outside the domain
    (first-order error bound of a float64 evaluation above 1/4)."""
    m, n = K.shape
    fld = ref.Field(exact=(n <= 4 and m <= 4))
    R = ref.Reference(fld, K, Sa, Sy, full_column_rank)
    if R.first_order > 0.25:
        return None
    if R.problems:
        raise HarnessProblem("; ".join(R.problems))
    return R


def rel_tolerance(R):
    """Largest tolerance relative to the size of the quantity it is granted
    to (0 for the exactly vanishing G and A of a zero Jacobian)."""
    return max(tol / ref.fro(x) for tol, x in
               ((R.tol_S, R.S), (R.tol_G, R.G), (R.tol_A, R.A)) if tol > 0)


def check_case(R, K, Sa, Sy, layouts, stats=None):
    """None or (key, expected, observed, msg). `layouts`: forms of the
    arrays handed to typhon - memory order "C" (first) | "F", or
    "C:<dtypes>" for (K, S_a, S_y) in other dtypes. `stats` (a ShardResult)
    receives the decidability counters and the measured margins."""
    from typhon.retrieval import oem
    m, n = K.shape
    fld = R.fld
    lift, eye = fld.lift, fld.eye(n)

    # One set of arrays per memory order, handed to all functions one after
    # the other (Fortran order is the one that LAPACK can work on in place).
    originals = (K, Sa, Sy)
    inputs = {layout: materialise(layout, originals) for layout in layouts}
    outs = {}
    for layout in layouts:
        for name, func, shape in (
                ("error_covariance", oem.error_covariance_matrix, (n, n)),
                ("gain", oem.retrieval_gain_matrix, (n, m)),
                ("averaging_kernel", oem.averaging_kernel_matrix, (n, n))):
            value, bad = call(func, originals, inputs[layout])
            bad = bad or well_formed(name, value, shape)
            if bad:
                return (bad[0] + suffix(layout),) + bad[1:3] + (
                    (bad[3] + " inputs as %s" % layout).strip(),)
            outs[name, layout] = np.asarray(value)
    S_t, G_t, A_t = (lift(outs[k, "C"]) for k in
                     ("error_covariance", "gain", "averaging_kernel"))

    def off(name, got, want, tol, msg):
        err = ref.fro(got - want)
        if stats is not None and tol > 0:
            stats.maximum("err_over_tol", err / tol)
        if not ref.within(fld, got - want, tol):
            return (name, want.astype(float), got.astype(float),
                    "%s: error %.3g > tolerance %.3g" % (msg, err, tol))
        return None

    # --- posterior covariance
    nS, nSa, niSa, nM = (ref.fro(x) for x in (R.S, R.Sa, R.iSa, R.M))
    bad = off("error_covariance/value", S_t, R.S, R.tol_S,
              "(K^T Sy^-1 K + Sa^-1)^-1") \
        or off("error_covariance/not-symmetric", S_t, S_t.T, 2 * R.tol_S,
               "S - S^T")
    if bad:
        return bad
    sym = (S_t + S_t.T) / fld.scalar(2)
    # lambda_min(S) >= 1/||M||_F; below 2 tol_S the sign of the smallest
    # eigenvalue of a float64 result is not decidable: shift by tol_S then.
    pd_decidable = 1.0 / nM > 2 * R.tol_S
    shift = 0.0 if pd_decidable else R.tol_S
    if not ref.is_pd(sym + fld.scalar(shift) * eye):
        return ("error_covariance/not-positive-definite", None,
                outs["error_covariance", "C"], "shift %.3g" % shift)
    # S_a - S is only semi-definite (rank K < n): Weyl with ||dS|| <= tol_S,
    # plus the round-off of the longdouble pivots themselves.
    shift = 2 * R.tol_S + 2 * n * fld.eps * nSa
    if not ref.is_pd(R.Sa - sym + fld.scalar(shift) * eye):
        return ("error_covariance/larger-than-prior", None,
                outs["error_covariance", "C"],
                "S_a - S + %.3g I not PD" % shift)

    # --- gain: both forms of the statement (identical in the exact field)
    for key, want in (("gain/value-n-form", R.G), ("gain/value-m-form", R.Gm)):
        bad = off(key, G_t, want, R.tol_G, key)
        if bad:
            return bad

    # --- averaging kernel
    nK = ref.fro(R.K)
    bad = off("averaging_kernel/value", A_t, R.A, R.tol_A, "G K") \
        or off("averaging_kernel/not-GK", A_t, G_t @ R.K,
               R.tol_A + R.tol_G * nK, "A - G K of the returned G") \
        or off("averaging_kernel/not-I-minus-S-Sa-inv", A_t,
               eye - S_t @ R.iSa, R.tol_A + R.tol_S * niSa,
               "A - (I - S Sa^-1) of the returned S")
    if bad:
        return bad
    # eig(A) = eig(S^1/2 P S^1/2) in [0, 1 - gap], gap = lambda_min(S Sa^-1)
    # >= 1/(||Sa|| ||M||); eigenvector matrix S^1/2 Q, so Bauer-Fike moves
    # every eigenvalue of the float64 result by at most sqrt(cond S) ||dA||
    # (4u: rounding of 1 - gap below).
    A64 = outs["averaging_kernel", "C"]
    tau = (nS * nM) ** 0.5 * (R.tol_A + R.c * float(np.linalg.norm(A64))) \
        + 4 * ref.U
    gap = 1.0 / (nSa * nM)
    ev = np.linalg.eigvals(A64)
    if not (np.all(np.abs(ev.imag) <= tau) and np.all(ev.real >= -tau)
            and np.all(ev.real <= 1 - gap + tau)):
        return ("averaging_kernel/eigenvalues-outside-[0,1)",
                "[0, 1 - %.3g] +- %.3g" % (gap, tau),
                [[float(z.real), float(z.imag)] for z in ev], "")
    # limits, as explicit rates: I - A = S Sa^-1 with S <= P^-1 (vanishing
    # noise scales P^-1 like S_y); A = S P with S <= S_a (vanishing prior).
    bound_I = None
    if R.iP is not None:
        bound_I = n ** 0.5 * ref.fro(R.iP) * niSa + R.tol_A
        dist_I = ref.fro(A_t - eye)
        if dist_I > bound_I:
            return ("averaging_kernel/limit-identity", "<= %.3g" % bound_I,
                    dist_I, "||A - I||_F")
    norm_A = ref.fro(A_t)
    bound_0 = n ** 0.5 * nSa * ref.fro(R.P) + R.tol_A
    if norm_A > bound_0:
        return ("averaging_kernel/limit-zero", "<= %.3g" % bound_0, norm_A,
                "||A||_F")

    # --- linear error maps
    xs, es = vectors(n, m)
    for x, x_a in xs:
        value, bad = call(oem.smoothing_error, (x, x_a, A64),
                          (x.copy(), x_a.copy(), A64.copy()))
        bad = bad or well_formed("smoothing_error", value, (n,))
        if bad:
            return bad
        d = lift(x) - lift(x_a)
        bad = off("smoothing_error/value", lift(value), A_t @ d,
                  R.c * norm_A * ref.fro(d), "A (x - x_a)")
        if bad:
            return bad
    wx, wx_a, we_y = whole_vectors(n, m)
    for layout in layouts:
        # whole e_y in the dtype of K where the matrices have other dtypes
        noises = [e.copy() for e in es] if ":" not in layout else \
            [we_y.astype(dtypes_of(layout)[0])]
        for e_y in noises:
            value, bad = call(oem.retrieval_noise, originals, inputs[layout],
                              e_y)
            bad = bad or well_formed("retrieval_noise", value, (n,))
            if bad:
                return bad
            bad = off("retrieval_noise/value" + suffix(layout), lift(value),
                      R.G @ lift(e_y), roundoff_factor(layout)
                      * (R.tol_G + R.c * ref.fro(R.G)) * ref.fro(lift(e_y)),
                      "G e_y, inputs as %s" % layout)
            if bad:
                return bad
    d = lift(wx) - lift(wx_a)
    for dtype in sorted({t for layout in layouts for t in dtypes_of(layout)}
                        - {"f8"}):
        value, bad = call(oem.smoothing_error, (wx, wx_a, A64),
                          (wx.astype(dtype), wx_a.astype(dtype), A64.copy()))
        bad = bad or well_formed("smoothing_error", value, (n,))
        if bad:
            return bad
        bad = off("smoothing_error/value" + suffix("C:" + dtype),
                  lift(value), A_t @ d, roundoff_factor("C:" + dtype)
                  * R.c * norm_A * ref.fro(d),
                  "A (x - x_a), x, x_a as " + dtype)
        if bad:
            return bad

    # --- other forms of the inputs (Fortran order, other dtypes): the same
    # values, bit for bit or at least within the tolerances of the form
    same_bits = True
    for layout in layouts[1:]:
        for name, wants, tol in (
                ("error_covariance", (("value", R.S),), R.tol_S),
                ("gain", (("value-n-form", R.G), ("value-m-form", R.Gm)),
                 R.tol_G),
                ("averaging_kernel", (("value", R.A),), R.tol_A)):
            if np.array_equal(outs[name, layout], outs[name, "C"]):
                continue
            same_bits = same_bits and layout != "F"
            for what, want in wants:
                bad = off("%s/%s%s" % (name, what, suffix(layout)),
                          lift(outs[name, layout]), want,
                          roundoff_factor(layout) * tol,
                          "inputs as %s" % layout)
                if bad:
                    return bad

    if stats is not None:
        stats.count("exact_reference_cases" if fld.exact
                    else "longdouble_reference_cases")
        stats.count("pd_decided_without_shift", int(pd_decidable))
        stats.count("eig_strictly_below_1_decided", int(gap > tau))
        stats.count("identity_limit_reached_1e-3",
                    int(bound_I is not None and bound_I < 1e-3))
        stats.count("zero_limit_reached_1e-3", int(bound_0 < 1e-3))
        if "F" in layouts:
            stats.count("fortran_order_cases")
            stats.count("fortran_order_results_bit_identical",
                        int(same_bits))
    return None


def run_shard(shard):
    part, tier, n, m, kname, full, fa, sa_scale = shard
    res = driver.ShardResult()
    K = jacobian(kname, m, n)
    Sa = covariance(fa, n, sa_scale)
    res.add("jacobian_classes",
            (kname, "full-column-rank" if full else "rank-deficient"))
    base = dict(n=n, m=m, K=kname, Sa=fa, sa_scale=sa_scale)
    last = None
    factor = SY_FACTOR.get(kname, 1.0)
    if part == "rep":
        measurement = distinct_covariances(m, (1.0,), 1.0, WHOLE_COV)
    else:
        measurement = distinct_covariances(m, TIERS[tier][2], factor)
    for fy, sy_scale in measurement:
        if sa_scale != 1.0 and sy_scale != 1.0:
            continue
        Sy = covariance(fy, m, sy_scale * factor)
        case = dict(base, Sy=fy, sy_scale=sy_scale)
        try:
            R = reference(K, Sa, Sy, full)
            if R is None:
                res.count("skipped_ill_conditioned")
                continue
            if part == "rep":
                layouts = ("C",) + tuple(
                    form for form in rep_forms(tier)
                    if R.first_order * roundoff_factor(form) <= 0.25)
                res.count("representation_cases")
                res.count("representation_forms", len(layouts) - 1)
                res.count("float32_forms_skipped_ill_conditioned",
                          len(rep_forms(tier)) + 1 - len(layouts))
            else:
                layouts = layouts_of(tier, sa_scale, sy_scale)
            case["layouts"] = layouts
            rel = rel_tolerance(R) * max(map(roundoff_factor, layouts))
            last = case
            res.case(nontrivial=bool(K.any()) and max(n, m) > 1
                     and rel <= DECISIVE)
            res.count("decisive_cases", int(rel <= DECISIVE))
            res.maximum("rel_tol", rel)
            bad = check_case(R, K, Sa, Sy, layouts, res)
            if bad is not None:
                again = check_case(R, K, Sa, Sy, layouts)
                if again is None or again[0] != bad[0]:
                    res.error("NONDETERMINISM in %r" % (case,))
                res.violation(bad[0], case, bad[1], bad[2], bad[3])
        except HarnessProblem as e:
            res.error("reference not decisive for %r: %s" % (case, e))
    if last is not None:
        res.sample(last)
    return res


def replay(case):
    K = jacobian(case["K"], case["m"], case["n"])
    Sa = covariance(case["Sa"], case["n"], case["sa_scale"])
    Sy = covariance(case["Sy"], case["m"],
                    case["sy_scale"] * SY_FACTOR.get(case["K"], 1.0))
    R = reference(K, Sa, Sy, ref.exact_rank(K) == case["n"])
    if R is None:
        return dict(ok=True, msg="outside the domain (ill-conditioned)")
    bad = check_case(R, K, Sa, Sy, tuple(case["layouts"]))
    if bad is None:
        return dict(ok=True)
    return dict(ok=False, key=bad[0], expected=bad[1], observed=bad[2],
                msg=bad[3])


if __name__ == "__main__":
    driver.main(sys.modules[__name__])
