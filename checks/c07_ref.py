"""C07 oracle: textbook geodesy formulas in numpy.longdouble.

Nothing here imports typhon. The trusted base is the closed-form map
geodetic -> cartesian; the inverse (no closed form) is a fixed number of
Heiskanen-Moritz fixed-point steps whose result is substituted back into the
closed form and rejected unless it reproduces (p, z) to 1e-9 m.
"""
import numpy as np

LD = np.longdouble
if np.finfo(LD).eps > 1e-18:
    raise RuntimeError("C07 oracle needs an extended-precision longdouble")

PI = LD("3.14159265358979323846264338327950288")
RAD = PI / 180          # radians per degree
EPS = float(np.finfo(np.float64).eps)
EPS32 = float(np.finfo(np.float32).eps)


class OracleError(Exception):
    """The reference failed its own consistency test (harness error)."""


def ld(a):
    return np.asarray(a, dtype=LD)


def wrap(d):
    """Angle difference in degrees folded into [-180, 180)."""
    return (d + 180) % 360 - 180


def geodetic_to_cart(a, e, h, lat, lon):
    h, lat, lon = np.broadcast_arrays(ld(h), ld(lat) * RAD, ld(lon) * RAD)
    e2 = LD(e) ** 2
    n = LD(a) / np.sqrt(1 - e2 * np.sin(lat) ** 2)
    p = (n + h) * np.cos(lat)
    return p * np.cos(lon), p * np.sin(lon), (n * (1 - e2) + h) * np.sin(lat)


def geocentric_to_cart(r, lat, lon):
    r, lat, lon = np.broadcast_arrays(ld(r), ld(lat) * RAD, ld(lon) * RAD)
    p = r * np.cos(lat)
    return p * np.cos(lon), p * np.sin(lon), r * np.sin(lat)


def cart_to_geocentric(x, y, z):
    x, y, z = np.broadcast_arrays(ld(x), ld(y), ld(z))
    p = np.hypot(x, y)
    return np.hypot(p, z), np.arctan2(z, p) / RAD, np.arctan2(y, x) / RAD


def cart_to_geodetic(a, e, x, y, z):
    x, y, z = np.broadcast_arrays(ld(x), ld(y), ld(z))
    a, e2 = LD(a), LD(e) ** 2
    p = np.hypot(x, y)
    lat = np.arctan2(z, p * (1 - e2))
    for _ in range(40):          # contraction <= e^2 < 0.012 per step
        n = a / np.sqrt(1 - e2 * np.sin(lat) ** 2)
        lat = np.arctan2(z + e2 * n * np.sin(lat), p)
    w = np.sqrt(1 - e2 * np.sin(lat) ** 2)
    h = p * np.cos(lat) + z * np.sin(lat) - a * w
    n = a / w
    dp = (n + h) * np.cos(lat) - p
    dz = (n * (1 - e2) + h) * np.sin(lat) - z
    if not np.all(np.hypot(dp, dz) < 1e-9):
        raise OracleError("cart_to_geodetic does not reproduce its input")
    return h, lat / RAD, np.arctan2(y, x) / RAD


def radius_at_geodetic(a, e, lat):
    x, y, z = geodetic_to_cart(a, e, 0, lat, 0)
    return np.hypot(np.hypot(x, y), z)


def radius_at_geocentric(a, e, lat):
    """Polar equation of the ellipse: r = b / sqrt(1 - e^2 cos^2(lat))."""
    e2 = LD(e) ** 2
    b = LD(a) * np.sqrt(1 - e2)
    return b / np.sqrt(1 - e2 * np.cos(ld(lat) * RAD) ** 2)


def reference(a, e, start, coords):
    """Reference values of all three nodes for initial coordinates given at
    node `start` ('D' geodetic h/lat/lon, 'C' cartesian, 'S' geocentric
    r/lat/lon). Returns {node: (3 longdouble arrays)}."""
    if start == "D":
        cart = geodetic_to_cart(a, e, *coords)
        sph = cart_to_geocentric(*cart)
        geod = tuple(np.broadcast_arrays(*[ld(c) for c in coords]))
        # cos(lat) > 0 in the domain: the longitude is the given one
        sph = (sph[0], sph[1], geod[2])
    elif start == "S":
        cart = geocentric_to_cart(*coords)
        sph = tuple(np.broadcast_arrays(*[ld(c) for c in coords]))
        geod = cart_to_geodetic(a, e, *cart)
        geod = (geod[0], geod[1], sph[2])
    elif start == "C":
        cart = tuple(np.broadcast_arrays(*[ld(c) for c in coords]))
        sph = cart_to_geocentric(*cart)
        geod = cart_to_geodetic(a, e, *cart)
    else:
        raise ValueError(start)
    return {"D": geod, "C": cart, "S": sph}


def unit_vectors(lat, lon):
    return geocentric_to_cart(1, lat, lon)


def local_frame(lat, lon):
    """Unit vectors up, north, east (each a tuple x, y, z) at a direction."""
    lat, lon = np.broadcast_arrays(ld(lat) * RAD, ld(lon) * RAD)
    up = (np.cos(lat) * np.cos(lon), np.cos(lat) * np.sin(lon), np.sin(lat))
    north = (-np.sin(lat) * np.cos(lon), -np.sin(lat) * np.sin(lon),
             np.cos(lat))
    east = (-np.sin(lon), np.cos(lon), np.zeros_like(lon))
    return up, north, east


def los_to_cart(lat, lon, za, aa):
    """Cartesian unit line of sight of zenith/azimuth angles (east-north-up:
    za = 0 up, za = 90 and aa = 0 north, aa = 90 east) at a position."""
    za, aa = ld(za) * RAD, ld(aa) * RAD
    parts = zip(*local_frame(lat, lon))
    return tuple(np.cos(za) * u + np.sin(za) * (np.cos(aa) * n
                                                + np.sin(aa) * e)
                 for u, n, e in parts)


def cart_to_poslos(x, y, z, dx, dy, dz):
    """r, lat, lon, za, aa of a cartesian position and line of sight (any
    length); atan2 forms, well conditioned away from zenith/nadir/poles."""
    r, lat, lon = cart_to_geocentric(x, y, z)
    los = (ld(dx), ld(dy), ld(dz))
    up, north, east = (sum(c * d for c, d in zip(axis, los))
                       for axis in local_frame(lat, lon))
    za = np.arctan2(np.hypot(north, east), up) / RAD
    return r, lat, lon, za, np.arctan2(east, north) / RAD


def central_angle(lat1, lon1, lat2, lon2):
    """Angle (rad) between two directions, and a = sin^2(angle/2).
    atan2(|u-v|, |u+v|) is well conditioned from 0 to pi."""
    u = np.stack(unit_vectors(lat1, lon1))
    v = np.stack(unit_vectors(lat2, lon2))
    dm = np.sqrt(np.sum((u - v) ** 2, axis=0))
    dp = np.sqrt(np.sum((u + v) ** 2, axis=0))
    return 2 * np.arctan2(dm, dp), (dm / 2) ** 2


def arc_tolerance(angle, a, k=32, eps=EPS):
    """Error bound (rad) of a haversine evaluation in floating point
    arithmetic of unit roundoff eps (float64): k eps absolute
    on sqrt(a) (inputs of a few radians, a handful of operations), amplified
    by d asin(s)/ds = 1/sqrt(1-a), at worst sqrt(2 k eps) at the antipode;
    plus relative rounding of the result."""
    amp = np.minimum(k * eps / np.sqrt(np.maximum(1 - a, LD(1e-300))),
                     np.sqrt(LD(2 * k * eps)))
    return 2 * amp + 4 * eps * angle


def chord_tolerance(chord, radius, k=32, eps=EPS):
    """Error bound (m) of a 3-D chord in arithmetic of unit roundoff eps
    (float64): k eps R absolute (coordinates
    of size R, angles of a few radians), plus relative rounding."""
    return k * eps * radius + 4 * eps * chord
