"""C06 reference model and harness primitives shared by all parts.

Reference: distances on the sphere in longdouble, exact radius units and the
comparison of an expected pair set with what GeoIndex.query returned; it uses
nothing of typhon but the Earth radius the property is relative to.
Harness: the owned numpy.random.shuffle, index construction, one query()
call."""
import contextlib
from fractions import Fraction

import numpy as np
from typhon.constants import earth_radius      # metres

LD = np.longdouble
R_KM = LD(earth_radius) / LD(1000)
PI = LD(4) * np.arctan(LD(1))
DIAMETER_KM = 2 * earth_radius / 1000
HALF_CIRCUMFERENCE_KM = float(PI * R_KM)

# (metric, tree_class, leaf_size); None = argument left at its default
# (minkowski, Ball, 40)
CONFIGURATIONS = [(m, t, leaf)
                  for m, t in ((None, None), ("minkowski", "KD"),
                               ("haversine", "Ball"))
                  for leaf in (None, 1, 2)]

# every unit name typhon declares to support, grouped by unit, with the
# exact length of the unit in kilometres; "" = a number written as a string,
# which means kilometres
UNITS = (
    (("cm", "centimeter", "centimeters"), Fraction(1, 100000)),
    (("m", "meter", "meters"), Fraction(1, 1000)),
    (("km", "kilometer", "kilometers"), Fraction(1)),
    (("",), Fraction(1)),
    (("mi", "mile", "miles"), Fraction(1609344, 1000000)),
    (("yd", "yds", "yard", "yards"), Fraction(9144, 10000000)),
    (("ft", "foot", "feet"), Fraction(3048, 10000000)),
)
UNIT_KM = {name: km for names, km in UNITS for name in names}
UNIT_GROUP = {name: names[0] or "number-as-string"
              for names, _ in UNITS for name in names}


def spelled(km, unit):
    """'<number> <unit>' for a length given in km (10 significant digits)."""
    return ("%.10g %s" % (float(Fraction(km) / UNIT_KM[unit]), unit)).strip()


def split_radius(r):
    """'<number><optional blank><unit>' -> (Fraction, unit name). The number
    may be written in any form float() accepts ('+3.5', '.35e1', '35E-1')."""
    text = r.strip()
    for unit in sorted(UNIT_KM, key=len, reverse=True):
        if unit and text.endswith(unit):
            number = text[:-len(unit)].strip()
            try:
                return Fraction(number), unit
            except ValueError:
                continue
    return Fraction(text), ""


def unit_of(r):
    """The unit (first name of its group) of a radius written as a string."""
    return UNIT_GROUP[split_radius(r)[1]]


def unit_key(r):
    """Violation key of a failure that only the radius string `r` has."""
    return ("radius-unit/%s/differs-from-the-same-length-in-km" % unit_of(r))


def radius_km(r):
    """The radius meant by `r` (a number of km or '<number> <unit>')."""
    if isinstance(r, str):
        number, unit = split_radius(r)
        return LD(float(number * UNIT_KM[unit]))
    return LD(r)


def number_forms(text):
    """Other spellings of the decimal number `text` that Python's float()
    reads as the same value: sign, exponent, bare leading decimal point."""
    from decimal import Decimal
    d = Decimal(text)
    k = d.adjusted() + 1
    shifted = format(d.scaleb(-k), "f")          # 0.xxxx
    assert shifted.startswith("0.")
    return ["+" + text, text + "e0", text + "E+0",
            shifted[1:] + "e%d" % k]


def unit_vectors(lat, lon):
    la = np.asarray(lat, dtype=LD) * PI / 180
    lo = np.asarray(lon, dtype=LD) * PI / 180
    return np.stack([np.cos(la) * np.cos(lo), np.cos(la) * np.sin(lo),
                     np.sin(la)], axis=-1)


def distance_matrices(lat_b, lon_b, lat_q, lon_q):
    """-> {"minkowski": chord, "haversine": arc}, each (build x query) in km.
    The arc comes from atan2(|u x v|, u.v), which is well conditioned from
    coincident to antipodal points."""
    u = unit_vectors(lat_b, lon_b)[:, None, :]
    v = unit_vectors(lat_q, lon_q)[None, :, :]
    cross = np.cross(u, v)
    arc = np.arctan2(np.sqrt((cross * cross).sum(-1)), (u * v).sum(-1))
    return {"minkowski": 2 * R_KM * np.sin(arc / 2), "haversine": R_KM * arc}


def in_band(d, r):
    """Don't-care band around the radius; generators assert it is empty."""
    return bool(np.any(np.abs(d - r) <= LD(1e-9) * max(r, LD(1e-3))))


def close(observed, expected):
    """Distances: float64 cartesian coordinates of size R carry ~1e-9 m of
    rounding and haversine's asin(sqrt(.)) loses ~1e-8 rad (6 cm) at
    antipodes; 1e-6 relative + 1 mm is far above both and far below any
    unit error."""
    return abs(observed - expected) <= 1e-6 * expected + 1e-6


def judge(result, expected, metric, with_distances,
          only_pair_at_tree0_query0):
    """result: what query() returned (or raised); expected: {(build index,
    query index): km}. -> None or (key, expected, observed, msg)."""
    if isinstance(result, Exception):
        bad = ("query/exception/" + type(result).__name__, sorted(expected),
               repr(result)[:200], "")
    elif with_distances:
        if isinstance(result, tuple) and len(result) == 2:
            bad = _judge(result[0], result[1], expected, metric)
        else:
            bad = ("result/not-a-pair-of-arrays", sorted(expected),
                   repr(result)[:200], "")
    else:
        bad = _judge(result, None, expected, metric)
    if bad is not None and not with_distances:
        bad = ("return_distance=False/" + bad[0],) + bad[1:]
    elif bad is not None and only_pair_at_tree0_query0 and \
            not bad[0].endswith("/distance-not-km"):
        # the input class of the emptiness short-cut (`pairs.any()`), which
        # decides whether there is anything to translate and to measure
        bad = ("only-pair-tree0-query0/" + bad[0],) + bad[1:]
    return bad


def _judge(pairs, distances, expected, metric):
    exp_pairs = sorted(expected)
    pairs = np.asarray(pairs)
    if pairs.size == 0:
        got = []
    elif pairs.ndim == 2 and pairs.shape[0] == 2:
        got = [tuple(p) for p in pairs.T.tolist()]
    else:
        return ("result/pairs-malformed", exp_pairs, pairs.tolist(),
                "pairs shape %r" % (pairs.shape,))
    if distances is not None:
        distances = np.asarray(distances)
        if (got or distances.size) and distances.shape != (len(got),):
            return ("result/distances-malformed", "shape (%d,)" % len(got),
                    "shape %r dtype %s" % (distances.shape, distances.dtype),
                    "")
    if len(set(got)) != len(got):
        return ("pairs/duplicated", exp_pairs, sorted(got), "")
    missing, extra = set(exp_pairs) - set(got), set(got) - set(exp_pairs)
    if missing and extra:
        return ("pairs/wrong-index", exp_pairs, sorted(got), "")
    if missing:
        return ("pairs/missing", exp_pairs, sorted(got), "")
    if extra:
        return ("pairs/extra", exp_pairs, sorted(got), "")
    if distances is not None:
        for pair, d in zip(got, distances.tolist()):
            if not close(d, expected[pair]):
                return (metric + "/distance-not-km", expected[pair], d,
                        "pair %r" % (pair,))
    return None


def reraise_watchdog(exc):
    """The driver's shard watchdog raises its TimeoutError wherever the shard
    happens to be; inside a guarded typhon call it still is the harness'
    timeout (a harness error), not an exception of typhon."""
    if isinstance(exc, TimeoutError) and str(exc).startswith("shard exceeded"):
        raise exc


def spelling_verdict(bad, bad_number, key):
    """A radius in another spelling (unit string, numpy scalar) against the
    same length given as a Python number of km, on the same index and query:
    a failure they share has one root cause and is reported for the number;
    one that only the spelling has gets `key`."""
    if bad is None or bad_number is not None:
        return None
    return (key,) + bad[1:]


def report(res, replay, bad, case):
    """Records a violation; the first ones of a key are re-executed first."""
    if res.vio_per_key.get(bad[0], 0) < res.MAX_PER_KEY and \
            replay(case).get("key") != bad[0]:
        res.error("NONDETERMINISM %r" % (case,))
    res.violation(bad[0], case, *bad[1:])


def evaluate(index, perm, expected, metric, qlat, qlon, r,
             with_distances=True):
    """One query() call -> (None or (key, expected, observed, msg), whether
    the only expected pair sits at tree position 0 and query 0)."""
    try:
        if with_distances:
            got = index.query(qlat, qlon, r)
        else:
            got = index.query(qlat, qlon, r, return_distance=False)
    except Exception as e:
        reraise_watchdog(e)
        got = e
    only = list(expected) if len(expected) == 1 else None
    at_00 = bool(only) and only[0][1] == 0 and \
        only[0][0] == (0 if perm is None else perm[0])
    return judge(got, expected, metric, with_distances, at_00), at_00


class SeamNotHit(Exception):
    pass


def make_index(seam, lat, lon, perm, metric, tree, leaf):
    """GeoIndex with shuffle off (perm None) or with `perm` imposed; omits
    every argument that is at its default."""
    from typhon.geographical import GeoIndex
    kwargs = {}
    if metric is not None:
        kwargs["metric"] = metric
    if tree is not None:
        kwargs["tree_class"] = tree
    if leaf is not None:
        kwargs["leaf_size"] = leaf
    if perm is None:
        kwargs["shuffle"] = False
    seam.impose(perm)
    index = GeoIndex(lat, lon, **kwargs)
    if perm is not None and seam.hits != 1:
        raise SeamNotHit("numpy.random.shuffle reached %d times by a build "
                         "with shuffle on" % seam.hits)
    return index


@contextlib.contextmanager
def owned_shuffle():
    """Rebinds numpy.random.shuffle (the attribute GeoIndex calls as
    np.random.shuffle) to a ShuffleSeam for the duration."""
    seam, original = ShuffleSeam(), np.random.shuffle
    np.random.shuffle = seam
    try:
        yield seam
    finally:
        np.random.shuffle = original


class ShuffleSeam:
    """Stands in for numpy.random.shuffle: the 'schedule' of the randomised
    structure is chosen by the harness. An array of the length of the imposed
    permutation is rearranged by it, any other array is reversed (so that a
    shuffle of anything but the build points cannot go unnoticed)."""

    def __init__(self):
        self.perm = None
        self.hits = 0

    def impose(self, perm):
        self.perm = None if perm is None else np.asarray(perm)
        self.hits = 0

    def __call__(self, arr):
        if self.perm is not None and len(arr) == len(self.perm):
            self.hits += 1
            arr[:] = arr[self.perm]
        else:
            arr[:] = arr[::-1].copy()
