"""C18 reference model: importance-weighted statistics in numpy.longdouble and
the comparison of one BMCI answer with them. Imports nothing from typhon."""
import math

import numpy as np

LD = np.longdouble
EPS = 2.0 ** -52
# w = exp(-e) in IEEE double: a normal number for e <= 700, exactly 0.0 for
# e >= 746; in between (subnormal) it is neither "zero" nor reliably
# "non-zero", so no database may have its best entry there (checked).
E_NORMAL = 700.0
E_ZERO = 746.0
TAUS = (0.0, 0.1, 0.5, 0.9, 1.0)


class Metric:
    """S^-1 (Gauss-Jordan in longdouble; S is SPD, no pivoting needed) and the
    condition number that scales every tolerance."""

    def __init__(self, s):
        s = np.asarray(s, float)
        m = s.shape[0]
        a = np.concatenate([s.astype(LD), np.eye(m, dtype=LD)], axis=1)
        for i in range(m):
            a[i] /= a[i, i]
            for j in range(m):
                if j != i:
                    a[j] -= a[j, i] * a[i]
        self.s = s
        self.sinv = a[:, m:]
        ev = np.linalg.eigvalsh(s)
        assert ev[0] > 0
        self.cond = float(ev[-1] / ev[0])

    def exponents(self, y, obs):
        """e_i = (y_obs - y_i)^T S^-1 (y_obs - y_i) / 2 and the same sum over
        absolute values (bounds the cancellation in a double evaluation)."""
        d = np.asarray(y, LD) - np.asarray(obs, LD)
        e = ((d @ self.sinv) * d).sum(axis=1) / 2
        a = ((abs(d) @ abs(self.sinv)) * abs(d)).sum(axis=1) / 2
        return e, a


def weight_error(e, a, cond):
    """Relative error a double evaluation of exp(-e) may have: the quadratic
    form carries ~cond*eps*(terms), exp turns absolute into relative error;
    beyond E_NORMAL the weight may be flushed to zero altogether."""
    return np.where(e <= E_NORMAL, 32 * EPS * cond * (1 + a), LD(1))


class Expect:
    __slots__ = ("band", "nan", "mean", "var", "tol_mean", "tol_var",
                 "values", "lo", "hi", "tol_cdf", "mixture")


def expectation(x, e, a, cond, kept):
    """Weighted statistics of the entries `kept` (indices into x, e, a)."""
    ex = Expect()
    k = np.asarray(kept, dtype=int)
    e_min = float(e[k].min()) if k.size else math.inf
    ex.band = E_NORMAL < e_min < E_ZERO
    ex.nan = not e_min <= E_NORMAL
    ex.mixture = False
    if ex.nan:
        return ex
    ek, xk = e[k], np.asarray(x, LD)[k]
    w = np.exp(-(ek - ek.min()))
    p = w / w.sum()
    mu = (p * xk).sum()
    dev = xk - mu
    var = (p * dev * dev).sum()
    delta = weight_error(ek, a[k], cond)
    dbar = (p * delta).sum()
    c = (32 + 2 * math.log2(k.size + 1)) * EPS      # summation + division

    def spread(g):        # |sum_i dp_i g_i| with |dp_i| <= p_i (delta_i + dbar)
        return 2 * ((p * delta * g).sum() + dbar * (p * g).sum())
    ex.mean, ex.var = float(mu), float(var)
    ex.tol_mean = float(spread(abs(dev)) + c * (p * abs(xk)).sum())
    ex.tol_var = float(spread(dev * dev) + 4 * c * var) + 2 * ex.tol_mean ** 2
    ex.tol_cdf = float(4 * dbar + c)
    ex.values = sorted(set(xk.astype(float).tolist()))
    ex.lo = [float(p[xk < v].sum()) for v in ex.values]
    ex.hi = [float(p[xk <= v].sum()) for v in ex.values]
    ex.mixture = len(set(xk[ek <= E_NORMAL].astype(float).tolist())) > 1
    return ex


def left_out_share(e, left):
    """Share of the total weight held by the entries `left`."""
    w = np.exp(-(e - e.min()))
    return float(w[np.asarray(left, dtype=int)].sum() / w.sum())


def isnan(v):
    return isinstance(v, float) and v != v


def judge(x2, x_min, x_max, kept_ex, full_ex, share, chi2_left, w_expected,
          out):
    """All disagreements between one BMCI answer and the statement.

    x2: the x2_max asked for; negative numbers and None (argument omitted,
    i.e. typhon's default) both mean the unrestricted mode;
    x_min, x_max: extreme x of the database; kept_ex: Expect for the entries
    inside the window BMCI reports; full_ex: Expect for the whole database;
    share: weight share of the left-out entries (None if nothing is left out
    or the total weight is zero);
    chi2_left: chi-square of each left-out entry; w_expected: (w, tol) per
    window row; out: dict ws/pred/cdf/q, each a value or an Exception.
    -> list of (key, expected, observed, msg)"""
    bad = []
    x_range = x_max - x_min
    state = "no-nonzero-weight" if kept_ex.nan else "nonzero-weight"
    for name in ("pred", "cdf", "q"):
        if isinstance(out[name], Exception):
            bad.append(("exception/%s/%s" % (state,
                                             type(out[name]).__name__),
                        "NaN" if kept_ex.nan else "a value",
                        repr(out[name])[:120], name))

    # ---- pruning leaves out only entries with chi2 > x2_max
    unrestricted = x2 is None or x2 < 0
    if unrestricted and chi2_left:
        bad.append(("weights/unrestricted-mode-leaves-out-entries", 0,
                    len(chi2_left), ""))
    if not unrestricted and any(c <= x2 for c in chi2_left):
        bad.append(("prune/left-out-entry-with-chi2-not-above-x2max",
                    "chi2 > %r for every left-out entry" % x2,
                    sorted(chi2_left)[:4], ""))

    # ---- weights
    ws = out["ws"]
    if len(ws) != len(w_expected):
        bad.append(("weights/count", len(w_expected), len(ws), ""))
    else:
        for got, (w, tol) in zip(ws, w_expected):
            if not abs(got - w) <= tol:
                bad.append(("weights/value", w, got, "tol %.3g" % tol))
                break

    # ---- mean and standard deviation
    if not isinstance(out["pred"], Exception):
        mean, std = out["pred"]
        if kept_ex.nan:
            if not (isnan(mean) and isnan(std)):
                bad.append(("predict/number-without-nonzero-weight",
                            ["nan", "nan"], [mean, std], ""))
        elif isnan(mean) or isnan(std):
            bad.append(("predict/nan-with-nonzero-weight",
                        [kept_ex.mean, math.sqrt(kept_ex.var)], [mean, std],
                        ""))
        else:
            if not abs(mean - kept_ex.mean) <= kept_ex.tol_mean:
                bad.append(("predict/mean", kept_ex.mean, mean,
                            "tol %.3g" % kept_ex.tol_mean))
            if not (std >= 0 and
                    abs(std * std - kept_ex.var) <= kept_ex.tol_var):
                bad.append(("predict/std", math.sqrt(kept_ex.var), std,
                            "variance tol %.3g" % kept_ex.tol_var))
            if share is not None:
                # P = (1-s) P_kept + s P_left  =>  |d mean| <= s R and
                # |d var| <= s (R^2/4 + (1-s) R^2) <= 1.25 s R^2
                lim = share * x_range + kept_ex.tol_mean + full_ex.tol_mean
                if not abs(mean - full_ex.mean) <= lim:
                    bad.append(("prune/mean-moved-more-than-left-out-share",
                                full_ex.mean, mean,
                                "share %.3g limit %.3g" % (share, lim)))
                lim = (1.25 * share * x_range ** 2 + kept_ex.tol_var
                       + full_ex.tol_var)
                if not abs(std * std - full_ex.var) <= lim:
                    bad.append(("prune/variance-moved-more-than-left-out-"
                                "share", full_ex.var, std * std,
                                "share %.3g limit %.3g" % (share, lim)))

    # ---- cdf
    if not isinstance(out["cdf"], Exception):
        xs, f = out["cdf"]
        if kept_ex.nan:
            if not (len(f) >= 1 and all(isnan(v) for v in f)):
                bad.append(("cdf/number-without-nonzero-weight", "nan",
                            f[:6], ""))
        else:
            bad.extend(judge_cdf(kept_ex, xs, f))

    # ---- quantiles
    if not isinstance(out["q"], Exception):
        q = out["q"]
        if kept_ex.nan:
            if not all(isnan(v) for v in q):
                bad.append(("quantiles/number-without-nonzero-weight", "nan",
                            q, ""))
        else:
            bad.extend(judge_quantiles(kept_ex, x_min, x_max, q))
    return bad


def judge_cdf(ex, xs, f):
    if any(isnan(v) for v in f):
        return [("cdf/nan-with-nonzero-weight", 1.0, f[-6:], "")]
    if len(xs) != len(f) or not xs:
        return [("cdf/shape", "as many values as entries in the window",
                 [len(xs), len(f)], "")]
    if xs[0] != ex.values[0] or any(b < a for a, b in zip(xs, xs[1:])):
        return [("cdf/x-not-ascending-from-smallest", ex.values, xs[:8], "")]
    if any(b < a for a, b in zip(f, f[1:])):
        return [("cdf/decreasing", None, f[:8], "")]
    if not abs(f[-1] - 1.0) <= 4 * EPS:
        return [("cdf/does-not-end-at-1", 1.0, f[-1], "")]
    band = dict(zip(ex.values, zip(ex.lo, ex.hi)))
    for v, fv in zip(xs, f):
        lo, hi = band.get(v, (None, None))
        if lo is None or not lo - ex.tol_cdf <= fv <= hi + ex.tol_cdf:
            return [("cdf/value-outside-[P(x<v),P(x<=v)]", [lo, hi], fv,
                     "at x=%r" % v)]
    return []


def judge_quantiles(ex, x_min, x_max, q):
    slack = 4 * EPS * max(abs(x_min), abs(x_max))
    if len(q) != len(TAUS) or any(isnan(v) for v in q):
        return [("quantiles/nan-with-nonzero-weight", None, q, "")]
    if any(b < a - slack for a, b in zip(q, q[1:])):
        return [("quantiles/decreasing-in-tau", None, q, "")]
    if not all(x_min - slack <= v <= x_max + slack for v in q):
        return [("quantiles/outside-[min-x,max-x]", [x_min, x_max], q, "")]
    # F^-1 interpolated between database entries: q(tau) lies between the
    # largest entry whose cdf stays below tau and the smallest one reaching it
    for tau, v in zip(TAUS, q):
        below = [x for x, hi in zip(ex.values, ex.hi)
                 if hi <= tau - ex.tol_cdf]
        reach = [x for x, hi in zip(ex.values, ex.hi)
                 if hi >= tau + ex.tol_cdf]
        lo = below[-1] if below else ex.values[0]
        hi = reach[0] if reach else ex.values[-1]
        if not lo - slack <= v <= hi + slack:
            return [("quantiles/not-between-bracketing-entries", [lo, hi], v,
                     "tau=%r" % tau)]
    return []
