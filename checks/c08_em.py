"""C08 - Planck radiance, brightness temperature, spectral units, Snell and
Fresnel (typhon/physics/em.py; DESIGN.md section 3, C08).

Four parts, each a module with shards / cases / nontrivial / check:
  units    c08_units.py    all paths <= 6 through the f / lambda / wavenumber
                           converter graph, exact rational reference
  density  c08_density.py  all paths <= 4 through the spectral-density
                           converter graph on grids x spectrum shapes
  planck   c08_planck.py   f x (h f / k T) lattice, longdouble expm1 reference
  optics   c08_optics.py   n1 x n2 x theta lattice for snell / fresnel
Every part also hands whole-number values over in the representations of
c08_reps.py (Python int, int64 / int32 / int16, float32; scalar, 0-d, 1-d, 2-d).
A case is a JSON-able dict that fully determines the typhon calls (replay).
"""
import sys

from mc import driver
driver.setup_env()

import typhon.physics.em  # noqa: E402,F401  once in the parent; workers fork
from checks import c08_units, c08_density, c08_planck, c08_optics  # noqa: E402

PROP = "C08"
LEVEL = "exploration"
RULE = (
    "units: every path of 1..6 converter calls from each of the 3 nodes "
    "(f, lambda, wavenumber) x every start value of the frequency lattice "
    "{1,2.5,9.99}x10^(8..14) + 1e15 Hz (thorough: 7 mantissas) as float and "
    "numpy.float64, plus the whole lattice as 1-d and 2-d array; non-trivial "
    "= path of >= 2 calls (composition / inverse). density: every path of "
    "1..4 spectral-density converter calls from each of the 3 forms x every "
    "ascending grid of 1..5 out of 6 pool frequencies (thorough: also all "
    "unsorted arrangements of 2-3 and the descending ones of 4-5) x spectrum "
    "shapes (n,), (n,1), (n,3), (n,2,2); non-trivial = >= 2 grid points and "
    "the path contains a grid-reversing (wavelength) call. planck: every "
    "point of the frequency lattice x x = hf/kT in {1e-6..100 by decades, "
    "600} (thorough: 32 per decade) with 2 <= T <= 1e4 K, as float, "
    "numpy.float64, scalar f x T array, f array x T array and f[:,None] x "
    "T[None,:] broadcast; plus T in {2,10,77,300,1000,5800,1e4} K as Python "
    "int with every scalar f for which x is in range, and as float and as "
    "Python int with the whole frequency lattice as one descending array "
    "(points with x out of range are not judged); non-trivial = the case "
    "holds a point with x <= 1e-3 or x >= 100. optics: n1 {1,1.33,2.5} as "
    "float and as complex-typed real x n2 {3 real, 2 complex with zero "
    "imaginary part, 2 complex with Im > 0, their 2 conjugates} (thorough: "
    "4 x 18) x theta {0,1e-6,10..80,89.999,90} + Brewster angles (thorough: "
    "every 0.25 deg), called as scalars, theta array, n2 array (real / "
    "zero-imaginary / zero and positive imaginary mixed / negative "
    "imaginary), n2[:,None] x theta[None,:], n1 array, n1 and n2 arrays of "
    "equal length (every rotation of n1), n1[:,None] x theta[None,:]; "
    "non-trivial = an element with complex-typed n2, total reflection, or "
    "theta in {0, Brewster, 90}. "
    "representations (reps = Python int, numpy int64, int32, int16, float32; "
    "a value is only given in a rep that holds it exactly; a Python int "
    "only as scalar): units - every path of 1..2 calls (thorough: 1..6) x "
    "every rep x whole start values f {1e8,3e8,2^30,1.5e9,1e10,1e12,2^40,"
    "1e15} Hz, lambda {1,2} m, wavenumber {1,100,500,1000,1500,1e6,3e6} /m, "
    "each as scalar and 0-d array, all together as 1-d and 2-d array. "
    "density - every path x trailing shape x (grid rep, spectrum rep) in "
    "{4 array reps x float64, float64 x int64, float64 x float32, both "
    "int64, both float32} on the grid of all whole values the rep holds. "
    "planck - whole f {100,250,999}x10^(6..12), 2^{27,30,33,36,40,43,46,49}, "
    "1e15 Hz x T {2,10,77,300,1000,5800,1e4} K with (rep of f, rep of T) in "
    "{4 x float64, float64 x 4, 4 equal pairs} as scalar x scalar, 1-d f x "
    "scalar T, scalar f x 1-d T, f[:,None] x T[None,:] (quick: T in "
    "{2,300,1e4} where T is a scalar), all six functions; the same with "
    "planck_wavenumber called on whole wavenumbers {1..3e6} /m and "
    "planck_wavelength on {2, 1, 2^-4, 2^-10, 2^-14, 2^-17, 2^-20} m against "
    "c B and B f^2/c of the reference. optics - n1 {1,2} x n2 {1,2,3} x "
    "theta {0,20,45,60,90} (thorough: + 10,40,80) with one of n1, n2, theta "
    "or all three in each rep, in all 7 layouts. Non-trivial by the rule of "
    "the part. "
    "All cases of a run are distinct by construction (products of finite "
    "alphabets, no repetition).")
ASSUMPTIONS = [
    "number representations: Python float / complex, numpy.float64, "
    "float64 / complex128 arrays over the full lattices; Python int, "
    "int64, int32, int16 and float32 (scalars, 0-d, 1-d, 2-d arrays) only on "
    "the whole-number / power-of-two sub-lattices listed in RULE; unsigned, "
    "int8, float16, longdouble and complex64 are not enumerated",
    "a violation met in another representation than float64 carries the "
    "suffix /python-int-input, /integer-dtype-input or /float32-input",
    "single-precision input (float32; int16 angles, which NumPy's deg2rad "
    "and sin evaluate in float32) may be computed in single precision by "
    "the unit converters, the spectral-density converters, snell and "
    "fresnel: tolerances there count float32 ulps (Brewster: 16 float32 "
    "ulps). The Planck / Rayleigh-Jeans family is judged with the "
    "double-precision tolerance for every representation: positivity up "
    "to h f / k T = 600, the Rayleigh-Jeans bound and the inversions "
    "cannot be met by a single-precision evaluation",
    "a clause relating two typhon results (Planck <= Rayleigh-Jeans, both "
    "inversions, the wavelength / wavenumber identities) is only judged "
    "where the results it starts from passed their own value clause",
    "numpy.longdouble has a 64-bit mantissa (x86 extended precision); "
    "expm1, sin, arctan, sqrt of the platform libm in that precision are "
    "trusted",
    "physical constants are taken from typhon.constants; the speed of light "
    "is an exact integer in m/s",
    "for a complex n2 (Im n2 != 0) the statement's Snell invariant is "
    "read as phase matching: the returned real angle is that of the planes "
    "of constant phase; it is the same for n2 and its conjugate",
    "fresnel may reject Im n2 < 0 with Exception / ValueError (typhon's sign "
    "convention is Im n >= 0); if it returns, its values are judged",
    "a complex-typed n1 with zero imaginary part is a real n1",
    "spectral-density converters are read as functions of their arguments: "
    "the arrays passed in must be unchanged after the call",
    "an element with zero imaginary part inside a complex n2 array that "
    "also holds absorbing media may return NaN or the grazing angle beyond "
    "the critical angle (statement silent)",
    "spectral-density converters: output order is only constrained for "
    "ascending input grids (ascending output); otherwise only the pairing "
    "of grid points and spectrum rows is checked",
]

PARTS = {"units": c08_units, "density": c08_density, "planck": c08_planck,
         "optics": c08_optics}


def shards(tier, seed):
    return [s for part in PARTS.values() for s in part.shards(tier)]


def run_shard(shard):
    part = PARTS[shard[0]]
    res = driver.ShardResult()
    case = None
    for case in part.cases(shard):
        res.case(nontrivial=part.nontrivial(case))
        bad, judged = part.check(case)
        res.count(shard[0] + "_cases")
        res.count(shard[0] + "_values_judged", judged)
        if bad:
            again, _ = part.check(case)
            if [v[0] for v in again] != [v[0] for v in bad]:
                res.error("NONDETERMINISM in %r" % (case,))
            for key, exp, obs, msg in bad:
                res.violation(key, case, exp, obs, msg)
    if case is not None:
        res.sample(case)
    return res


def replay(case):
    bad, _ = PARTS[case["part"]].check(case)
    if not bad:
        return dict(ok=True)
    key, exp, obs, msg = bad[0]
    return dict(ok=False, key=key, expected=exp, observed=obs, msg=msg,
                all_keys=[v[0] for v in bad])


if __name__ == "__main__":
    driver.main(sys.modules[__name__])
