"""C04, history part: explicit-state BFS over call histories on ONE reused
Collocator (driven from c04_collocate.py).

Operations are collocate() calls on dataset pairs chosen to interact with the
cached spatial index. The abstract state is tracked by the harness: a call
that reaches the numpy.random.shuffle seam built a new index - from the
primary if Collocator.index_with_primary, else from the secondary - any other
call kept the old one. State = (dataset the cached index was built from,
index_with_primary). Every history up to the depth bound is executed in full;
afterwards the frontier (state, operation) pairs not yet taken are executed
from a shortest history reaching the state until none is left, so every
transition of the reachable abstract graph has been executed. The abstraction
is validated on the way: the same (state, operation) must always give the same
result and successor.
"""
import itertools

import numpy as np

from mc import driver
from checks import c04_model as model

RULE = ("history: 11 operations (same primary / secondary moved by 1e-4 deg "
        "across the distance threshold, secondary moved in longitude only, "
        "the primary's points in another order, primary moved, roles swapped, a "
        "larger primary, that primary moved, magnitude_factor 1 with a "
        "larger secondary, the single pair (first, first), one point "
        "against two points next to it; the one with the primary's points "
        "in another order has leaf_size 1 and the thresholds as '5000 m' / "
        "timedelta, all others the default configuration) on one reused "
        "Collocator: every "
        "sequence of length 1..3 (thorough 1..4), then BFS to the fixpoint "
        "of the abstract graph.")

# explicit points (id, second, lat, lon); the primed sets are moved by 1e-4
# deg, which numpy.allclose accepts as unchanged at 10 deg, and the move takes
# the pair with the point at 10.0449 / 10.045 deg across the 5 km threshold
SETS = {
    "X": ((10, 0, 10.0, 0.0), (11, 6, 10.027, 0.0)),
    "X'": ((12, 0, 9.9999, 0.0), (13, 6, 10.027, 0.0)),
    "Y": ((20, 0, 10.0449, 0.0), (21, 6, 10.06, 0.0)),
    "Y'": ((22, 0, 10.045, 0.0), (23, 6, 10.06, 0.0)),
    "Z": ((30, 6, 10.027, 0.0), (31, 0, 10.0, 0.0), (32, 12, 10.054, 0.0)),
    "Z'": ((33, 6, 10.027, 0.0), (34, 0, 9.9999, 0.0),
           (35, 12, 10.054, 0.0)),
    "W": ((40, 0, 10.0, 0.0),),
    # two points next to W: a comparison that broadcasts takes them for W
    "W2": ((41, 0, 10.0, 0.0), (42, 6, 10.00005, 0.0)),
    # Y moved one degree east, latitudes unchanged: no partner of X any more
    "Yl": ((24, 0, 10.0449, 1.0), (25, 6, 10.06, 1.0)),
    # X given in the other order (the same points): the index still fits
    "Xr": ((11, 6, 10.027, 0.0), (10, 0, 10.0, 0.0)),
}
# (primary, secondary, deviations from the default configuration)
OPS = (("X", "Y", {}), ("X", "Y'", {}), ("X'", "Y", {}), ("Y", "X", {}),
       ("Z", "Y", {}), ("Z'", "Y", {}), ("Y'", "Z", dict(mf=1)),
       ("W", "W", {}), ("W", "W2", {}), ("X", "Yl", {}),
       ("Xr", "Y", dict(leaf=1, thr="m+timedelta")))
INITIAL = (None, False)


def shards(tier):
    """One shard per first operation (quick: all histories of length 3) or
    per first two operations (thorough: length 4)."""
    n = range(len(OPS))
    if tier == "quick":
        return [("history", tier, (a,)) for a in n]
    return [("history", tier, (a, b)) for a in n for b in n]


def cfg_of(op):
    return dict(model.DEFAULT, **OPS[op][2])


def datasets(op):
    a, b, _ = OPS[op]
    ds1, pts1, _ = model.build(("X", SETS[a]), None, "obs")
    ds2, pts2, _ = model.build(("X", SETS[b]), None, "spot")
    return ds1, pts1, ds2, pts2


def expectation(op):
    _, pts1, _, pts2 = datasets(op)
    return model.expected(pts1, pts2,
                          *model.THRESHOLDS[cfg_of(op)["thr"]][2:])


def step(collocator, state, op):
    """Executes one operation -> (observation, successor state)."""
    ds1, _, ds2, _ = datasets(op)
    before = model.SEAM.calls
    obs = model.call(collocator, ds1, ds2, cfg_of(op))
    with_primary = bool(collocator.index_with_primary)
    if model.SEAM.calls > before:
        state = (OPS[op][0] if with_primary else OPS[op][1], with_primary)
    else:
        state = (state[0], with_primary)
    return obs, state


def index_matches(collocator, state):
    """Does the tracked state agree with the points of the cached index?"""
    if state[0] is None:
        return collocator.index is None
    pts = sorted(SETS[state[0]], key=lambda p: p[1])
    return np.array_equal(collocator.index.lat, [p[2] for p in pts]) \
        and np.array_equal(collocator.index.lon, [p[3] for p in pts])


class Explorer:
    def __init__(self, res):
        from typhon.collocations import Collocator
        self.Collocator = Collocator
        self.res = res
        self.fresh = {}          # op -> observation of a fresh Collocator
        self.graph = {}          # (state, op) -> (successor, observation)
        self.reach = {INITIAL: ()}   # state -> a shortest history reaching it
        self.prefixes = set()
        self.validated = 0

    def fresh_obs(self, op):
        if op not in self.fresh:
            ds1, _, ds2, _ = datasets(op)
            self.fresh[op] = model.call(self.Collocator(), ds1, ds2,
                                        cfg_of(op))
        return self.fresh[op]

    def run(self, history, report=True):
        """Executes one history on one Collocator; every call is compared
        with the brute force and with a fresh Collocator. -> first finding
        (key, expected, observed, msg) or None."""
        collocator = self.Collocator()
        state = INITIAL
        finding = None
        for n, op in enumerate(history):
            _, pts1, _, pts2 = datasets(op)
            exp = expectation(op)
            obs, succ = step(collocator, state, op)
            if not index_matches(collocator, succ):
                self.res.error("tracked state %r does not describe the "
                               "cached index after %r" % (succ, history))
            prefix = tuple(history[:n + 1])
            if prefix not in self.prefixes:
                self.prefixes.add(prefix)
                self.res.case(nontrivial=bool(exp))
                self.res.count("calls_history")
            bad = model.judge(obs, pts1, pts2, exp)
            if bad is None and not model.same(obs, self.fresh_obs(op)):
                bad = ("differs", model.listing(self.fresh_obs(op)),
                       model.listing(obs), "")
            if bad is not None and finding is None:
                fresh_ok = model.judge(self.fresh_obs(op), pts1, pts2,
                                       exp) is None
                finding = bad if not fresh_ok else (
                    "history/result-differs-from-fresh-collocator",
                    bad[1], bad[2], "call %d of the history: %s %s"
                    % (n + 1, bad[0], bad[3]))
            known = self.graph.get((state, op))
            if known is None:
                self.graph[(state, op)] = (succ, obs)
            elif known[0] != succ or not model.same(known[1], obs):
                if finding is None:
                    self.res.error(
                        "abstraction: (%r, op %d) behaved differently in "
                        "history %r" % (state, op, history))
            if succ not in self.reach or len(prefix) < len(self.reach[succ]):
                self.reach[succ] = prefix
            state = succ
        if finding is None:
            self.validated += 1
        elif report:
            again = self.run(history, report=False)
            if again is None or again[0] != finding[0]:
                self.res.error("NONDETERMINISM in history %r" % (history,))
            self.res.violation(finding[0], dict(part="history",
                                                ops=list(history)),
                               finding[1], finding[2], finding[3])
        return finding

    def explore(self, depth, prefix=()):
        for rest in itertools.product(range(len(OPS)),
                                      repeat=depth - len(prefix)):
            self.run(tuple(prefix) + rest)
        while True:
            todo = [(s, op) for s in sorted(self.reach, key=repr)
                    for op in range(len(OPS)) if (s, op) not in self.graph]
            if not todo:
                return
            for s, op in todo:
                before = len(self.graph)
                self.run(self.reach[s] + (op,))
                if len(self.graph) == before:
                    self.res.error("state %r not reproduced by its history"
                                   % (s,))
                    return


def run_shard(shard):
    model.install_seam()
    res = driver.ShardResult()
    ex = Explorer(res)
    ex.explore(3 if shard[1] == "quick" else 4, shard[2])
    for state in ex.reach:
        res.add("history_states", repr(state))
    for (state, op) in ex.graph:
        res.add("history_transitions", repr((state, op)))
    res.count("traces_validated_against_impl", ex.validated)
    res.flag("history_graph_closed", all(
        (s, op) in ex.graph for s in ex.reach for op in range(len(OPS))))
    longest = max(ex.reach.values(), key=len)
    res.sample(dict(part="history", ops=[OPS[o] for o in longest],
                    reaches_state=[s for s, h in ex.reach.items()
                                   if h == longest][0]))
    return res


def finish(tier, merged):
    return dict(
        states=len(merged.sets.get("history_states", ())),
        transitions=len(merged.sets.get("history_transitions", ())),
        traces_validated_against_impl=merged.counters.get(
            "traces_validated_against_impl", 0))


def replay(case):
    model.install_seam()
    res = driver.ShardResult()
    finding = Explorer(res).run(tuple(case["ops"]), report=False)
    if res.errors:
        return dict(ok=False, key="harness-error", observed=res.errors)
    if finding is None:
        return dict(ok=True)
    return dict(ok=False, key=finding[0], expected=finding[1],
                observed=finding[2], msg=finding[3])
