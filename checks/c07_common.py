"""C07: the coordinate lattice and the comparison against reference values,
shared by the parts of the check."""
import numpy as np

from checks import c07_ref as ref

ONE_RAD = 57.29577951308232      # degrees; cart2geodetic's initial guess B = 1
# tier -> (latitudes, longitudes, heights): both ends of the stated ranges,
# equator and date line from both sides, the 1 rad latitude
LATTICES = {
    "quick": (
        [-88.0, -60.0, -45.0, -1e-9, 0.0, 30.0, ONE_RAD, 88.0],
        [-180.0, -179.999, -90.0, 0.0, 1e-7, 90.0, 179.999, 180.0],
        [-10e3, 0.0, 1.0, 10e3, 1000e3]),
    "thorough": (
        [-88.0, -75.0, -60.0, -45.0, -30.0, -1e-9, 0.0, 1e-9, 15.0, 30.0,
         45.0, ONE_RAD, 75.0, 88.0],
        [-180.0, -179.999, -135.0, -90.0, -1e-7, 0.0, 1e-7, 45.0, 90.0,
         135.0, 179.999, 180.0],
        [-10e3, -1.0, 0.0, 1.0, 100.0, 10e3, 400e3, 1000e3]),
}
# "any longitude": values outside [-180, 180] for the conversions that take a
# longitude (start nodes geodetic and geocentric of the graph part)
FAR_LONGITUDES = [-270.0, 270.0, 359.999, 360.0]

# Representations of a number other than float64 (Python float for scalars):
# name -> (converter of a float64 array, call forms). Every argument is
# given in each of them, one argument at a time and all together, with
# values that are exact in the representation.
REPRS = {
    "int": (None, ("scalar",)),                       # Python int
    "int64": (np.int64, ("1-D", "2-D")),
    "float32": (np.float32, ("scalar", "1-D", "2-D")),  # scalar: np.float32
}
REPR_MODES = [(rep, form) for rep, (_, forms) in REPRS.items()
              for form in forms]
# added to the whole-numbered values of an axis for float32: half degrees
HALF_DEGREES = [-45.5, 30.5]


def quantize(rep, values):
    """The nearest values that are exact in the representation (float64)."""
    values = np.asarray(values, dtype=np.float64)
    if rep == "float32":
        return values.astype(np.float32).astype(np.float64)
    return np.rint(values)


def exact(rep, axis):
    """The values of an axis that the representation holds exactly."""
    return [v for v in axis if quantize(rep, v) == v]


def subsets(n):
    """Positions of the arguments given in the other representation."""
    return [(k,) for k in range(n)] + [tuple(range(n))]


def convert(value, rep):
    """One argument (scalar or float64 array) in the representation."""
    dtype = REPRS[rep][0]
    if np.ndim(value):
        return value.astype(dtype)
    return int(value) if dtype is None else dtype(value)


def represent(columns, which, rep, form):
    """columns: equal-length 1-D float64 arrays, one per argument, exact in
    rep. Returns the list of argument tuples to call with (one per point
    for form "scalar", else a single tuple of arrays) in which the arguments
    at the positions `which` are in representation rep, the others float64."""
    if form == "scalar":
        return [tuple(convert(v, rep) if k in which else float(v)
                      for k, v in enumerate(point))
                for point in zip(*columns)]
    n = columns[0].size
    rows = max(w for w in range(1, int(n ** 0.5) + 1) if n % w == 0)
    shape = (n,) if form == "1-D" else (rows, n // rows)
    return [tuple((convert(col, rep) if k in which else col).reshape(shape)
                  for k, col in enumerate(columns))]


def as_float64(args):
    return tuple(float(a) if np.ndim(a) == 0
                 else np.asarray(a, dtype=np.float64) for a in args)


def representation_key(key, rep):
    """Key of a violation that does not occur when the same values are given
    as float64: one per function and representation."""
    parts = key.split("/")
    return "%s/wrong-with-%s-arguments" % (
        parts[1] if parts[0] == "exception" else parts[0], rep)


# kind of a coordinate -> (tolerance, unit, compared modulo 360)
KINDS = {
    "m": (0.01, "m", False),          # statement: 1 cm
    "deg": (1e-7, "deg", True),       # statement: 1e-7 degrees
    "los": (1e-6, "deg", True),       # DESIGN: zenith/azimuth to 1e-6 deg
    # azimuth of a line of sight exactly in the meridian plane (aa = 0, 180):
    # typhon recovers it through arccos at +-1, where an argument error of
    # k eps costs sqrt(2 k eps) rad; k = 1e4 gives 1.2e-4 deg. A flip between
    # north and south (180 deg) is what this catches.
    "los-meridian": (5e-4, "deg", True),
}


def conform(value, shape):
    """typhon's return value as an array of the expected shape, or None.
    The statement is silent on the exact output shape, so any result with
    the right number of elements, or broadcastable to it, is accepted."""
    arr = np.asarray(value)
    if arr.dtype == object:
        return None
    if arr.size == int(np.prod(shape, dtype=int)):
        return arr.reshape(shape)
    try:
        return np.broadcast_to(arr, shape)
    except ValueError:
        return None


def compare(values, reference, names, kinds, shape, where):
    """None or (key, expected, observed, msg) for the first coordinate that
    is off by its tolerance or more (NaN counts as off). A kind is a name in
    KINDS or a triple like its values with one tolerance per element."""
    for v, r, name, kind in zip(values, reference, names, kinds):
        tol, unit, modulo = KINDS[kind] if isinstance(kind, str) else kind
        arr = conform(v, shape)
        if arr is None:
            return ("%s/%s-shape" % (where, name), list(shape),
                    list(np.shape(v)), "output not broadcastable")
        diff = ref.ld(arr) - r
        if modulo:
            diff = ref.wrap(diff)
        diff = np.abs(diff)
        if not np.all(diff < tol):
            worst = np.unravel_index(
                np.argmax(np.where(np.isnan(diff), np.inf, diff)), shape)
            return ("%s/%s-mismatch" % (where, name),
                    float(np.broadcast_to(r, shape)[worst]),
                    float(arr[worst]),
                    "|error| = %.3g %s at index %s" % (
                        float(diff[worst]), unit, [int(w) for w in worst]))
    return None


def same(a, b):
    """Equality of two violation records that may contain NaN."""
    return repr(a) == repr(b)
