"""C07: the coordinate lattice and the comparison against reference values,
shared by the parts of the check."""
import numpy as np

from checks import c07_ref as ref

ONE_RAD = 57.29577951308232      # degrees; cart2geodetic's initial guess B = 1
# tier -> (latitudes, longitudes, heights): both ends of the stated ranges,
# equator and date line from both sides, the 1 rad latitude
LATTICES = {
    "quick": (
        [-88.0, -60.0, -45.0, -1e-9, 0.0, 30.0, ONE_RAD, 88.0],
        [-180.0, -179.999, -90.0, 0.0, 1e-7, 90.0, 179.999, 180.0],
        [-10e3, 0.0, 1.0, 10e3, 1000e3]),
    "thorough": (
        [-88.0, -75.0, -60.0, -45.0, -30.0, -1e-9, 0.0, 1e-9, 15.0, 30.0,
         45.0, ONE_RAD, 75.0, 88.0],
        [-180.0, -179.999, -135.0, -90.0, -1e-7, 0.0, 1e-7, 45.0, 90.0,
         135.0, 179.999, 180.0],
        [-10e3, -1.0, 0.0, 1.0, 100.0, 10e3, 400e3, 1000e3]),
}
# "any longitude": values outside [-180, 180] for the conversions that take a
# longitude (start nodes geodetic and geocentric of the graph part)
FAR_LONGITUDES = [-270.0, 270.0, 359.999, 360.0]

# kind of a coordinate -> (tolerance, unit, compared modulo 360)
KINDS = {
    "m": (0.01, "m", False),          # statement: 1 cm
    "deg": (1e-7, "deg", True),       # statement: 1e-7 degrees
    "los": (1e-6, "deg", True),       # DESIGN: zenith/azimuth to 1e-6 deg
    # azimuth of a line of sight exactly in the meridian plane (aa = 0, 180):
    # typhon recovers it through arccos at +-1, where an argument error of
    # k eps costs sqrt(2 k eps) rad; k = 1e4 gives 1.2e-4 deg. A flip between
    # north and south (180 deg) is what this catches.
    "los-meridian": (5e-4, "deg", True),
}


def conform(value, shape):
    """typhon's return value as an array of the expected shape, or None.
    The statement is silent on the exact output shape, so any result with
    the right number of elements, or broadcastable to it, is accepted."""
    arr = np.asarray(value)
    if arr.dtype == object:
        return None
    if arr.size == int(np.prod(shape, dtype=int)):
        return arr.reshape(shape)
    try:
        return np.broadcast_to(arr, shape)
    except ValueError:
        return None


def compare(values, reference, names, kinds, shape, where):
    """None or (key, expected, observed, msg) for the first coordinate that
    is off by its tolerance or more (NaN counts as off). A kind is a name in
    KINDS or a triple like its values with one tolerance per element."""
    for v, r, name, kind in zip(values, reference, names, kinds):
        tol, unit, modulo = KINDS[kind] if isinstance(kind, str) else kind
        arr = conform(v, shape)
        if arr is None:
            return ("%s/%s-shape" % (where, name), list(shape),
                    list(np.shape(v)), "output not broadcastable")
        diff = ref.ld(arr) - r
        if modulo:
            diff = ref.wrap(diff)
        diff = np.abs(diff)
        if not np.all(diff < tol):
            worst = np.unravel_index(
                np.argmax(np.where(np.isnan(diff), np.inf, diff)), shape)
            return ("%s/%s-mismatch" % (where, name),
                    float(np.broadcast_to(r, shape)[worst]),
                    float(arr[worst]),
                    "|error| = %.3g %s at index %s" % (
                        float(diff[worst]), unit, [int(w) for w in worst]))
    return None


def same(a, b):
    """Equality of two violation records that may contain NaN."""
    return repr(a) == repr(b)
