"""C11 - reference model of a directory tree managed through FileSets.

Pure Python, no typhon: a state is a dict  relative path -> File  (which
fileset the file belongs to, its own period and placeholder values, its
logical content); operations are tuples.  File names come from the harness'
generator mc.fsbuild.render.  The planner (`plan`) runs the breadth-first
search over this model to decide which histories the implementation has to be
driven through; the check itself compares every real transition with `step`.
"""
import datetime as dt

from mc import fsbuild

D = dt.datetime
# periods: across the year end (doy 365 -> 001, end_year differs), on the leap
# day, the day after it (doy 061 only in a leap year), and an instant (what
# fileset[t] = data stores)
PERIODS = [(D(2019, 12, 31, 22, 0), D(2020, 1, 1, 2, 0)),
           (D(2020, 2, 29, 6, 0), D(2020, 2, 29, 12, 0)),
           (D(2020, 3, 1, 0, 0), D(2020, 3, 1, 6, 0)),
           (D(2020, 3, 1, 0, 0), D(2020, 3, 1, 0, 0)),
           # the hours of period 1 on the next day: with the same placeholder
           # value a file of the same base name in another directory (only
           # used by the threads part, see TWINS)
           (D(2020, 3, 1, 6, 0), D(2020, 3, 1, 12, 0))]
# what a file can be: (period index, value of the user placeholder {sat})
SLOTS = [(0, "A"), (1, "A"), (1, "B"), (2, "B")]
INSTANT = (3, "A")
# two files whose names differ only in the directory
TWINS = [(1, "A"), (4, "A")]
PAYLOADS = [{"v": 1, "c": 0}, {"v": 2, "c": 0}]
# entry a writer adds to the payload when it is called with the option tag=
TAG = "t"

NAME = "{sat}_{hour}{minute}-{end_hour}{end_minute}.pkl"
FILESETS = {
    "A": "a/{year}/{month}/{day}/" + NAME,
    # month/day -> doy, the end spelled as year + day of year + time (one of the
    # periods crosses New Year)
    "DOY": "doy/{year}/{doy}/{sat}_{hour}{minute}-{end_year}{end_doy}T"
           "{end_hour}{end_minute}.pkl",
    "END": "end/{year}/{month}/{day}/{sat}_{hour}{minute}-{end_year}"
           "{end_month}{end_day}T{end_hour}{end_minute}.pkl",   # + end fields
    "USR": "usr/{year}/{month}/{day}/{sat}_{ver}_{hour}{minute}-{end_hour}"
           "{end_minute}.pkl",                            # + user placeholder
    "GZ": "gz/{year}/{month}/{day}/" + NAME + ".gz",      # + compression
    "B2": "base2/sub/{year}/{month}/{day}/" + NAME,       # other base dir
    # no directory placeholders at all
    "FLAT": "flat/{sat}_{year}{month}{day}T{hour}{minute}-{end_hour}"
            "{end_minute}.pkl",
    # another handler (see FORMAT)
    "J": "json/{year}/{doy}/{sat}_{hour}{minute}-{end_hour}{end_minute}.json",
}
# J is a fileset of JSON documents with write_args, read_args and a
# post_reader of its own; all others hold pickles
FORMAT = {fsid: "json" if fsid == "J" else "pickle" for fsid in FILESETS}
# user placeholders a fileset fixes itself (handed to FileSet(placeholder=))
DEFAULTS = {"USR": {"ver": "v2"}}
# targets given to move() as a FileSet object; the others as a path string
# (a path string means: the source's handler and options)
OBJECT_TARGETS = ("END", "USR", "J")

# selections: keyword arguments of move()/delete(), and which slots they mean
SEL_PERIOD = ("2020-02-29", "2020-02-29 18:00")
SELECTIONS = {
    "all": lambda slot: True,
    "period": lambda slot: slot[0] == 1,
    "filter": lambda slot: slot[1] == "A",
    "nfilter": lambda slot: slot[1] != "A",
    "files": lambda slot: slot in ((0, "A"), (2, "B")),
    "paths": lambda slot: slot in ((0, "A"), (2, "B")),   # as plain strings
}


class File:
    __slots__ = ("fsid", "slot", "content")

    def __init__(self, fsid, slot, content):
        self.fsid, self.slot, self.content = fsid, slot, content

    def key(self):
        return (self.fsid, self.slot, tuple(sorted(self.content.items())))


def name_of(fsid, slot):
    (t0, t1), sat = PERIODS[slot[0]], slot[1]
    attrs = dict(DEFAULTS.get(fsid, {}), sat=sat)
    return fsbuild.render(FILESETS[fsid], t0, t1, attrs)


def target_is_object(src, dst):
    """A target with another handler can only be given as a FileSet."""
    return dst in OBJECT_TARGETS or FORMAT[src] != FORMAT[dst]


def convert_payload(data):
    """The converting function handed to move(convert=...)."""
    return dict(data, c=data["c"] + 1)


def canon(state):
    return tuple(sorted((p, f.key()) for p, f in state.items()))


def listing(state):
    """What the harness must see on disk: path -> repr of the content."""
    return {p: repr(sorted(f.content.items())) for p, f in state.items()}


def selected(state, fsid, sel):
    return sorted(p for p, f in state.items()
                  if f.fsid == fsid and SELECTIONS[sel](f.slot))


def step(state, op):
    """-> (new state, selected paths). Never mutates `state`."""
    kind = op[0]
    if kind in ("w", "wo", "wt"):
        # w: fs[s:e] = data; wo: fs.write(data, name or FileInfo, tag=1);
        # wt: fs[t] = data
        fsid, pi = (op[1], op[2]) if kind == "wt" else (op[1], op[3])
        slot = INSTANT if kind == "wt" else SLOTS[op[2]]
        content = dict(PAYLOADS[pi], **({TAG: 1} if kind == "wo" else {}))
        new = dict(state)
        new[name_of(fsid, slot)] = File(fsid, slot, content)
        return new, []
    if kind == "rb":
        return state, []
    if kind == "del":
        _, fsid, sel, dry = op
        chosen = selected(state, fsid, sel)
        if dry:
            return state, chosen
        return {p: f for p, f in state.items() if p not in chosen}, chosen
    if kind == "mv":
        _, src, dst, sel, copy, conv = op
        chosen = selected(state, src, sel)
        new = dict(state)
        if not copy:
            for p in chosen:
                del new[p]
        for p in chosen:
            f = state[p]
            content = convert_payload(f.content) if conv == "call" \
                else dict(f.content)
            new[name_of(dst, f.slot)] = File(dst, f.slot, content)
        return new, chosen
    raise ValueError(op)


def ops(alphabet="layout"):
    """The operation alphabets: "layout" (62 operations: targets that change
    the layout of names and directories) and "forms" (25 operations: the other
    forms of writing, a target with another handler, conversion in place, a
    target without directories, deleting by path strings)."""
    if alphabet == "forms":
        return forms_ops()
    out = []
    for si in range(len(SLOTS)):
        for pi in range(len(PAYLOADS)):
            out.append(("w", "A", si, pi))
    out.append(("w", "GZ", 1, 1))
    sels = ["all", "period", "filter", "files"]
    # (target, how): raw = rename/copy, conv = through both handlers,
    # call = through both handlers and a converting function. A raw move to a
    # template with a compression suffix would only rename (the result is not
    # a compressed file): outside the domain.
    for dst, conv in (("DOY", "raw"), ("END", "raw"), ("USR", "raw"),
                      ("GZ", "conv"), ("B2", "call")):
        for sel in sels:
            for copy in (False, True):
                out.append(("mv", "A", dst, sel, copy, conv))
    out.append(("mv", "A", "DOY", "nfilter", True, "conv"))
    # back from the targets
    out.append(("mv", "DOY", "A", "all", False, "raw"))
    out.append(("mv", "GZ", "A", "all", False, "conv"))
    out.append(("mv", "USR", "B2", "filter", True, "raw"))
    for sel in sels + ["nfilter"]:
        out.append(("del", "A", sel, False))
    out.append(("del", "END", "period", False))
    out.append(("del", "A", "all", True))
    out.append(("del", "A", "files", True))
    out.append(("rb",))
    return out


def forms_ops():
    out = [("w", "A", 0, 1), ("w", "A", 2, 0),
           # (fileset, slot, payload, file given as path string / FileInfo)
           ("wo", "A", 1, 1, "name"), ("wo", "A", 3, 0, "info"),
           ("wo", "J", 2, 1, "name"),
           ("wt", "A", 1)]
    for sel in ("all", "filter"):
        for copy in (False, True):
            for conv in ("conv", "call"):
                out.append(("mv", "A", "J", sel, copy, conv))
    out.append(("mv", "J", "A", "all", False, "conv"))
    out.append(("mv", "J", "A", "filter", True, "call"))
    # target name = source name: conversion in place
    out.append(("mv", "A", "A", "filter", False, "call"))
    out.append(("mv", "A", "A", "period", True, "call"))
    out.append(("mv", "A", "FLAT", "all", False, "raw"))
    out.append(("mv", "A", "FLAT", "period", True, "raw"))
    out.append(("mv", "FLAT", "A", "all", False, "raw"))
    out.append(("del", "A", "paths", False))
    out.append(("del", "A", "paths", True))
    out.append(("del", "J", "filter", False))
    out.append(("rb",))
    return out


def roots():
    """Initial trees: empty, and one file in every slot of A."""
    full = {}
    for si, slot in enumerate(SLOTS):
        full[name_of("A", slot)] = File("A", slot,
                                        dict(PAYLOADS[1 if si == 2 else 0]))
    return {"empty": {}, "full": full}


def twins_root():
    """Two files of A with the same base name in different directories and
    different contents (root of the threads part only)."""
    return {name_of("A", slot): File("A", slot, dict(PAYLOADS[i]))
            for i, slot in enumerate(TWINS)}


def plan(depth, alphabet="layout"):
    """Breadth-first search over the model with merging of equal trees.
    Returns [(root, history)] - one shortest history for every distinct tree
    reachable in fewer than `depth` operations (these are the states that get
    expanded by every operation), in BFS order."""
    alphabet = ops(alphabet)
    out = []
    for rname, rstate in roots().items():
        seen = {canon(rstate)}
        frontier = [((), rstate)]
        for level in range(depth):
            out.extend((rname, h) for h, _ in frontier)
            if level == depth - 1:
                break
            nxt = []
            for h, st in frontier:
                for op in alphabet:
                    new, _ = step(st, op)
                    c = canon(new)
                    if c not in seen:
                        seen.add(c)
                        nxt.append((h + (op,), new))
            frontier = nxt
    return out
